"""C22 — chunked transfer coding round-trips and rejects malformed input.

Engine E3 (net, delivery generator only: the decoder is a stream consumer, not a
Protocol).  A chunk list is encoded either with the real `toChunk` or with the
independent RFC 9112 encoder models/chunked.py (upper/lower-case hex, leading
zeros, chunk extensions with tokens and quoted strings, trailer fields), followed
by arbitrary extra bytes, and fed to a real `_ChunkedTransferDecoder` in
tape-chosen pieces (net.cut with the layout offsets as preferred cut points).

Three families: valid (round trip + extra bytes), truncated at a tape-chosen
offset followed by noMoreData(), malformed (non-hex size line / chunk data not
followed by CRLF / forbidden byte in an extension / size line longer than the
documented limit / size line ended by something other than CRLF, at a tape-chosen chunk).

Line terminators: the two-byte CRLF is the only terminator of the chunked framing.  The
malformation "nocrlf" puts in the place of the CRLF that follows some chunk's data two other
bytes, one byte only (bare LF, bare CR, any other byte), nothing, or 1..3 tape-drawn bytes
from a CR/LF-heavy alphabet (never beginning with CRLF); the malformation "lineend" ends a
size line (of a chunk or of the last-chunk) with bare LF, bare CR, LF CR, CR CR LF or
LF CR LF instead of CRLF, so that the bytes up to the next CRLF of the stream - the size
line - contain a CR or LF, which is neither a hex digit nor allowed in an extension.

Documented size limit: the public module setting twisted.web.http.maxChunkSizeLineLength
is a per-run knob (left alone, raised or lowered; restored afterwards).  One size line of
a message may be padded with a long (valid) chunk extension to a length just inside the
limit in force, or anywhere between the default and the limit in force; the malformation
"overlong" pads it to a length beyond the limit in force.

Trailer section near its documented limit: the class documentation of the decoder names _maxTrailerHeadersSize (2**16) as
the "maximum bytes for trailer header".  A share of the reference-encoded messages gets its trailer section (the field lines with
their CRLFs; the empty line that ends the message is not a trailer header) padded by 1..3 more field lines to exactly that limit,
one byte less, a few bytes less or anywhere in the last 6000 bytes below it, and is cut mostly around the CRLFs of the trailer
lines, around the final CRLF (before it, between its CR and LF, after it) and where the received part reaches the limit.  Such a
message is inside the documented limits: the round trip is demanded for every segmentation.  Trailer sections beyond the limit
are not generated (the statement names no verdict for them).

End of the stream after a rejection: every decoder that rejected its input is told at once that the stream has ended
(noMoreData(), what the HTTP client does after giving a response up); in a quarter of the malformed runs the stream really ends
with the malformed element (truncation and malformation together), otherwise the rest of the message is simply never delivered.
The last chunk was never accepted and completion never signalled, so this end of the stream is a loss.

Decoders are independent objects: in the malformed family the malformed stream and the
valid stream it was derived from are fed, in a tape-chosen order, to several fresh
decoders within the same run (each with its own segmentation) and every one of them is
judged by the same clauses - a verdict must not depend on what an earlier decoder saw.

Oracle: delivered data == original body (a prefix of it after every delivery);
finishCallback exactly once with exactly the bytes that followed the end of the
message in that delivery; the same stream in one piece gives the same result;
truncation before the last-chunk line is complete -> _DataLoss from noMoreData();
a complete message -> noMoreData() does not raise; each malformation ->
_MalformedChunkedDataError by the end of the stream, finish never called,
delivered data a prefix of the body that precedes the malformation, and noMoreData() after the rejection raises _DataLoss
(and calls nothing back).  A size line whose
length including its CRLF is at most the limit in force is inside the documented limits
(round trip demanded); a size line whose length without CRLF exceeds the limit in force
must be refused; lengths in between (the documentation does not say whether the CRLF
counts) are not generated.
"""
from twisted.web import http

from detsim import net
from detsim.sim import Violation
from models import chunked as ck

ID = "C22"
ENGINE = "net"
LEVEL = "exploration"
TECHNIQUE = ("deterministic simulation: seeded chunk/extension/trailer grammar, byte-level malformations and truncation, size lines "
             "near the (per-run) documented limit, trailer sections at the documented limit, end of stream after a rejection, "
             "seeded segmentation into several fresh real _ChunkedTransferDecoder objects per "
             "run vs the original chunk list")
QUICK_RUNS = 55000
TWIN_P = 0.08   # this share of the runs drives two independent instances of the scenario one after the other (detsim.runner._run_scenario)
BATCH = 200
# RFC 9112 quoted-string allows quoted-pair ("\\" x) inside a chunk-ext-val; the decoder's
# allowed-byte table has no backslash, so such a (valid) extension is rejected.  Off by
# default: whether the statement ("optionally with chunk extensions") demands it is unclear.
INCLUDE_QUOTED_PAIR = False
COMPONENTS = {
    "real": ["twisted.web.http._ChunkedTransferDecoder", "twisted.web.http.toChunk", "twisted.web._abnf._hexint"],
    "stub": ["delivery segmentation (detsim.net.cut)", "dataCallback/finishCallback recorders (HTTPChannel's role)"],
}
RULE = ("run = 0..5 chunks (sizes 1..3000, rarely 70000) encoded by toChunk or by the reference encoder with extensions/"
        "trailers, + 0..30 extra bytes; per-run knob http.maxChunkSizeLineLength (default / 1500..4096 / 64..300) and optionally one "
        "size line padded by a long valid extension to just inside the limit in force or between the default and that limit; "
        "family valid / truncated+noMoreData / malformed (nonhex, badext, nocrlf = the CRLF after a chunk's data replaced by two "
        "other bytes / one byte such as bare LF or bare CR / nothing / 1..3 drawn bytes, lineend = a size line ended by bare LF, "
        "bare CR, LF CR, CR CR LF or LF CR LF, overlong = line padded beyond the limit in "
        "force); malformed family: 1..3 fresh decoders get the malformed stream, optionally the valid original in between or "
        "before, each judged, each told after its rejection that the stream ended (noMoreData -> _DataLoss); in 25% of them the "
        "stream ends with the malformed element; 4% of the reference-encoded messages carry a trailer section padded to the "
        "documented 2**16 bytes (field lines with CRLFs) or up to 40 (rarely 6000) bytes less, cut around the trailer CRLFs and the "
        "final CRLF; delivered in tape-chosen pieces; non-trivial = the stream was cut at least once")
ASSUMPTIONS = [
    "trailer sections are at most 2**16 bytes counting every field line with its CRLF and not the empty line that ends the "
    "message (the documented limit is on the 'trailer header' bytes; the empty line is not one); larger ones are not generated; "
    "size lines are either <= limit-2 bytes (inside the documented "
    "limit under every reading of 'length of the CRLF-terminated line') or >= limit+1 bytes (outside under every reading); "
    "the two lengths in between are not generated",
    "http.maxChunkSizeLineLength is set before any decoder of the run is built and not changed while one is alive",
    "after finishCallback the caller stops feeding the decoder (as HTTPChannel does), so 'extra bytes' are those that "
    "followed the end of the message within the same delivery",
    "a caller that was given _MalformedChunkedDataError delivers nothing more to that decoder (HTTPChannel answers 400 and "
    "closes, the client gives the response up); what further dataReceived calls would do is not judged, only the noMoreData() "
    "that follows the rejection",
    "no BWS between chunk-size and ';' is generated (the decoder rejects it; RFC 9112 tolerates it on receipt)",
    "terminator variants (bare LF, bare CR, ...) are generated only where the statement names a verdict: after chunk data "
    "('chunk data not followed by CRLF') and at the end of a size line (the line up to the next CRLF then holds a CR/LF: not "
    "hexadecimal / disallowed byte in the extension); trailer lines and the final empty line keep their CRLF (the statement "
    "is silent on them)",
]

DEFAULT_LIMIT = http.maxChunkSizeLineLength      # documented module-level setting, as shipped
STEP_CAP = 20000
# what may stand in the place of the CRLF that follows chunk data
TERM_TWO = [b"XY", b"\n\r", b"\r\r", b"\nX", b"\rX", b"", b"\x00\n"]      # two other bytes / nothing
TERM_ONE = [b"\n", b"\r", b"X", b"\x00", b" "]                          # one byte only (the next size line follows at once)
# what may end a size line instead of CRLF
LINE_ENDS = [b"\n", b"\r", b"\n\r", b"\r\r\n", b"\n\r\n"]
# Documented limit of the trailer section (class documentation of the decoder: "_maxTrailerHeadersSize: Maximum bytes for trailer
# header", 2**16): the field lines with their CRLFs.  The empty line that ends the message is not a trailer header.
TRAILER_LIMIT = 2 ** 16
BIG_TRAILER_P = 0.04      # share of the reference-encoded messages whose trailer section is padded to the limit or just below it
RECUT = ["whole", "one", "few", "edges"]      # segmentation styles for the further decoders of a run (the first gets every style)


def gen_chunk(sim):
    n = sim.draw_weighted([(sim.draw_int(1, 20, "clen"), 10), (1, 2), (15, 1), (16, 1), (17, 1), (255, 1), (256, 1), (4096, 1),
                           (sim.draw_int(1, 3000, "clen2"), 2), (70000, 1)], "clenkind")
    if n <= 12:
        return sim.draw_bytes(n, b"a0\r\n;5F")
    return sim.draw_blob(n)


def gen_token(sim):
    return sim.draw_bytes(sim.draw_int(1, 6, "toklen"), b"abXY09-_.!~")


def gen_ext(sim):
    out = b""
    for _ in range(sim.draw_weighted([(0, 6), (1, 3), (2, 1)], "next")):
        out += b";" + (b" " if sim.draw_bool(0.15, "bws") else b"") + gen_token(sim)
        form = sim.draw_weighted([("none", 3), ("token", 3), ("quoted", 3)], "extval")
        if form == "token":
            out += b"=" + gen_token(sim)
        elif form == "quoted":
            alpha = ck.QDTEXT
            body = bytes(sim.draw_choice(alpha, "q") for _ in range(sim.draw_int(0, 8, "qlen")))
            if INCLUDE_QUOTED_PAIR and sim.draw_bool(0.3, "quoted-pair"):
                body += b"\\" + sim.draw_choice([b'"', b"\\", b"a"], "qp")
            out += b'="' + body + b'"'
    return out


def pad_ext(sim, n):
    """A valid chunk extension of exactly n >= 5 bytes (long token name / token value / quoted string)."""
    assert n >= 5
    form = sim.draw_choice(["quoted", "name", "tokval"], "padform")
    if form == "name":
        return b";" + bytes([sim.draw_choice(list(b"xA9-_~"), "padchar")]) * (n - 1)
    if form == "tokval":
        return b";x=" + bytes([sim.draw_choice(list(b"xA9-_~"), "padchar")]) * (n - 3)
    return b';x="' + bytes([sim.draw_choice(list(b"x ;=\t,~\xe9"), "padq")]) * (n - 5) + b'"'


def long_target(sim, limit, base, inside):
    """Length (without CRLF) for a padded size line whose unpadded length is `base`.
    inside: <= limit-2 (with its CRLF the line is at most `limit` bytes: allowed under every reading of the documentation);
    otherwise >= limit+1 (even without its CRLF the line is longer than `limit`: refused under every reading)."""
    if inside:
        hi = limit - 2
        t = sim.draw_weighted([(hi - sim.draw_int(0, 40, "below"), 3),
                               (sim.draw_int(min(hi, DEFAULT_LIMIT - 2), hi, "between"), 2),
                               (sim.draw_int(50, hi, "anylong"), 1)], "longlen")
        t = max(t, base + 5)
        assert t <= hi, (t, hi)
        return t
    lo = limit + 1
    t = sim.draw_weighted([(lo + sim.draw_int(0, 40, "above"), 3),
                           (sim.draw_int(lo, max(lo, DEFAULT_LIMIT + 1), "between"), 2),
                           (sim.draw_int(lo, 2 * limit + 100, "anyover"), 1)], "overlen")
    return max(t, base + 5)


def gen_message(sim, limit):
    chunks = [gen_chunk(sim) for _ in range(sim.draw_int(0, 5, "nchunks"))]
    info = {"tochunk": False, "ext": False, "trailers": 0, "long": None, "bigtrailer": None}
    if sim.draw_bool(0.3, "toChunk"):
        info["tochunk"] = True
        wire0 = b"".join(b"".join(http.toChunk(c)) for c in chunks) + b"0\r\n\r\n"
        # same message through the reference encoder gives the layout (and cross-checks toChunk's size text)
        wire, layout = ck.encode(chunks)
        return chunks, wire0, layout, info, wire
    sizes = [ck.size_text(len(c), sim.draw_bool(0.4, "upper"), sim.draw_weighted([(0, 6), (1, 1), (3, 1)], "zeros")) for c in chunks]
    exts = [gen_ext(sim) for _ in chunks]
    last = sim.draw_choice(["0", "00", "0000"], "last")
    last_ext = gen_ext(sim)
    trailers = [sim.draw_choice([b"X-Sum: abc", b"Expires: 0", b"A:", b"Long-One: " + b"v" * 200, b"T: \tx y"], "trailer")
                for _ in range(sim.draw_weighted([(0, 5), (1, 2), (2, 1)], "ntrailers"))]
    if sim.draw_bool(0.1 if limit == DEFAULT_LIMIT else 0.4, "longline"):
        # one size line padded by a long valid extension, still inside the limit in force
        k = sim.draw_int(0, len(chunks), "longwhich")
        base = len(sizes[k]) + len(exts[k]) if k < len(chunks) else len(last) + len(last_ext)
        pad = pad_ext(sim, long_target(sim, limit, base, True) - base)
        if k < len(chunks):
            exts[k] += pad
        else:
            last_ext += pad
        info["long"] = (k, base + len(pad))
        sim.probe("long_line_inside_limit")
        if base + len(pad) >= DEFAULT_LIMIT:
            sim.probe("long_line_inside_raised_limit_beyond_default")
    if sim.draw_bool(BIG_TRAILER_P, "bigtrailer"):
        # trailer section (field lines with their CRLFs) padded by 1..3 more field lines to exactly the documented limit, one
        # byte less, or a little below: still inside the limit, so the round trip is demanded for every segmentation
        cur = sum(len(t) + 2 for t in trailers)
        total = sim.draw_weighted([(TRAILER_LIMIT, 3), (TRAILER_LIMIT - 1, 2), (TRAILER_LIMIT - sim.draw_int(2, 40, "tbelow"), 3),
                                   (sim.draw_int(TRAILER_LIMIT - 6000, TRAILER_LIMIT, "tany"), 1)], "trailertotal")
        room = total - cur
        nlines = sim.draw_int(1, 3, "padlines")
        sizes_ = []
        for i in range(nlines - 1):
            sizes_.append(sim.draw_weighted([(sim.draw_int(6, 60, "shortpad"), 2), (sim.draw_int(6, room // 2, "anypad"), 1)], "padsize"))
            room -= sizes_[-1]
        sizes_.insert(sim.draw_int(0, len(sizes_), "bigpos"), room)       # the big line first, in the middle or last
        fill = bytes([sim.draw_choice(list(b"a \t~\xe9"), "tfill")])
        for k, sz in enumerate(sizes_):
            trailers.append(b"P%d:" % k + fill * (sz - 5))                 # sz bytes with its CRLF
        assert sum(len(t) + 2 for t in trailers) == total <= TRAILER_LIMIT, (total, sizes_)
        info["bigtrailer"] = total
        sim.probe("trailer_section_at_limit" if total == TRAILER_LIMIT else "trailer_section_just_below_limit"
                  if total >= TRAILER_LIMIT - 40 else "trailer_section_large")
    info["ext"] = any(exts) or bool(last_ext)
    info["trailers"] = len(trailers)
    info["parts"] = (sizes, exts, last, last_ext, trailers)
    wire, layout = ck.encode(chunks, sizes, exts, last, last_ext, trailers)
    return chunks, wire, layout, info, wire


def layout_bounds(layout, limit=None):
    b = set()
    starts = []
    for c in layout["chunks"]:
        for a in ("line", "data", "crlf"):
            b.update(c[a])
        starts.append(c["line"])
    b.update(x for x in layout["last_line"] if x is not None)
    starts.append(layout["last_line"])
    b.add(layout["last_line_end"])
    b.add(layout["end"])
    if limit is not None:
        # inside a long size line: the offsets where the buffered partial line reaches the limit in force / the default
        for a, e in starts:
            for lim in (limit, DEFAULT_LIMIT):
                if e is not None and e - a > lim - 60:
                    b.update(x for x in (a + lim, a + lim + 1) if x < e + 2)
    return sorted(b)


def trailer_bounds(layout, trailers):
    """Preferred cut points of a message with a large trailer section: around every trailer line's CRLF, around the final
    CRLF (before it, between its CR and LF, after it) and where the received part of the section reaches the limit."""
    pos = layout["last_line_end"]
    b = {pos, layout["end"] - 2, layout["end"] - 1, layout["end"], pos + TRAILER_LIMIT, pos + TRAILER_LIMIT - 1}
    for t in trailers:
        pos += len(t) + 2
        b.update((pos - 2, pos - 1, pos))
    assert pos == layout["end"] - 2
    return sorted(x for x in b if 0 < x <= layout["end"])


def cut_message(sim, stream, bounds, info):
    """Segmentation of a stream; for a message with a large trailer section mostly near the places trailer_bounds names
    (a uniformly drawn cut point would almost never fall there)."""
    style = None
    if info["bigtrailer"]:
        style = sim.draw_weighted([("edges", 5), (None, 2), ("exact", 3)], "bigcut")
        if style == "exact":
            pts = sorted({sim.draw_choice(bounds, "exactcut") for _ in range(sim.draw_int(1, 3, "nexact"))})
            pts = [x for x in pts if 0 < x < len(stream)]
            pieces = [stream[a:b] for a, b in zip([0] + pts, pts + [len(stream)])]
            sim.fault("segmentation", len(pieces) - 1)
            return pieces
    return net.cut(sim, stream, style, bounds)


class Sink:
    def __init__(self):
        self.data = bytearray()
        self.finished = []

    def on_data(self, d):
        self.data += d

    def on_finish(self, extra):
        self.finished.append(bytes(extra))


def feed(sim, pieces, body, tag):
    """Deliver pieces to a fresh decoder until it finishes or raises.
    -> (sink, exception or None, index of the piece that ended it, decoder)"""
    sink = Sink()
    dec = http._ChunkedTransferDecoder(sink.on_data, sink.on_finish)
    checked = 0
    for i, p in enumerate(pieces):
        sim.step(STEP_CAP)
        try:
            dec.dataReceived(p)
        except Violation:
            raise
        except Exception as e:
            return sink, e, i, dec
        fresh = bytes(sink.data[checked:])
        sim.check("body-prefix", body[checked:checked + len(fresh)] == fresh, tag,
                  lambda: "delivery %d made the decoder deliver %r at body offset %d, the body has %r there" % (
                      i, fresh[:40], checked, body[checked:checked + 40]))
        checked += len(fresh)
        if sink.finished:
            return sink, None, i, dec
    return sink, None, len(pieces) - 1, dec


def short(b, n=60):
    return repr(b if len(b) <= n else b[:n // 2] + b"..." + b[-n // 2:])


def end_of_stream(sim, dec, ctx):
    """The stream ends here: noMoreData().  -> the _DataLoss raised, or None when the decoder reports a complete message."""
    try:
        dec.noMoreData()
    except http._DataLoss as e:
        return e
    except Violation:
        raise
    except Exception as e:
        sim.fail("unexpected-exception", type(e).__name__, lambda: "noMoreData raised %r; %s" % (e, ctx()))
    return None


def judge_valid(sim, pieces, E, body, what, ctx):
    """A complete valid message of E bytes (+ whatever follows it) delivered as `pieces` to a fresh decoder."""
    sink, exc, idx, dec = feed(sim, pieces, body, what)
    if exc is not None:
        clause = "valid-rejected" if isinstance(exc, http._MalformedChunkedDataError) else "unexpected-exception"
        sim.fail(clause, what if clause == "valid-rejected" else type(exc).__name__, lambda: "%r; %s" % (exc, ctx()))
    sim.check("body-bytes", bytes(sink.data) == body, what, lambda: "delivered %s, body %s; %s" % (short(bytes(sink.data)), short(body), ctx()))
    sim.check("finish-once", len(sink.finished) == 1, what, lambda: "finishCallback calls: %r; %s" % (sink.finished, ctx()))
    start = sum(len(p) for p in pieces[:idx])
    want_extra = pieces[idx][E - start:] if start < E <= start + len(pieces[idx]) else None
    sim.check("finish-extra", want_extra is not None and sink.finished[0] == want_extra, what,
              lambda: "finishCallback got %r, the delivery that completed the message carried %r after it; %s" % (
                  sink.finished[0], want_extra, ctx()))
    with sim.guard("complete-reported-as-loss", what):
        dec.noMoreData()


def judge_malformed(sim, pieces, want, kind, decisive, ctx):
    """A stream whose first malformation is decided at offset `decisive`, delivered as `pieces` to a fresh decoder."""
    sink, exc, idx, dec = feed(sim, pieces, want, kind)
    if exc is not None and not isinstance(exc, http._MalformedChunkedDataError):
        sim.fail("unexpected-exception", type(exc).__name__, lambda: "%r; %s" % (exc, ctx()))
    sim.check("malformed-accepted", exc is not None and not sink.finished, kind,
              lambda: "no _MalformedChunkedDataError (finished=%r, delivered %s); %s" % (sink.finished, short(bytes(sink.data)), ctx()))
    if sum(len(p) for p in pieces[:idx]) >= decisive:
        sim.probe("rejected_after_a_later_delivery")   # still a rejection: no verdict on promptness
    # The caller that was given the rejection stops delivering (HTTPChannel answers 400, the client gives the response up) and
    # the stream ends there: the last chunk was never accepted and completion never signalled, so the end of the stream is a loss.
    loss = end_of_stream(sim, dec, ctx)
    sim.fault("stream_end_after_rejection")
    sim.check("rejected-stream-end-not-reported", loss is not None, kind,
              lambda: "after the rejection (%r) the stream ended: noMoreData() did not raise _DataLoss although the last chunk "
                      "was never accepted; %s" % (exc, ctx()))
    sim.check("finish-after-rejection", not sink.finished, kind,
              lambda: "finishCallback(%r) called by noMoreData() of a decoder that had rejected its input; %s" % (sink.finished, ctx()))


def run(sim):
    limit = sim.draw_weighted([(DEFAULT_LIMIT, 12), (4096, 1), (2048, 1), (1500, 1), (300, 1), (100, 1), (64, 1)], "limit")
    try:
        if limit != DEFAULT_LIMIT:
            http.maxChunkSizeLineLength = limit
            sim.probe("limit_raised" if limit > DEFAULT_LIMIT else "limit_lowered")
        _run(sim, limit)
    finally:
        http.maxChunkSizeLineLength = DEFAULT_LIMIT


def cleanup(sim):
    http.maxChunkSizeLineLength = DEFAULT_LIMIT


def _run(sim, limit):
    family = sim.draw_weighted([("valid", 5), ("truncated", 3), ("malformed", 4)], "family")
    chunks, wire, layout, info, ref_wire = gen_message(sim, limit)
    body = b"".join(chunks)
    E = layout["end"]
    sim.config = {"family": family, "chunks": [len(c) for c in chunks], "tochunk": info["tochunk"], "ext": info["ext"],
                  "trailers": info["trailers"], "limit": limit, "long": info["long"], "bigtrailer": info["bigtrailer"]}
    if info["tochunk"]:
        sim.check("tochunk-format", wire == ref_wire, "toChunk",
                  lambda: "toChunk encoding %s differs from the reference encoding %s" % (short(wire), short(ref_wire)))
    bounds = layout_bounds(layout, limit) if not info["bigtrailer"] else trailer_bounds(layout, info["parts"][4])
    what = "trailerlimit" if info["bigtrailer"] else "longline" if info["long"] else "plain" if not (info["ext"] or info["trailers"]) else ("ext" if info["ext"] else "trailer")
    lim = "maxChunkSizeLineLength=%d%s%s" % (limit, "" if not info["long"] else ", size line %d is %d bytes long" % info["long"],
                                             "" if not info["bigtrailer"] else ", trailer section of %d bytes (field lines with their "
                                             "CRLFs; documented limit %d)" % (info["bigtrailer"], TRAILER_LIMIT))

    if family == "valid":
        extra = sim.draw_bytes(sim.draw_int(0, 30, "extralen"), b"0\r\n5;GET /x")
        stream = wire + extra
        pieces = cut_message(sim, stream, bounds, info)
        if info["bigtrailer"]:
            offs, o = set(), 0
            for p_ in pieces[:-1]:
                o += len(p_)
                offs.add(o)
            if E - 1 in offs:
                sim.probe("large_trailer_final_crlf_split_between_cr_and_lf")
            if E - 2 in offs:
                sim.probe("large_trailer_split_before_final_crlf")
            if any(layout["last_line_end"] < x < E - 2 for x in offs):
                sim.probe("large_trailer_split_inside_section")
        sim.event("valid", short(wire), "extra", extra, "pieces", len(pieces))
        ctx = lambda: "message %s (chunks %r) + extra %r in pieces of %r; %s" % (short(wire, 120), [len(c) for c in chunks], extra,
                                                                               [len(p) for p in pieces][:20], lim)
        judge_valid(sim, pieces, E, body, what, ctx)
        # the same stream in one piece
        sw, excw, _, _ = feed(sim, [stream], body, what)
        sim.check("whole-equals-split", excw is None and bytes(sw.data) == body and sw.finished == [extra], what,
                  lambda: "one-piece delivery: exc %r data %s finished %r; %s" % (excw, short(bytes(sw.data)), sw.finished, ctx()))
        sim.state(("valid", what, len(chunks), min(len(pieces), 6)))

    elif family == "truncated":
        edges = [b for b in bounds if 0 < b <= E]
        t = sim.draw_weighted([(sim.draw_int(0, E - 1, "cutat"), 3),
                               (max(0, min(E - 1, sim.draw_choice(edges, "edge") + sim.draw_int(-2, 1, "off"))), 4)], "cutkind")
        stream = wire[:t]
        pieces = cut_message(sim, stream, bounds, info)
        sim.fault("truncation")
        sim.event("truncated", short(wire), "at", t, "of", E, "pieces", len(pieces))
        ctx = lambda: "message %s (chunks %r) truncated at %d of %d (last-chunk line ends at %d), pieces %r; %s" % (
            short(wire, 120), [len(c) for c in chunks], t, E, layout["last_line_end"], [len(p) for p in pieces][:20], lim)
        sink, exc, idx, dec = feed(sim, pieces, body, what)
        if exc is not None:
            clause = "valid-rejected" if isinstance(exc, http._MalformedChunkedDataError) else "unexpected-exception"
            sim.fail(clause, what if clause == "valid-rejected" else type(exc).__name__, lambda: "%r; %s" % (exc, ctx()))
        sim.check("finish-early", not sink.finished, what, lambda: "finishCallback(%r) before the end of the message; %s" % (sink.finished, ctx()))
        loss = end_of_stream(sim, dec, ctx)
        if t < layout["last_line_end"]:
            sim.check("truncation-not-reported", loss is not None, what, lambda: "noMoreData() did not raise _DataLoss; " + ctx())
        else:
            sim.probe("truncated_in_trailer")      # after the last chunk: the statement gives no verdict
        sim.state(("truncated", what, len(chunks), t >= layout["last_line_end"]))

    else:
        kinds = [("nonhex", 3), ("badext", 3), ("overlong", 2), ("lineend", 2)] + ([("nocrlf", 4)] if chunks else [])
        kind = sim.draw_weighted(kinds, "malformation")
        n = len(chunks)
        if info["tochunk"]:
            parts = ([ck.size_text(len(c)) for c in chunks], [b""] * n, "0", b"", [])
        else:
            parts = info["parts"]
        sizes, exts, last, last_ext, trailers = list(parts[0]), list(parts[1]), parts[2], parts[3], list(parts[4])
        mbounds = list(bounds)
        if kind == "nocrlf":
            j = sim.draw_int(0, n - 1, "chunk")
            a, b = layout["chunks"][j]["crlf"]
            form = sim.draw_weighted([("two", 3), ("one", 3), ("drawn", 1)], "insteadform")
            if form == "two":
                repl = sim.draw_choice(TERM_TWO, "instead")
            elif form == "one":
                repl = sim.draw_choice(TERM_ONE, "instead1")
            else:
                repl = sim.draw_bytes(sim.draw_int(1, 3, "insteadlen"), b"\n\r X0")
                while repl.startswith(b"\r\n"):
                    repl = repl[1:]                # would be a CRLF after all (followed by some other malformation)
            stream = ref_wire[:a] + repl + ref_wire[b:]
            # the next size line begins with a hex digit, so the two bytes after the data are never CR LF
            assert stream[a:a + 2] != b"\r\n" and len(stream) >= a + 2, (repl, stream[a:a + 4])
            sim.probe("data_terminator_" + ("bare_lf" if repl == b"\n" else "bare_cr" if repl == b"\r" else
                                            "empty" if not repl else "one_byte" if len(repl) == 1 else form))
            decisive = a + 2                      # two bytes after the data decide
            want = b"".join(chunks[:j + 1])
            desc = "chunk %d data followed by %r instead of CRLF" % (j, repl)
        elif kind == "lineend":
            j = sim.draw_int(0, n, "line")
            e = layout["chunks"][j]["line"][1] if j < n else layout["last_line"][1]
            repl = sim.draw_choice(LINE_ENDS, "lineend")
            if repl == b"\r" and ref_wire[e + 2:e + 3] == b"\n":
                repl = b"\n"                      # CR + chunk data beginning with LF would be a CRLF after all
            stream = ref_wire[:e] + repl + ref_wire[e + 2:]
            # the size line is what precedes the next CRLF of the stream: it holds at least one CR or LF
            decisive = stream.index(b"\r\n", e) + 2
            want = b"".join(chunks[:j])
            desc = "size line %d ends with %r instead of CRLF" % (j, repl)
            sim.probe("size_line_ended_by_" + ("bare_lf" if repl == b"\n" else "bare_cr" if repl == b"\r" else "stray_cr_or_lf_before_crlf"
                                               if repl.endswith(b"\r\n") else "lf_cr"))
            if j == n:
                sim.probe("last_chunk_line_without_crlf")
        else:
            j = sim.draw_int(0, n, "line")
            if kind == "nonhex":
                ext_here = exts[j] if j < n else last_ext
                cands = [b"", b"g", b"xyz", b"-1", b"+5", b"0x5", b" 5", b"5,5", b"5.0", b"\xd9\xa1", b"5\x00", b"1g"]
                if not ext_here:
                    cands += [b"5 ", b"5\t"]
                bad = sim.draw_choice(cands, "badsize")
                desc = "size line %d is %s" % (j, short(bad + ext_here))
                if j < n:
                    sizes[j] = bad
                    stream, lay2 = ck.encode(chunks, sizes, exts, last, last_ext, trailers)
                    decisive = lay2["chunks"][j]["line"][1] + 2
                else:
                    # the reference encoder writes `last` as text: splice the bad size in
                    s0 = layout["last_line"][0]
                    stream = ref_wire[:s0] + bad + ref_wire[s0 + len(last):]
                    decisive = s0 + len(bad) + len(last_ext) + 2
            elif kind == "badext":
                ext_here = (exts[j] if j < n else last_ext) or b";a=b"
                pos = sim.draw_int(1, len(ext_here), "extpos")
                badbyte = bytes([sim.draw_choice(list(ck.EXT_FORBIDDEN), "badbyte")])
                newext = ext_here[:pos] + badbyte + ext_here[pos:]
                desc = "extension of line %d is %s" % (j, short(newext))
                if j < n:
                    exts[j] = newext
                    stream, lay2 = ck.encode(chunks, sizes, exts, last, last_ext, trailers)
                    decisive = lay2["chunks"][j]["line"][1] + 2
                else:
                    stream, lay2 = ck.encode(chunks, sizes, exts, last, newext, trailers)
                    decisive = lay2["last_line_end"]
            else:
                # a well-formed size line, padded by a valid extension beyond the limit in force
                base = len(sizes[j]) + len(exts[j]) if j < n else len(last) + len(last_ext)
                length = long_target(sim, limit, base, False)
                pad = pad_ext(sim, length - base)
                desc = "size line %d is %d bytes long (without its CRLF), maxChunkSizeLineLength is %d" % (j, length, limit)
                if j < n:
                    exts[j] += pad
                    stream, lay2 = ck.encode(chunks, sizes, exts, last, last_ext, trailers)
                    decisive = lay2["chunks"][j]["line"][1] + 2
                else:
                    stream, lay2 = ck.encode(chunks, sizes, exts, last, last_ext + pad, trailers)
                    decisive = lay2["last_line_end"]
                mbounds = layout_bounds(lay2, limit)
                if length < DEFAULT_LIMIT:
                    sim.probe("overlong_for_lowered_limit_below_default")
            want = b"".join(chunks[:j])
        if decisive < len(stream) and sim.draw_bool(0.25, "endsthere"):
            # truncation and malformation together: the stream ends with the malformed element (nothing of the rest of the
            # message, in particular no last-chunk, follows it)
            stream = stream[:decisive]
            desc += ", the stream ends right after it"
            sim.fault("truncation_after_malformation")
        mbounds += [decisive, decisive - 2]
        sim.fault("malformed_" + kind)
        # Decoders are independent: the malformed stream goes to 1..3 fresh decoders of this run, the valid message it was
        # derived from possibly to another one before or in between; every decoder is judged.
        order = sim.draw_weighted([("M", 2), ("MM", 3), ("VM", 2), ("MVM", 1), ("MMM", 1), ("VMM", 1)], "decoders")
        sim.event("malformed", kind, desc, short(stream), "decoders", order)
        seen = ""
        for which in order:
            first = which not in seen
            # own witness for every decoder after the first one of the run, naming what the earlier ones were given: a failure
            # there, given that the clauses held for those, is a different finding (e.g. the same stream refused by one decoder
            # and accepted by the next)
            later = "/after-" + seen if seen else ""
            if which == "M":
                pieces_m = net.cut(sim, stream, None if first else sim.draw_choice(RECUT, "recut"), mbounds)
                if first:
                    pieces = pieces_m
                else:
                    sim.probe("same_malformed_stream_to_another_decoder")
                if "V" in seen:
                    sim.probe("malformed_after_its_valid_original")
                ctx = lambda: "%s; stream %s (chunks %r) pieces %r; decoders of this run so far: %r (M = this stream, V = the valid " \
                              "original); %s" % (desc, short(stream, 160), [len(c) for c in chunks], [len(p) for p in pieces_m][:20],
                                                 seen, lim)
                judge_malformed(sim, pieces_m, want, kind + later, decisive, ctx)
            else:
                pieces_v = net.cut(sim, ref_wire, sim.draw_choice(RECUT, "recut"), bounds)
                if "M" in seen:
                    sim.probe("valid_original_after_its_malformed_variant")
                ctx = lambda: "valid message %s (chunks %r) pieces %r; decoders of this run so far: %r (M = the variant with %s, " \
                              "V = this message); %s" % (short(ref_wire, 160), [len(c) for c in chunks], [len(p) for p in pieces_v][:20],
                                                         seen, desc, lim)
                judge_valid(sim, pieces_v, E, body, what + (later + "(" + kind + ")" if "M" in seen else later), ctx)
            seen += which
        sim.state(("malformed", kind, len(chunks), j, order))
    sim.nontrivial = len(pieces) > 1


# Sensitivity (tools/mutate.py C22 --sub src/twisted/web/http.py OLD NEW).  All caught (exit 1).
MUTANTS = [
    "_dataReceived_CHUNK_LENGTH: 'self._start = len(self._buffer) - 1' -> 'len(self._buffer)' (CRLF of the size line split across deliveries missed) : caught (valid-rejected, body-bytes)",
    "_dataReceived_CRLF: drop 'if len(self._buffer) < 2: return False' (CR and LF split) : caught (valid-rejected:*)",
    "_dataReceived_TRAILER: extra bytes 'memoryview(self._buffer)[2:].tobytes()' -> b'' : caught (finish-extra, whole-equals-split)",
    "_dataReceived_TRAILER: finishCallback called twice : caught (finish-once)",
    "_dataReceived_BODY: drop 'self.length -= len(chunk)' : caught (body-prefix)",
    "_abnf._hexint: plain int(b, 16) (accepts 0x5, +5, -1, ' 5') : caught (body-prefix:nonhex)",
    "_dataReceived_CHUNK_LENGTH: extension byte check disabled : caught (malformed-accepted:badext)",
    "noMoreData: raise only in state BODY : caught (truncation-not-reported)",
    "toChunk: hex -> decimal size : caught (tochunk-format)",
    "_dataReceived_CHUNK_LENGTH: do not reset self._start after consuming the size line : caught (finish-once, valid-rejected)",
    "_dataReceived_TRAILER: consume 'eolIndex + 1' instead of '+ 2' after a trailer line : caught (finish-once)",
    "_dataReceived_CRLF: startswith(b'\\r\\n') -> startswith(b'\\r') : caught (malformed-accepted:nocrlf, body-prefix:nocrlf)",
    "limit read once: 'eolIndex >= maxChunkSizeLineLength' -> 'eolIndex >= 1024' (the module setting no longer honoured for complete lines) : caught (valid-rejected:longline with the limit raised, malformed-accepted:overlong with the limit lowered)",
    "complete-line limit check removed ('eolIndex >= maxChunkSizeLineLength or (' -> 'False or (') : caught (malformed-accepted:overlong, body-prefix:overlong)",
    "partial-line limit check 8 bytes too strict ('len(self._buffer) > maxChunkSizeLineLength - 8') : caught (valid-rejected:longline)",
    "seeded C22-r4b (limit frozen into a class attribute at import) : caught (valid-rejected:longline, malformed-accepted:overlong, body-prefix:overlong)",
    "seeded C22-r4a (module-level size-line cache filled before the extension check) : caught (malformed-accepted:badext/after-M, body-prefix:badext/after-M - the second decoder of a run accepts what the first refused)",
    "module-level set of size texts seen with a valid extension, extension check skipped on a hit : caught (malformed-accepted:badext/after-V)",
    "module-level negative cache keyed by size + first 3 extension bytes : exit 2 only (cross-run leakage in the warm workers is seen first and does not replay in a fresh interpreter; the in-run case needs the bad byte after those 3 bytes and shares its signature)",
    "seeded C22-r5b (_dataReceived_CRLF consumes a bare LF after chunk data) : caught in quick (malformed-accepted:nocrlf, body-prefix:nocrlf, "
    "malformed-accepted:nocrlf/after-V) - missed while 'nocrlf' only ever put two other bytes or nothing in the place of the CRLF",
    "_dataReceived_CRLF accepts a lone CR (consumes 1 byte when CR is not followed by LF) : caught (body-prefix:nocrlf, malformed-accepted:nocrlf/after-V)",
    "_dataReceived_CHUNK_LENGTH: size line ends at the first LF, preceding CR optional : caught (malformed-accepted:lineend, body-prefix:lineend)",
    "_dataReceived_CHUNK_LENGTH: '_hexint(bytes(rawLength).strip())' (stray CR/LF/blank around the size tolerated) : caught (malformed-accepted:lineend, body-prefix:nonhex)",
    "seeded C22-r6b (dataReceived sets state FINISHED when a handler rejects the input) : caught in quick "
    "(rejected-stream-end-not-reported:badext/overlong/nonhex/...) - missed while a decoder was dropped right after its rejection",
    "_dataReceived_CRLF: 'self.state = \"FINISHED\"' put before 'raise _MalformedChunkedDataError(\"Chunk did not end with CRLF\")' "
    ": caught (rejected-stream-end-not-reported:nocrlf)",
    "the repair 8dc962f of /repo reverted (no-EOL branch of _dataReceived_TRAILER counts the lone CR of the final CRLF) : caught "
    "(valid-rejected:trailerlimit, trailer section of 65535/65536 bytes cut between the final CR and LF)",
    "_dataReceived_TRAILER: '_receivedTrailerHeadersSize > _maxTrailerHeadersSize' -> '>=' : caught (valid-rejected:trailerlimit)",
    "_dataReceived_TRAILER: '(1 if self._buffer.endswith(b\"\\r\") else 2)' -> '2' : caught (valid-rejected:trailerlimit)",
    "_dataReceived_TRAILER: 'minTrailerSize > _maxTrailerHeadersSize' -> '>=' : caught (valid-rejected:trailerlimit)",
    "_dataReceived_TRAILER: '_receivedTrailerHeadersSize += eolIndex + 2' -> '+ 3' : caught (valid-rejected:trailerlimit)",
    "INCLUDE_QUOTED_PAIR=True on the unchanged tree: C22:valid-rejected:ext (extension ;a=\"\\\"\" rejected: backslash missing from _chunkExtChars) - not enabled by default, see report",
]
