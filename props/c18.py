"""C18 — HTTP/1.1 server parsing does not depend on how bytes are segmented.

Engine E3 (net): one grammar-generated (and usually byte-mutated) request stream
is sent to two fresh real HTTPChannels: once in a single delivery, once under a
tape-chosen segmentation, with the application finishing its responses
synchronously or at later tape-chosen steps.  Oracle (differential): the requests
handed to the application (method, target, version, headers, body) and the bytes
written by the server are identical, up to the server's first close request.
"""
import hashlib
import re

from detsim import net
from detsim.sim import Violation, StepLimit
from models import http1
from props import _http_harness as H
from twisted.web import http, resource, server

ID = "C18"
ENGINE = "net"
LEVEL = "exploration"
TECHNIQUE = "deterministic simulation: whole-vs-segmented differential over a seeded request-stream grammar with byte mutations"
QUICK_RUNS = 32000
TWIN_P = 0.08   # this share of the runs drives two independent instances of the scenario one after the other (detsim.runner._run_scenario)
BATCH = 200
RUN_WALL_LIMIT_S = 90   # a run takes milliseconds; the wall-clock watchdog only has to survive machine stalls under heavy shared load
COMPONENTS = {
    "real": ["twisted.web.http.HTTPFactory.buildProtocol (_GenericHTTPChannelProtocol + HTTPChannel)", "twisted.web.http.Request",
             "twisted.web.http._IdentityTransferDecoder/_ChunkedTransferDecoder", "twisted.protocols.basic.LineReceiver",
             "twisted.web.server.Site/Request + Resource tree (one configuration)"],
    "stub": ["TCP transport and delivery segmentation (detsim.net.SimTransport/cut)", "wall clock (http.gmtime bound to the simulated clock, held fixed)",
             "the application (deterministic function of the request)"],
}
RULE = ("run = one stream of 1-5 pipelined requests (methods, targets, HTTP/1.0+1.1, Content-Length and chunked bodies with extensions/trailers, "
        "Expect: 100-continue, Connection: close, OWS/case oddities) with 0-3 byte mutations (replace/delete/insert/duplicate/truncate/CRLF->LF/inserted "
        "continuation or framing line), channel limits drawn small or default; in OPENER_P of the runs the stream opens the way another protocol "
        "or HTTP version would (HTTP/2 prior-knowledge preface with/without SETTINGS, PROXY v1/v2 header, TLS ClientHello, SSH banner, SOCKS greeting, "
        "HTTP/0.9 simple request, extra empty lines; a first request line with method PRI/CONNECT/... and an unsupported or misspelt version; an "
        "h2c Upgrade offer) - a server that recognises any of these must decide from the stream, not from the first delivery; the decoder's trailer "
        "limit is the default (then, in BIG_TRAILER_P of the runs, chunked requests may carry a 64 KiB trailer section of limit-3..limit+2 bytes) or "
        "24/64/300 bytes (set on every decoder the channel creates; trailer sections of limit-3..limit+2 bytes in 1-3 lines among the candidates); "
        "delivered whole and under one tape-chosen segmentation "
        "(one/few/many/edges/bytes) with deferred responses finished at tape-chosen steps; non-trivial = the whole run handed at least one request to "
        "the application or answered 400, and the segmented run had at least one cut")
ASSUMPTIONS = ["simulated time is held fixed (time-outs belong to C21)",
               "deliveries stop at the server's first close request (as a TCP transport stops reading); nothing after it is compared",
               "if exactly one of the two runs asks to close, only the prefix relation is checked (counted as probe close_differs)",
               "a small trailer limit is installed by rebinding http._ChunkedTransferDecoder, for the run, to a subclass that sets the documented "
               "ivar _maxTrailerHeadersSize after the real __init__ (no other behaviour touched); streams above BIG_STREAM bytes get few cuts only",
               "TRAILER_LIMIT_BLANK_LINE_CUT_P: see the constant (precondition of a genuine defect of the tree as first examined, REPAIRED in /repo 8dc962f; "
               "let into 0.7 of the runs where the trailer limit is reachable; in the others no cut falls between CR and LF of an empty line - probe "
               "blank_line_cut_merged)"]
cleanup = H.cleanup

CTYPES = [b"application/x-www-form-urlencoded", b"multipart/form-data; boundary=b", b"text/plain", b"garbage;;=", b"multipart/form-data"]
MODES = ["sync", "chunked", "deferred", "deferred2"]

# --- family "the connection does not open with an HTTP/1.x request" --------------------------------------------------------------
# What other clients send first to a clear-text HTTP port.  For the HTTP/1.1 parser these are simply (mal)formed lines; a server that
# recognises any of them must do so from the STREAM, not from whatever the first delivery happens to hold.
H2_PREFACE = b"PRI * HTTP/2.0\r\n\r\nSM\r\n\r\n"
H2_SETTINGS = b"\x00\x00\x0c\x04\x00\x00\x00\x00\x00\x00\x03\x00\x00\x00\x64\x00\x04\x00\x00\xff\xff"
OPENERS = [
    H2_PREFACE + H2_SETTINGS,                                              # HTTP/2 with prior knowledge (RFC 9113 s.3.3/3.4)
    H2_PREFACE,
    b"PROXY TCP4 192.0.2.1 192.0.2.2 40000 80\r\n",                        # PROXY protocol v1 line in front of the first request
    b"\r\n\r\n\x00\r\nQUIT\n\x21\x11\x00\x0c\xc0\x00\x02\x01\xc0\x00\x02\x02\x9c\x40\x00\x50",   # PROXY protocol v2 signature + TCP4 block
    b"\x16\x03\x01\x00\x2f\x01\x00\x00\x2b\x03\x03" + bytes(range(32)) + b"\x00\x00\x02\x13\x01\x01\x00",     # TLS ClientHello on the clear-text port
    b"SSH-2.0-OpenSSH_9.6\r\n",
    b"\x05\x01\x00",                                                       # SOCKS5 greeting
    b"\r\n\r\n",                                                           # more than one empty line before the request-line
    b"GET /simple\r\n",                                                    # HTTP/0.9 simple request
]
OPENER_METHODS = [b"PRI", b"GET", b"CONNECT", b"OPTIONS", b"POST"]
OPENER_VERSIONS = [b"HTTP/2.0", b"HTTP/2", b"HTTP/3", b"HTTP/1.2", b"HTTP/0.9", b"HTTP/1.10", b"HTTP/01.1", b"http/1.1", b"RTSP/1.0", b"ICY", b"HTTP/1.1 ", b""]
UPGRADE_LINES = b"Connection: Upgrade, HTTP2-Settings\r\nUpgrade: h2c\r\nHTTP2-Settings: AAMAAABkAAQAAP__\r\n"
OPENER_P = 0.12

# --- family "trailer section at the decoder's size limit" ------------------------------------------------------------------------
# _ChunkedTransferDecoder limits the trailer section (ivar _maxTrailerHeadersSize, 64 KiB).  The limit is drawn per run: mostly the
# default (then, rarely, one 64 KiB trailer section sits right at it), otherwise a small value set on every decoder the channel creates.
TRAILER_LIMIT_DEFAULT = 2 ** 16
TRAILER_LIMITS = [TRAILER_LIMIT_DEFAULT] * 9 + [24, 64, 300]
BIG_TRAILER_P = 0.06
BIG_STREAM = 16000       # streams longer than this are cut at a few points only (piecewise delivery of 64 KiB is quadratic in the decoder)
# Share of the runs with a reachable trailer limit (one below 100 bytes, or a trailer section built to sit at the limit) in which a cut may fall between the CR and
# the LF of an EMPTY line ("\n\r|\n").  On the tree as first examined such a cut in the blank line that ends a trailer section of limit-1
# or limit bytes gave 400 + close where the whole stream gave 200 (genuine defect, REPAIRED in /repo 8dc962f, see MUTANTS): signature
# C18:output-differs:before-close / C18:requests-differ:count.  The precondition is let into this share (0.7) of those runs; 0.0 keeps
# every run away from it (such cuts are merged into the next delivery) and is only for dev-time comparison; everything else about the
# limit - sizes on both sides of it, cuts inside trailer lines and between CR and LF of non-empty lines - is exercised in all runs.
TRAILER_LIMIT_BLANK_LINE_CUT_P = 0.7


def _limit_trailers(sim, limit):
    """A trailer section of limit-3 .. limit+2 bytes (field lines with their CRLFs, the way the decoder counts) in 1-3 lines."""
    total = limit + sim.draw_int(0, 5, "trailer-size") - 3
    lines = []
    for _ in range(sim.draw_int(0, 2, "trailer-small-lines")):
        if total - 8 >= 8:
            lines.append(b"X-T: 1")
            total -= 8
    lines.insert(sim.draw_int(0, len(lines), "trailer-fill-pos"), b"X-F: " + b"f" * (total - 7))
    return tuple(lines)


def _merge_blank_line_cuts(sim, data, pieces):
    """Merge deliveries so that no cut falls between CR and LF of an empty line."""
    out, pos, carry = [], 0, b""
    for p in pieces:
        pos += len(p)
        carry += p
        if pos < len(data) and pos >= 2 and data[pos - 2:pos + 1] == b"\n\r\n":
            sim.probe("blank_line_cut_merged")
            continue
        out.append(carry)
        carry = b""
    if carry:
        out.append(carry)
    return out


def _foreign_opener(sim, data, bounds):
    """Make the stream open the way some other protocol (or HTTP version) would."""
    kind = sim.draw_choice(["preface", "reqline", "upgrade"], "opener-kind")
    eol = data.find(b"\r\n")
    if kind == "preface" or eol < 0:
        pre = sim.draw_choice(OPENERS, "opener")
        if sim.draw_bool(0.25, "opener-alone"):
            data, bounds = b"", []
        cutat = [i + 2 for i in range(len(pre)) if pre[i:i + 2] == b"\r\n"][:3] + [len(pre)]
        sim.probe("opener_preface")
        return pre + data, sorted(set(cutat + [b + len(pre) for b in bounds]))
    if kind == "reqline":
        target = b"*" if sim.draw_bool(0.5, "opener-star") else data[:eol].split(b" ")[1] if data[:eol].count(b" ") >= 2 else b"/"
        line = sim.draw_choice(OPENER_METHODS, "opener-method") + b" " + target + b" " + sim.draw_choice(OPENER_VERSIONS, "opener-version")
        sim.probe("opener_reqline")
        delta = len(line) - eol
        return line + data[eol:], sorted(set([len(line) + 2] + [b + delta for b in bounds if b + delta > 0]))
    sim.probe("opener_upgrade")
    return data[:eol + 2] + UPGRADE_LINES + data[eol + 2:], sorted(set([eol + 2 + len(UPGRADE_LINES)] + [b + len(UPGRADE_LINES) if b > eol + 2 else b for b in bounds]))


def _body_for(d):
    h = hashlib.sha256(repr(d.key()).encode("utf-8", "backslashreplace")).hexdigest()
    return ("%d:%s" % (d.index, h[:24])).encode()


def _make_site(sim, pending, plan):
    class Leaf(resource.Resource):
        isLeaf = True

        def render(self, req):
            srv = req.channel.site._h_server
            d = srv.delivered[-1]
            body = _body_for(d)
            mode = plan[d.index % len(plan)]
            if mode == "sync":
                req.setHeader(b"Content-Length", b"%d" % len(body))
                return body
            if mode == "chunked":
                req.write(body[:5])
                return body[5:]
            pending.append((req, [body] if mode == "deferred" else [body[:7], body[7:]]))
            return server.NOT_DONE_YET

    class RecSiteRequest(server.Request):
        def process(self):
            srv = self.channel.site._h_server
            srv.delivered.append(H._snapshot(self, len(srv.delivered), len(srv.t.written)))
            srv.requests.append(self)
            server.Request.process(self)

    root = resource.Resource()
    root.putChild(b"a", Leaf())
    root.putChild(b"", Leaf())
    site = server.Site(root, requestFactory=RecSiteRequest, reactor=sim.clock)
    return site


def execute(sim, pieces, plan, knobs, split, use_site):
    pending = []   # (request, [remaining writes]) ; finish after the last write

    def app(srv, req, idx):
        d = srv.delivered[idx]
        body = _body_for(d)
        mode = plan[idx % len(plan)]
        req.setHeader(b"Date", http.datetimeToString())
        req.setHeader(b"X-Idx", b"%d" % idx)
        if mode == "sync":
            req.setHeader(b"Content-Length", b"%d" % len(body))
            req.write(body)
            req.finish()
        elif mode == "chunked":
            req.write(body[:5])
            req.write(body[5:])
            req.finish()
        elif mode == "deferred":
            pending.append((req, [body]))
        else:
            req.write(body[:7])
            pending.append((req, [body[7:]]))

    site = _make_site(sim, pending, plan) if use_site else None
    srv = H.Server(sim, app, timeout=60, knobs=knobs, site=site)
    at_close = {}
    srv.t.on_close = lambda: at_close.setdefault("n", len(srv.delivered))
    queue = list(pieces)
    raised = None

    def app_step():
        req, writes = pending[0]
        if writes:
            req.write(writes.pop(0))
        else:
            pending.pop(0)
            req.finish()

    try:
        while True:
            sim.step(20000)
            can = bool(queue) and srv.can_deliver() and srv.t.close_at is None
            if can and pending and split and sim.draw_bool(0.35, "app-first"):
                app_step()
            elif can:
                srv.deliver(queue.pop(0))
            elif pending and srv.t.close_at is None:
                app_step()
            else:
                break
    except (Violation, StepLimit):
        raise
    except Exception as e:   # classified: part of the observable outcome, compared between the two runs
        raised = type(e).__name__
    n = at_close.get("n", len(srv.delivered))
    c = srv.t.close_at
    out = bytes(srv.t.written if c is None else srv.t.written[:c])
    return {"reqs": [d.key() for d in srv.delivered[:n]], "out": out, "closed": c is not None, "raised": raised,
            "undelivered": len(queue), "paused": not srv.t.reading}


def _first_diff(a, b):
    if len(a) != len(b):
        return "count"
    for x, y in zip(a, b):
        for name, u, v in zip(("method", "target", "version", "headers", "body"), x, y):
            if u != v:
                return name
    return "same"


def run(sim):
    # process-global mutable state (header-name cache) must not leak between runs in a warm worker
    try:
        from twisted.web import http_headers as _hh
        _hh._nameEncoder._canonicalHeaderCache.clear()
    except AttributeError:
        pass
    knobs = {
        "MAX_LENGTH": sim.draw_choice([16384, 16384, 16384, 48, 100], "MAX_LENGTH"),
        "totalHeadersSize": sim.draw_choice([16384, 16384, 16384, 120, 300], "totalHeadersSize"),
        "maxHeaders": sim.draw_choice([500, 500, 500, 3], "maxHeaders"),
        "_optimisticEagerReadSize": sim.draw_choice([0x4000, 16, 64], "eager"),
    }
    use_site = sim.draw_choice([False, False, False, True], "site")
    sim.clock.advance(sim.draw_int(0, 2000000, "t0"))
    tlimit = sim.draw_choice(TRAILER_LIMITS, "trailer-limit")
    trailers = None
    if tlimit != TRAILER_LIMIT_DEFAULT or sim.draw_bool(BIG_TRAILER_P, "big-trailer"):
        trailers = list(H.TRAILERS) + [_limit_trailers(sim, tlimit)]
        sim.probe("trailer_limit_small" if tlimit != TRAILER_LIMIT_DEFAULT else "trailer_limit_default_64k_section")
    specs = H.gen_stream(sim, 5, content_types=CTYPES, long_ext="straddle", trailers=trailers)
    data, bounds = H.stream_bytes(specs)
    at_limit = bool(trailers) and any(b"\r\n".join(trailers[-1]) + b"\r\n\r\n" in s.wire for s in specs)
    if at_limit:
        sim.probe("trailer_section_at_limit")
    opener = sim.draw_bool(OPENER_P, "opener")
    if opener:
        data, bounds = _foreign_opener(sim, data, bounds)
    nmut = 0
    if sim.draw_bool(0.65, "mutate"):
        data, nmut = H.mutate(sim, data)
    plan = [sim.draw_choice(MODES, "mode") for _ in range(6)]
    sim.config = {"knobs": knobs, "site": use_site, "nreq": len(specs), "nmut": nmut, "plan": plan, "len": len(data), "trailer_limit": tlimit,
                  "at_limit": at_limit, "opener": opener}
    sim.event("stream", len(data), hashlib.sha256(data).hexdigest()[:16], data)

    real_decoder = http._ChunkedTransferDecoder
    if tlimit != TRAILER_LIMIT_DEFAULT:
        class _LimitedDecoder(real_decoder):
            def __init__(self, *a, **kw):
                real_decoder.__init__(self, *a, **kw)
                self._maxTrailerHeadersSize = tlimit
        http._ChunkedTransferDecoder = _LimitedDecoder
    try:
        whole = execute(sim, [data] if data else [], plan, knobs, False, use_site)
        style = sim.draw_choice(["one", "few", "many", "edges", "bytes"], "cutstyle")
        if len(data) > BIG_STREAM and style in ("many", "bytes"):
            style = "edges" if style == "many" else "few"
        pieces = net.cut(sim, data, style=style, boundaries=bounds)
        if (at_limit or tlimit < 100) and not sim.draw_bool(TRAILER_LIMIT_BLANK_LINE_CUT_P, "blank-line-cut-at-limit"):
            pieces = _merge_blank_line_cuts(sim, data, pieces)
        sim.event("pieces", style, len(pieces))
        split = execute(sim, pieces, plan, knobs, True, use_site)
    finally:
        http._ChunkedTransferDecoder = real_decoder

    for tag, r in (("whole", whole), ("split", split)):
        sim.event(tag, len(r["reqs"]), len(r["out"]), hashlib.sha256(r["out"]).hexdigest()[:12], r["closed"], r["raised"] or "-")
        if r["raised"]:
            sim.probe("server_raised_" + r["raised"])
    if whole["paused"] or split["paused"]:
        sim.probe("reader_left_paused")

    def detail():
        return "stream=%r pieces=%r\n whole: reqs=%r out=%r closed=%s raised=%s\n split: reqs=%r out=%r closed=%s raised=%s" % (
            data, pieces if len(pieces) < 12 else [len(p) for p in pieces], whole["reqs"], whole["out"], whole["closed"], whole["raised"],
            split["reqs"], split["out"], split["closed"], split["raised"])

    sim.check("raised-differs", whole["raised"] == split["raised"], "%s/%s" % (whole["raised"], split["raised"]), detail)
    if whole["closed"] == split["closed"]:
        sim.check("requests-differ", whole["reqs"] == split["reqs"], _first_diff(whole["reqs"], split["reqs"]), detail)
        sim.check("output-differs", whole["out"] == split["out"],
                  "split-shorter" if whole["out"].startswith(split["out"]) else "split-longer" if split["out"].startswith(whole["out"]) else "content", detail)
    else:
        sim.probe("close_differs")
        short, lng = (whole, split) if whole["closed"] else (split, whole)
        sim.check("requests-differ", lng["reqs"][:len(short["reqs"])] == short["reqs"], "before-close", detail)
        sim.check("output-differs", lng["out"].startswith(short["out"]), "before-close", detail)
    # harness self-check (not an oracle clause): every Date header is the simulated clock's, by an independent formatter
    want = http1.http_date(H.EPOCH + sim.clock.seconds())
    for r in (whole, split):
        for m in re.finditer(rb"\r\nDate: ([^\r\n]*)\r\n", r["out"]):
            assert m.group(1) == want, (m.group(1), want)
            sim.probe("date_checked")
    if whole["closed"]:
        sim.probe("server_closed")
    if b" 400 " in whole["out"][:40] or b"HTTP/1.1 400 Bad Request" in whole["out"]:
        sim.probe("answered_400")
    if b"100 Continue" in whole["out"]:
        sim.probe("100_continue")
    sim.state((len(whole["reqs"]), whole["closed"], bool(whole["raised"]), min(nmut, 3), use_site))
    sim.nontrivial = bool((whole["reqs"] or whole["out"]) and len(pieces) > 1)


MUTANTS = [
    'CAUGHT http.py HTTPChannel._finishRequestBody: drop `self._dataBuffer.append(data)` (pipelined bytes that arrive in the same delivery as the end of a body are lost) -> requests-differ:before-close',
    'CAUGHT http.py _IdentityTransferDecoder.dataReceived: `self.contentLength -= len(data)` -> pass (length counter not carried across deliveries) -> requests-differ:before-close',
    'CAUGHT http.py _ChunkedTransferDecoder._dataReceived_CRLF: `len(self._buffer) < 2` -> `< 1` (CR LF after chunk data split across deliveries) -> requests-differ:count',
    'CAUGHT http.py _ChunkedTransferDecoder._dataReceived_CHUNK_LENGTH: `self._start = len(self._buffer) - 1` -> `len(self._buffer)` (CR LF of the size line split across deliveries) -> output-differs:before-close',
    'CAUGHT http.py _ChunkedTransferDecoder._dataReceived_BODY: `self.length -= len(chunk)` -> pass -> requests-differ:count',
    'CAUGHT basic.py LineReceiver.dataReceived: `>= (self.MAX_LENGTH + len(self.delimiter))` -> `>= self.MAX_LENGTH` (premature line-length rejection only when split) -> output-differs:split-shorter',
    "CAUGHT http.py HTTPChannel.requestDone: `b''.join(self._dataBuffer)` -> `b''.join(self._dataBuffer[:1])` (replay of buffered pipelined data loses later deliveries) -> requests-differ:count",
    'CAUGHT http.py HTTPChannel.rawDataReceived: `self._dataBuffer.append(data)` -> `insert(0, data)` (buffered deliveries replayed out of order) -> requests-differ:count',
    'CAUGHT http.py _GenericHTTPChannelProtocol.dataReceived: answer 505 + close when the first DELIVERY holds an " HTTP/2" request line or starts with a TLS record byte (protocol sniffed from the first delivery instead of the stream; family "foreign opener") -> output-differs:content',
    'CAUGHT http.py _ChunkedTransferDecoder._dataReceived_TRAILER: unfinished-line estimate `minTrailerSize > limit` -> `>=` (family "trailer section at the limit") -> output-differs:before-close / requests-differ:count',
    'CAUGHT http.py _ChunkedTransferDecoder._dataReceived_TRAILER: `+ (1 if self._buffer.endswith(b"\\r") else 2)` -> `+ 2` (a cut after the CR of a trailer line that ends exactly at the limit) -> output-differs:before-close / requests-differ:count',
    'EQUIVALENT for C18: unfinished-line estimate dropped (`if False`) or complete-line check `>` -> `>=`: the verdict moves for whole and split alike',
    'GENUINE DEFECT of the tree as first examined, REPAIRED in /repo 8dc962f (precondition let into TRAILER_LIMIT_BLANK_LINE_CUT_P = 0.7 of the runs with a reachable limit; 0 only for '
    'dev-time comparison): _ChunkedTransferDecoder._dataReceived_TRAILER, a trailer section of limit-1 or limit bytes '
    '(65535/65536 with the real limit) was accepted when the terminating blank line arrived with it, but a delivery that ended between the CR and the LF of that blank line raised '
    '"Trailer headers data is too long." -> 400 + close: the unfinished-line estimate counted the blank line\'s CRLF, which the complete-line path never counts.  '
    'Signatures output-differs:before-close / requests-differ:count (replays/C18_93830126_119.json, found with the knob at 1.0).  Repair: in the `eolIndex == -1` branch '
    '`if self._buffer == b"\\r": return False` before the estimate: check passes with the knob at 1.0',
]
