"""C18 — HTTP/1.1 server parsing does not depend on how bytes are segmented.

Engine E3 (net): one grammar-generated (and usually byte-mutated) request stream
is sent to two fresh real HTTPChannels: once in a single delivery, once under a
tape-chosen segmentation, with the application finishing its responses
synchronously or at later tape-chosen steps.  Oracle (differential): the requests
handed to the application (method, target, version, headers, body) and the bytes
written by the server are identical, up to the server's first close request.
"""
import hashlib
import re

from detsim import net
from detsim.sim import Violation, StepLimit
from models import http1
from props import _http_harness as H
from twisted.web import http, resource, server

ID = "C18"
ENGINE = "net"
LEVEL = "exploration"
TECHNIQUE = "deterministic simulation: whole-vs-segmented differential over a seeded request-stream grammar with byte mutations"
QUICK_RUNS = 32000
TWIN_P = 0.08   # this share of the runs drives two independent instances of the scenario one after the other (detsim.runner._run_scenario)
BATCH = 200
RUN_WALL_LIMIT_S = 90   # a run takes milliseconds; the wall-clock watchdog only has to survive machine stalls under heavy shared load
COMPONENTS = {
    "real": ["twisted.web.http.HTTPFactory.buildProtocol (_GenericHTTPChannelProtocol + HTTPChannel)", "twisted.web.http.Request",
             "twisted.web.http._IdentityTransferDecoder/_ChunkedTransferDecoder", "twisted.protocols.basic.LineReceiver",
             "twisted.web.server.Site/Request + Resource tree (one configuration)"],
    "stub": ["TCP transport and delivery segmentation (detsim.net.SimTransport/cut)", "wall clock (http.gmtime bound to the simulated clock, held fixed)",
             "the application (deterministic function of the request)"],
}
RULE = ("run = one stream of 1-5 pipelined requests (methods, targets, HTTP/1.0+1.1, Content-Length and chunked bodies with extensions/trailers, "
        "Expect: 100-continue, Connection: close, OWS/case oddities) with 0-3 byte mutations (replace/delete/insert/duplicate/truncate/CRLF->LF/inserted "
        "continuation or framing line), channel limits drawn small or default; delivered whole and under one tape-chosen segmentation "
        "(one/few/many/edges/bytes) with deferred responses finished at tape-chosen steps; non-trivial = the whole run handed at least one request to "
        "the application or answered 400, and the segmented run had at least one cut")
ASSUMPTIONS = ["simulated time is held fixed (time-outs belong to C21)",
               "deliveries stop at the server's first close request (as a TCP transport stops reading); nothing after it is compared",
               "if exactly one of the two runs asks to close, only the prefix relation is checked (counted as probe close_differs)"]
cleanup = H.cleanup

CTYPES = [b"application/x-www-form-urlencoded", b"multipart/form-data; boundary=b", b"text/plain", b"garbage;;=", b"multipart/form-data"]
MODES = ["sync", "chunked", "deferred", "deferred2"]


def _body_for(d):
    h = hashlib.sha256(repr(d.key()).encode("utf-8", "backslashreplace")).hexdigest()
    return ("%d:%s" % (d.index, h[:24])).encode()


def _make_site(sim, pending, plan):
    class Leaf(resource.Resource):
        isLeaf = True

        def render(self, req):
            srv = req.channel.site._h_server
            d = srv.delivered[-1]
            body = _body_for(d)
            mode = plan[d.index % len(plan)]
            if mode == "sync":
                req.setHeader(b"Content-Length", b"%d" % len(body))
                return body
            if mode == "chunked":
                req.write(body[:5])
                return body[5:]
            pending.append((req, [body] if mode == "deferred" else [body[:7], body[7:]]))
            return server.NOT_DONE_YET

    class RecSiteRequest(server.Request):
        def process(self):
            srv = self.channel.site._h_server
            srv.delivered.append(H._snapshot(self, len(srv.delivered), len(srv.t.written)))
            srv.requests.append(self)
            server.Request.process(self)

    root = resource.Resource()
    root.putChild(b"a", Leaf())
    root.putChild(b"", Leaf())
    site = server.Site(root, requestFactory=RecSiteRequest, reactor=sim.clock)
    return site


def execute(sim, pieces, plan, knobs, split, use_site):
    pending = []   # (request, [remaining writes]) ; finish after the last write

    def app(srv, req, idx):
        d = srv.delivered[idx]
        body = _body_for(d)
        mode = plan[idx % len(plan)]
        req.setHeader(b"Date", http.datetimeToString())
        req.setHeader(b"X-Idx", b"%d" % idx)
        if mode == "sync":
            req.setHeader(b"Content-Length", b"%d" % len(body))
            req.write(body)
            req.finish()
        elif mode == "chunked":
            req.write(body[:5])
            req.write(body[5:])
            req.finish()
        elif mode == "deferred":
            pending.append((req, [body]))
        else:
            req.write(body[:7])
            pending.append((req, [body[7:]]))

    site = _make_site(sim, pending, plan) if use_site else None
    srv = H.Server(sim, app, timeout=60, knobs=knobs, site=site)
    at_close = {}
    srv.t.on_close = lambda: at_close.setdefault("n", len(srv.delivered))
    queue = list(pieces)
    raised = None

    def app_step():
        req, writes = pending[0]
        if writes:
            req.write(writes.pop(0))
        else:
            pending.pop(0)
            req.finish()

    try:
        while True:
            sim.step(20000)
            can = bool(queue) and srv.can_deliver() and srv.t.close_at is None
            if can and pending and split and sim.draw_bool(0.35, "app-first"):
                app_step()
            elif can:
                srv.deliver(queue.pop(0))
            elif pending and srv.t.close_at is None:
                app_step()
            else:
                break
    except (Violation, StepLimit):
        raise
    except Exception as e:   # classified: part of the observable outcome, compared between the two runs
        raised = type(e).__name__
    n = at_close.get("n", len(srv.delivered))
    c = srv.t.close_at
    out = bytes(srv.t.written if c is None else srv.t.written[:c])
    return {"reqs": [d.key() for d in srv.delivered[:n]], "out": out, "closed": c is not None, "raised": raised,
            "undelivered": len(queue), "paused": not srv.t.reading}


def _first_diff(a, b):
    if len(a) != len(b):
        return "count"
    for x, y in zip(a, b):
        for name, u, v in zip(("method", "target", "version", "headers", "body"), x, y):
            if u != v:
                return name
    return "same"


def run(sim):
    # process-global mutable state (header-name cache) must not leak between runs in a warm worker
    try:
        from twisted.web import http_headers as _hh
        _hh._nameEncoder._canonicalHeaderCache.clear()
    except AttributeError:
        pass
    knobs = {
        "MAX_LENGTH": sim.draw_choice([16384, 16384, 16384, 48, 100], "MAX_LENGTH"),
        "totalHeadersSize": sim.draw_choice([16384, 16384, 16384, 120, 300], "totalHeadersSize"),
        "maxHeaders": sim.draw_choice([500, 500, 500, 3], "maxHeaders"),
        "_optimisticEagerReadSize": sim.draw_choice([0x4000, 16, 64], "eager"),
    }
    use_site = sim.draw_choice([False, False, False, True], "site")
    sim.clock.advance(sim.draw_int(0, 2000000, "t0"))
    specs = H.gen_stream(sim, 5, content_types=CTYPES, long_ext="straddle")
    data, bounds = H.stream_bytes(specs)
    nmut = 0
    if sim.draw_bool(0.65, "mutate"):
        data, nmut = H.mutate(sim, data)
    plan = [sim.draw_choice(MODES, "mode") for _ in range(6)]
    sim.config = {"knobs": knobs, "site": use_site, "nreq": len(specs), "nmut": nmut, "plan": plan, "len": len(data)}
    sim.event("stream", len(data), hashlib.sha256(data).hexdigest()[:16], data)

    whole = execute(sim, [data] if data else [], plan, knobs, False, use_site)
    style = sim.draw_choice(["one", "few", "many", "edges", "bytes"], "cutstyle")
    pieces = net.cut(sim, data, style=style, boundaries=bounds)
    sim.event("pieces", style, len(pieces))
    split = execute(sim, pieces, plan, knobs, True, use_site)

    for tag, r in (("whole", whole), ("split", split)):
        sim.event(tag, len(r["reqs"]), len(r["out"]), hashlib.sha256(r["out"]).hexdigest()[:12], r["closed"], r["raised"] or "-")
        if r["raised"]:
            sim.probe("server_raised_" + r["raised"])
    if whole["paused"] or split["paused"]:
        sim.probe("reader_left_paused")

    def detail():
        return "stream=%r pieces=%r\n whole: reqs=%r out=%r closed=%s raised=%s\n split: reqs=%r out=%r closed=%s raised=%s" % (
            data, pieces if len(pieces) < 12 else [len(p) for p in pieces], whole["reqs"], whole["out"], whole["closed"], whole["raised"],
            split["reqs"], split["out"], split["closed"], split["raised"])

    sim.check("raised-differs", whole["raised"] == split["raised"], "%s/%s" % (whole["raised"], split["raised"]), detail)
    if whole["closed"] == split["closed"]:
        sim.check("requests-differ", whole["reqs"] == split["reqs"], _first_diff(whole["reqs"], split["reqs"]), detail)
        sim.check("output-differs", whole["out"] == split["out"],
                  "split-shorter" if whole["out"].startswith(split["out"]) else "split-longer" if split["out"].startswith(whole["out"]) else "content", detail)
    else:
        sim.probe("close_differs")
        short, lng = (whole, split) if whole["closed"] else (split, whole)
        sim.check("requests-differ", lng["reqs"][:len(short["reqs"])] == short["reqs"], "before-close", detail)
        sim.check("output-differs", lng["out"].startswith(short["out"]), "before-close", detail)
    # harness self-check (not an oracle clause): every Date header is the simulated clock's, by an independent formatter
    want = http1.http_date(H.EPOCH + sim.clock.seconds())
    for r in (whole, split):
        for m in re.finditer(rb"\r\nDate: ([^\r\n]*)\r\n", r["out"]):
            assert m.group(1) == want, (m.group(1), want)
            sim.probe("date_checked")
    if whole["closed"]:
        sim.probe("server_closed")
    if b" 400 " in whole["out"][:40] or b"HTTP/1.1 400 Bad Request" in whole["out"]:
        sim.probe("answered_400")
    if b"100 Continue" in whole["out"]:
        sim.probe("100_continue")
    sim.state((len(whole["reqs"]), whole["closed"], bool(whole["raised"]), min(nmut, 3), use_site))
    sim.nontrivial = bool((whole["reqs"] or whole["out"]) and len(pieces) > 1)


MUTANTS = [
    'CAUGHT http.py HTTPChannel._finishRequestBody: drop `self._dataBuffer.append(data)` (pipelined bytes that arrive in the same delivery as the end of a body are lost) -> requests-differ:before-close',
    'CAUGHT http.py _IdentityTransferDecoder.dataReceived: `self.contentLength -= len(data)` -> pass (length counter not carried across deliveries) -> requests-differ:before-close',
    'CAUGHT http.py _ChunkedTransferDecoder._dataReceived_CRLF: `len(self._buffer) < 2` -> `< 1` (CR LF after chunk data split across deliveries) -> requests-differ:count',
    'CAUGHT http.py _ChunkedTransferDecoder._dataReceived_CHUNK_LENGTH: `self._start = len(self._buffer) - 1` -> `len(self._buffer)` (CR LF of the size line split across deliveries) -> output-differs:before-close',
    'CAUGHT http.py _ChunkedTransferDecoder._dataReceived_BODY: `self.length -= len(chunk)` -> pass -> requests-differ:count',
    'CAUGHT basic.py LineReceiver.dataReceived: `>= (self.MAX_LENGTH + len(self.delimiter))` -> `>= self.MAX_LENGTH` (premature line-length rejection only when split) -> output-differs:split-shorter',
    "CAUGHT http.py HTTPChannel.requestDone: `b''.join(self._dataBuffer)` -> `b''.join(self._dataBuffer[:1])` (replay of buffered pipelined data loses later deliveries) -> requests-differ:count",
    'CAUGHT http.py HTTPChannel.rawDataReceived: `self._dataBuffer.append(data)` -> `insert(0, data)` (buffered deliveries replayed out of order) -> requests-differ:count',
]
