"""C28 — template flattening with asynchronous leaves never lets content become markup.

Engine E1 (tasks).  One run = one tape-generated document tree (tags with valid names, attributes,
str/bytes leaves over a hostile alphabet, slots + fillSlots, comments, CDATA sections, character
references, lists/tuples/generators, Elements with TagLoader or XMLString templates and renderers)
in which a tape-chosen subset of places is asynchronous: a Deferred leaf (pre-fired, fired later,
shared between places, nested inside another leaf's value), a coroutine object that awaits gate
Deferreds, a renderer that returns its result through a Deferred or a coroutine.  The real
twisted.web.template.flatten() writes the tree through a scenario-owned write callable while the
tape decides which unfired leaf fires next (the one the flattener waits for, a later one, one from
inside write()), with one leaf failing in the fault family.

Oracle
  schedule part (differential, after every operation):
    * the bytes written are exactly the synchronous document up to the first leaf that has not
      fired (computed by flattening, synchronously, the same tree with fired leaves replaced by their
      values and unfired ones by inert markers); nothing is written past an unfired leaf, nothing
      is held back at a suspension; firing a leaf the flattener is not waiting for changes nothing;
    * the returned Deferred fires exactly once, with None, and only when no needed leaf is
      outstanding; with a failing leaf it fails with FlattenerError wrapping that leaf's exception
      and what was written is a prefix of the fault-free document that stops before that leaf;
    * the final bytes equal the bytes of the same tree with every Deferred/coroutine replaced by
      its value.
  input part (structural, on the final document):
    * expat (fragment wrapped in a root element) and the html.parser tokenizer (comment end decided
      by the WHATWG comment states, see models/markup_views.py) give back exactly the generated
      structure: element names (any spelling; the HTML view compares them ASCII-case-insensitively) and nesting,
      attribute names and values, concatenated text (for elements an HTML tokenizer reads as text only - script, style,
      title, textarea, xmp, ... - the HTML view demands the element's own end tag to end it and nothing but its text in
      it, the text as it stands or after decoding character references, see models/markup_views.py), one
      comment node per Comment (its data exactly when it contains no `--`, does not end in `-` and does
      not begin with `>` or `->`; otherwise only "one comment, nothing leaks out of it"),
      CDATA content as character data; a markup-valued attribute parses, after the parser's own
      unescaping, as a fragment with the generated structure again.
  kept trees (family keep, KEEP_WEIGHTS): in a share of the runs the tree is an object its owner keeps - the tree with every
    leaf replaced by its value, or the very objects that were just flattened asynchronously, every Deferred fired; both
    include the tags behind TagLoaders - and changes between flattenings through the public API of Tag: items of the
    `attributes` dictionary set / added / deleted / popped / cleared in place, update(), setdefault(), a new dictionary
    assigned, Tag.__call__ with keywords or children, the `children` list appended to / inserted into / assigned / deleted
    from in place, Tag.clear(), Tag.fillSlots() again for a filled name - or not at all; the description is changed alongside.
    Every further document is judged by the same two parse-back views against the tree as it is at that moment (no byte
    comparison with an earlier or a fresh rendering: only the statement's "parses back to the same structure").
"""
import hashlib
import re

from twisted.internet.defer import Deferred
from twisted.python.failure import Failure
from twisted.web import _flatten
from twisted.web.error import FlattenerError, UnsupportedType
from twisted.web.template import (CDATA, TEMPLATE_NAMESPACE, CharRef, Comment, Element, Tag, TagLoader,
                                  XMLString, flatten, flattenString, renderer, slot)

from models import markup_views as mv

ID = "C28"
ENGINE = "tasks"
LEVEL = "exploration"
TECHNIQUE = ("deterministic simulation: random template trees flattened by the real flatten() under seeded firing order of their "
             "Deferred/coroutine leaves vs the synchronous document (prefix at every suspension) and vs two independent parsers")
QUICK_RUNS = 60000
TWIN_P = 0.08   # this share of the runs drives two independent instances of the scenario one after the other (detsim.runner._run_scenario)
BATCH = 250
COMPONENTS = {"real": ["twisted.web._flatten.flatten/flattenString/_flattenTree/_flattenElement/_fork",
                       "twisted.web._flatten.escapeForContent/attributeEscapingDoneOutside/writeWithAttributeEscaping/escapedCDATA/escapedComment",
                       "twisted.web._stan.Tag/slot/Comment/CDATA/CharRef (fillSlots, clone, __call__, clear, attributes/children changed in place)",
                       "twisted.web._element.Element/renderer", "twisted.web._template_util.TagLoader/XMLString/_ToStan",
                       "twisted.internet.defer.Deferred/Deferred.fromCoroutine"],
              "stub": ["which leaves are fired before flattening starts and the order in which the others fire (tape)",
                       "the write callable (records chunks; may fire a leaf re-entrantly)",
                       "parsers used as oracle: xml.parsers.expat, html.parser.HTMLParser (+ WHATWG comment-end rules, + WHATWG "
                       "RCDATA/RAWTEXT/script-data rules for where a text-only element ends)"]}
RULE = ("run = one tree (depth <= 5, <= ~45 nodes) with 0..10 asynchronous leaves (Deferred / shared Deferred / nested Deferred / coroutine "
        "awaiting gates / renderer answering through a Deferred or coroutine), flattened once asynchronously under a tape-chosen firing "
        "order (awaited leaf, another leaf, a leaf fired from inside write()), flush threshold BUFFER_SIZE tape-chosen in {65536,1,7,64}; "
        "optionally one failing leaf or one unsupported object; element names from a fixed list of ordinary names and, with the knob "
        "wide_p in {0.15,0,0.4} per tag, from a wider universe (script/style/title/textarea/xmp/iframe/noembed/noframes in several "
        "spellings with textual children - or, in a fifth of them, arbitrary children and the XML view only - and HTML structural "
        "names such as pre, table, select, html, body, DIV, H1), also for tags with a renderer; with weights KEEP_WEIGHTS (a quarter "
        "of the runs) the tree holds nothing that can be consumed only once and is, after the first document, kept, changed in place "
        "through Tag's public API (0..3 changes drawn per round: attributes / children / slot values of tags built from Python "
        "objects, incl. the tags behind a TagLoader and inside fired Deferreds) and flattened again, 1..3 rounds, each document "
        "parsed back against the tree of that moment; non-trivial = the flattener suspended at least once AND the tree "
        "contains at least one markup-significant character sequence in text, attribute, comment or CDATA content")
ASSUMPTIONS = [
    "tag and attribute names are valid: ASCII names from fixed lists (ordinary names; with wide_p also the text-only elements of HTML "
    "- script, style, title, textarea, xmp, iframe, noembed, noframes - in lower, upper and mixed case, and HTML structural names); attribute "
    "names are lower case; `plaintext` (an HTML tokenizer never leaves it: no serialisation can end the element) and `noscript` (text-only "
    "or not depending on the parser's scripting flag) are not drawn",
    "HTML view of a text-only element: ended by its own end tag (WHATWG RCDATA / RAWTEXT / script data states incl. the escaped and "
    "double escaped ones) with only character data in it; title/textarea: that data is the generated text; RAWTEXT elements and script: "
    "the generated text either as it stands or after decoding character references (a tokenizer does not decode them there, so a "
    "serialiser cannot both keep `<` from being markup and keep the text - the statement's XML reading decides, the HTML reading only "
    "demands that nothing leaks and nothing else is altered); only tokenization is modelled (the tree builder's dropping of a newline "
    "right after <textarea>/<pre> is not); trees that put tags, comments, CDATA sections or character references INTO a text-only "
    "element get the XML view only",
    "the attribute names of one tag are distinct as names, whatever the key type (a dictionary holding both 'href' and b'href' is not "
    "an element: no document has two attributes of one name; the flattener writes both); a CharRef in an attribute occurs only in "
    "the markup-valued reading (the value is the serialised markup, escaped as a whole - like a Tag there), never as 'the character'",
    "family keep: between two flattenings the owner changes tags built from Python objects (not the tags parsed from XMLString "
    "source); what is put in is plain (no new outstanding Deferreds); a kept tree holds no generators or coroutine objects (they can be "
    "consumed once; Tag.clone warns about them) and, when the asynchronous objects are kept, no failed Deferred or unsupported object; "
    "clause kept-flatten-synchronous (a tree whose Deferreds have all fired is flattened at once) is how the document is obtained, "
    "not part of the statement",
    "bytes leaves are UTF-8 encodings of strings (the statement is silent on bytes that are not UTF-8)",
    "XML view only for trees whose content is representable in XML 1.0: no characters outside the Char production, no `--` inside a "
    "comment; XML end-of-line and attribute-value whitespace normalisation is applied to both sides",
    "HTML view only for trees without CDATA sections (html.parser cannot represent them in HTML content)",
    "comment data is compared exactly only when it contains no `--`, does not end in `-` and does not begin with `>` or `->` "
    "(escaping of comments is necessarily lossy); otherwise only 'exactly one comment node, nothing leaks' is demanded",
    "inside a markup-valued attribute the direct text leaves are drawn from characters without `<` and `&` (after the parser's unescaping "
    "text and markup are indistinguishable there by construction)",
    "a Deferred never has a Deferred/coroutine as its direct result (Deferred chaining would consume the inner result); nested leaves sit in a list",
    "shared Deferreds carry values that can be flattened twice (no generators or coroutine objects inside)",
    "clause flushed-before-suspension rests on flatten()'s documented contract ('incrementally write out'; 'flush ... before suspending'), "
    "not on the C28 statement; the DESIGN entry lists its absence as a must-catch",
    "two generator families reproduced behaviour that violated the statement on the tree as found (FINDINGS at the bottom of this module; both "
    "repaired in /repo, listed as fixed in known_findings.json) and are drawn with probability P_SLOT_SHADOW / P_COMMENT_HAZARD; in all other "
    "runs comment data never begins with `>` or `->` and never contains `--!>`, and the value of an enclosing fillSlots() is not used again "
    "after an inner tag re-filled the same name",
]
LEVEL_NOTE = ("Two dimensions. SCHEDULE (what the simulator owns): which Deferred/coroutine leaves are already fired when flattening starts, "
              "the order the others fire in, firing a later leaf while the flattener is suspended on an earlier one, firing from inside "
              "write(), one Deferred used at several places, Deferreds nested in another leaf's value, coroutine renderers, one failing "
              "leaf, the flush threshold. The clauses output-diverges / flushed-before-suspension / wrote-past-unfired-leaf / "
              "fires-only-when-complete / fires-once / async-equals-sync / failure-* rest on it. INPUT SAMPLING: the tree shapes and the hostile "
              "content alphabet (<, >, &, quotes, --, ]]>, <!--, -->, --!>, control characters, non-BMP) are drawn by a seeded grammar, not "
              "enumerated; the clauses xml-* and html-* (parse-back structure) rest only on that sampling and would be decided equally well "
              "by a property-based test without a scheduler. The synchronous reference document is produced by the code under test itself "
              "(differential); independence comes from the two parsers.")

# Probability of the two generator families that reproduced genuine defects of the tree as found (both repaired since):
P_SLOT_SHADOW = 0.06      # an inner fillSlots() re-uses a slot name of an enclosing one and the name is used after the inner tag
P_COMMENT_HAZARD = 0.06   # comment data beginning with `>` / `->` or containing `--!>` (ends the comment for an HTML5 tokenizer)
# family keep (weights): the tree is kept by its owner, changed through Tag's public API and flattened again - "sync": the tree with
# every Deferred replaced by its value, "async": the very objects that were just flattened asynchronously (every Deferred fired)
KEEP_WEIGHTS = [("no", 6), ("sync", 1), ("async", 1)]

TAGS = ["div", "span", "p", "a", "b", "em", "ul", "li", "td", "h1", "x-y", "sect_1"]
# The wider universe of valid element names (knob wide_p): names an HTML tokenizer reads text-only content for (RCDATA: title,
# textarea; RAWTEXT: style, xmp, iframe, noembed, noframes; script) and names with other roles in HTML, in several spellings.
TEXT_ELEMENT_NAMES = ["script", "style", "title", "textarea", "SCRIPT", "Style", "xmp", "iframe", "TITLE", "TextArea", "noembed",
                      "noframes", "sCrIpT", "STYLE"]
OTHER_NAMES = ["pre", "DIV", "Span", "table", "select", "option", "html", "body", "head", "form", "button", "code", "H1", "label",
               "template", "object"]
VOID = ["br", "img", "hr", "input"]
ATTRS = ["id", "class", "href", "title", "alt", "data-x", "x_y", "value", "style", "onclick", "src", "srcdoc", "content", "action"]
TOKENS = ["a", "<", ">", "&", '"', "'", "--", "]]>", "<!--", "-->", "<![CDATA[", "</", "/>", "&amp;", "&lt;", "&#60;", "&quot", "=", " ",
          "\n", "\t", "\r", "b", "é", "€", "\U0001F600", "<script>", "</div>", "-", "]", "]]", "?>", "<?", "\\", "`", "&#", "x",
          "--!>", "\x7f", "\x85", " ", "-- >", "]]&gt;"]
ILLEGAL = ["\x00", "\x01", "\x08", "\x0b", "\x0c", "\x1f", "￾", "￿"]
SAFE = ["a", "b", "x", " ", "=", "é", "'", '"', "/", "€", "-", "]"]
CHARREFS = [65, 38, 60, 62, 34, 39, 233, 160, 8364, 128512, 45, 93]
SIGNIFICANT = re.compile("[<>&\"]|--|\\]\\]")
MARK = re.compile(rb"zq([MFU])(\d+)q")


class Boom(Exception):
    pass


class Unsupported:
    """An object the flattener has no rule for."""

    def __repr__(self):
        return "<unsupported>"


class DynElement(Element):
    """An Element whose six exposed renderers dispatch to a per-instance table."""

    def __init__(self, loader, table):
        Element.__init__(self, loader)
        self.table = table

    @renderer
    def r0(self, request, tag):
        return self.table["r0"](tag)

    @renderer
    def r1(self, request, tag):
        return self.table["r1"](tag)

    @renderer
    def r2(self, request, tag):
        return self.table["r2"](tag)

    @renderer
    def r3(self, request, tag):
        return self.table["r3"](tag)

    @renderer
    def r4(self, request, tag):
        return self.table["r4"](tag)

    @renderer
    def r5(self, request, tag):
        return self.table["r5"](tag)


# =========================================================================== generation

class Ctx:
    __slots__ = ("attr", "scope", "reflat", "static", "methods", "legal")

    def __init__(self, attr=None, scope=(), reflat=False, static=False, methods=None, legal=False):
        self.attr, self.scope, self.reflat, self.static, self.methods, self.legal = attr, scope, reflat, static, methods, legal

    def but(self, **kw):
        c = Ctx(self.attr, self.scope, self.reflat, self.static, self.methods, self.legal)
        for k, v in kw.items():
            setattr(c, k, v)
        return c


class Gen:
    def __init__(self, sim, knobs):
        self.sim = sim
        self.k = knobs
        self.leaves = []        # k -> {"node": node|None (gate), "share": bool}
        self.nodes = 0
        self.nslot = 0
        self.nelem = 0
        self.flags = set()
        self.bad_used = False
        self.nfill = 0
        self.poisoned = set()   # fills whose name was re-used by an inner fill: not referenced any more afterwards (see P_SLOT_SHADOW)
        self.editable = []      # description nodes of the tags built from Python objects (not template source): what a kept tree's owner can change

    # ---- strings
    def string(self, ctx, lo=0, hi=4):
        sim = self.sim
        if ctx.attr == "mixed":
            toks = SAFE
        elif ctx.static or ctx.legal or self.k["xml_clean"]:
            toks = TOKENS
        else:
            toks = TOKENS + ILLEGAL
        n = sim.draw_int(lo, hi, "ntok")
        return "".join(sim.draw_choice(toks, "tok") for _ in range(n))

    def comment_data(self, ctx):
        sim = self.sim
        clean = ctx.static or self.k["xml_clean"]
        s = self.string(ctx.but(attr=None), 0, 4)
        if ctx.static:
            s = s.replace("\r", "")                   # a literal CR in template source is read as LF by any XML parser
        if clean:
            s = re.sub("--+", "-", s)              # XML 1.0 has no `--` inside a comment
        if ctx.static and s.endswith("-"):
            s += "."
        # What ends a comment early for an HTML5 tokenizer but is not handled by escapedComment is kept out of the
        # ordinary families (genuine defect, see the report at the bottom) ...
        while "--!>" in s:
            s = s.replace("--!>", "--!")
        if s.startswith(">") or s.startswith("->"):
            s = "c" + s
        # ... and produced on purpose by the family that reproduces it.
        if self.k["comment_hazard"] and not ctx.static:
            h = sim.draw_choice(["", ">", "->", "--!>"], "hazard")
            if h == "--!>" and clean:
                h = "->"
            if h:
                s = (h + s) if h != "--!>" else (s[:1] + h + s[1:])
                self.flags.add("comment-hazard")
        return s

    def new_leaf(self, node, share=False):
        self.leaves.append({"node": node, "share": share})
        return len(self.leaves) - 1

    def gates(self, lo, hi):
        n = self.sim.draw_int(lo, hi, "ngates")
        out = []
        for _ in range(n):
            if len(self.leaves) >= self.k["max_leaves"]:
                break
            out.append(self.new_leaf(None))
        return out

    # ---- content
    def content(self, depth, ctx):
        """One node for a child / attribute-value / slot-value position."""
        sim = self.sim
        self.nodes += 1
        room = len(self.leaves) < self.k["max_leaves"]
        if not ctx.static and room and self.k["async_w"] and sim.draw_bool(self.k["async_w"] / 10.0, "async"):
            return self.wrapper(depth, ctx)
        return self.plain(depth, ctx)

    def wrapper(self, depth, ctx):
        sim = self.sim
        shareable = [k for k, lf in enumerate(self.leaves) if lf["share"] and lf["node"] is not None and ctx.attr != "mixed"
                     and (ctx.attr is None or lf["share"] == "textual")]
        kind = sim.draw_weighted([("defer", 6), ("coro", 0 if ctx.reflat else self.k["coro_w"]),
                                  ("share", self.k["share_w"]), ("ref", 4 * self.k["share_w"] if shareable else 0)], "wrap")
        if kind == "ref":
            return ("ref", sim.draw_choice(shareable, "refk"))
        if kind == "share":
            klass = "textual" if (ctx.attr == "pure" or sim.draw_bool(0.4, "sharetext")) else "markup"
            if ctx.attr == "mixed":
                klass = None
            k = self.new_leaf(None, share=klass or False)
            inner_ctx = Ctx(attr=("pure" if klass == "textual" else ctx.attr), scope=(), reflat=True, legal=ctx.legal)
            self.leaves[k]["node"] = self.plain_or_nested(depth + 1, inner_ctx)
            return ("defer", k)
        if kind == "coro":
            gates = self.gates(0, 2)
            return ("coro", gates, self.plain_or_nested(depth + 1, ctx))
        k = self.new_leaf(None)
        self.leaves[k]["node"] = self.plain_or_nested(depth + 1, ctx)
        return ("defer", k)

    def plain_or_nested(self, depth, ctx):
        # the value behind a leaf may itself contain leaves (nested Deferreds)
        if self.k["nest_w"] and len(self.leaves) < self.k["max_leaves"] and self.sim.draw_bool(self.k["nest_w"] / 10.0, "nest"):
            self.nodes += 1
            return ("list", "list", [self.content(depth + 1, ctx) for _ in range(self.sim.draw_int(1, 2, "nnest"))])
        self.nodes += 1
        return self.plain(depth, ctx)

    def plain(self, depth, ctx):
        sim = self.sim
        deep = depth >= 5 or self.nodes > 45
        textual = ctx.attr == "pure"
        markup_ok = not textual
        slots_here = ([(e[0], e[1]) for e in ctx.scope if (e[1] == "textual" or ctx.attr is None) and e[2] not in self.poisoned]
                      if ctx.attr != "mixed" else [])
        pairs = [("text", 8),
                 ("bytes", 0 if ctx.static else 3),
                 ("list", 0 if (deep or ctx.static) else 3),
                 ("slot", 0 if ctx.attr == "mixed" else (4 if slots_here else 1)),
                 ("tag", 0 if (deep or not markup_ok) else 9),
                 ("comment", 3 if markup_ok else 0),
                 ("cdata", 2 if (markup_ok and self.k["cdata"]) else 0),
                 ("charref", 0 if (not markup_ok or ctx.static) else 2),
                 ("element", 0 if (deep or not markup_ok or ctx.static or depth > 3 or self.nelem >= 3) else self.k["element_w"]),
                 ("rtag", 0 if (deep or ctx.methods is None or not markup_ok or ctx.attr == "mixed") else 6),
                 ("bad", 1 if (self.k["bad"] and not self.bad_used and not ctx.static and ctx.attr is None and not ctx.reflat) else 0)]
        kind = sim.draw_weighted(pairs, "kind")
        if kind == "text":
            return ("text", self.string(ctx))
        if kind == "bytes":
            return ("bytes", self.string(ctx))
        if kind == "charref":
            return ("charref", sim.draw_choice(CHARREFS, "ord"))
        if kind == "comment":
            return ("comment", self.comment_data(ctx))
        if kind == "cdata":
            s = self.string(ctx.but(attr=None))
            if ctx.static:
                s = s.replace("\r", "")
                while "]]>" in s:
                    s = s.replace("]]>", "]]")
            return ("cdata", s)
        if kind == "bad":
            self.bad_used = True
            return ("bad",)
        if kind == "list":
            lk = sim.draw_choice(["list", "tuple"] + ([] if ctx.reflat else ["gen"]), "listkind")
            return ("list", lk, [self.content(depth + 1, ctx) for _ in range(sim.draw_int(0, 3, "nlist"))])
        if kind == "slot":
            return self.slot(depth, ctx, slots_here)
        if kind == "tag":
            return self.tag(depth, ctx, None)
        if kind == "rtag":
            return self.rtag(depth, ctx)
        return self.element(depth, ctx)

    def slot(self, depth, ctx, slots_here):
        sim = self.sim
        if slots_here and sim.draw_bool(0.8, "slotfilled"):
            name, klass = sim.draw_choice(slots_here, "slotname")
            default = None
            if not ctx.static and sim.draw_bool(0.2, "unused_default"):
                default = ("text", "unused-default")
            return ("slot", name, default, name)
        # a slot nobody fills: its default is what is rendered
        self.nslot += 1
        name = "u%d" % self.nslot
        if ctx.static:
            default = ("text", self.string(ctx))
        else:
            self.nodes += 1
            default = self.plain(depth + 1, ctx.but(reflat=True)) if depth < 5 else ("text", self.string(ctx))
            if default[0] == "slot":
                default = ("text", "d")
        return ("slot", name, default, None)

    def attrs(self, depth, ctx, static_rt=False):
        sim = self.sim
        out = []
        names = list(ATTRS)
        for _ in range(sim.draw_weighted([(0, 3), (1, 4), (2, 2), (3, 1)], "nattrs")):
            name = names.pop(sim.draw_int(0, len(names) - 1, "attrname"))
            nb = (not ctx.static) and sim.draw_bool(0.2, "attrbytes")
            mixed = sim.draw_bool(self.k["mixed_p"], "attrmixed")
            actx = ctx.but(attr="mixed" if mixed else "pure")
            if static_rt:
                actx.reflat = True
            if ctx.static and not mixed:
                val = ("text", self.string(actx))
            elif mixed:
                self.nodes += 1
                val = ("list", "list", [self.content(depth + 1, actx) for _ in range(sim.draw_int(1, 3, "nmixed"))])
            else:
                val = self.content(depth + 1, actx)
            out.append((name, nb, "mixed" if mixed else "pure", val))
        return out

    def children(self, depth, ctx, lo=0, hi=3):
        return [self.content(depth + 1, ctx) for _ in range(self.sim.draw_int(lo, hi, "nchildren"))]

    def wide_name(self, name):
        """(name, textonly): with the knob wide_p the element name comes from the wider universe; for a name whose content an HTML
        tokenizer reads as text only, `textonly` says whether the generator keeps the children textual (mostly; otherwise anything
        goes into the element and only the XML view applies to the tree)."""
        sim = self.sim
        if not self.k["wide_p"] or not sim.draw_bool(self.k["wide_p"], "widename"):
            return name, False
        self.flags.add("wide-name")
        name = sim.draw_choice(TEXT_ELEMENT_NAMES if sim.draw_bool(0.65, "textelement") else OTHER_NAMES, "widetagname")
        if mv.ascii_lower(name) not in mv.HTML_TEXT_ELEMENTS:
            return name, False
        return name, not sim.draw_bool(0.2, "anychildren")

    def tag(self, depth, ctx, _):
        sim = self.sim
        void = sim.draw_bool(0.15, "void")
        name = sim.draw_choice(VOID if void else TAGS, "tagname")
        textonly = False
        if not void:
            name, textonly = self.wide_name(name)
        nb = (not ctx.static) and sim.draw_bool(0.15, "tagbytes")
        attrs = self.attrs(depth, ctx)
        fills = []
        after = None
        # children of a text-only element are textual (strings, bytes, slots, lists, asynchronous leaves of those)
        inner = ctx.but(attr="pure" if textonly else None)
        if not ctx.static and sim.draw_bool(self.k["slot_p"], "fills"):
            scope = list(inner.scope)
            for _ in range(sim.draw_int(1, 2, "nfills")):
                klass = sim.draw_choice(["textual", "markup"], "fillclass")
                if textonly:
                    klass = "textual"
                shadowable = [e for e in inner.scope if e[1] == klass and not e[0].startswith("q") and e[2] not in self.poisoned
                              and e[0] not in [f[0] for f in fills]]
                if shadowable and sim.draw_bool(self.k["shadow_p"], "shadow"):
                    # an inner fillSlots() re-uses the name of an enclosing one: inside this tag the inner value wins
                    outer = sim.draw_choice(shadowable, "shadowname")
                    sname = outer[0]
                    self.flags.add("nested-shadow")
                    if self.k["slot_shadow"]:
                        # the family that reproduces the slot-scope defect: the enclosing value is used again after this tag
                        self.flags.add("slot-shadow")
                        after = outer
                    else:
                        self.poisoned.add(outer[2])
                else:
                    self.nslot += 1
                    sname = "s%d" % self.nslot
                self.nodes += 1
                self.nfill += 1
                fctx = Ctx(attr="pure" if klass == "textual" else None, scope=(), reflat=True, legal=ctx.legal)
                val = self.content(depth + 1, fctx)
                fills.append((sname, klass, val))
                scope = [e for e in scope if e[0] != sname] + [(sname, klass, self.nfill)]
            inner = inner.but(scope=tuple(scope))
        kids = (self.children(depth, inner, 1 if textonly else 0, 1 if void else 3)
                if not (void and sim.draw_bool(0.8, "voidempty")) else [])
        node = ("tag", name, nb, attrs, kids, fills)
        if not ctx.static:
            self.editable.append(node)
        if after is not None and ctx.attr is None:
            return ("list", "list", [node, ("slot", after[0], None, after[0])])
        return node

    def rtag(self, depth, ctx):
        sim = self.sim
        free = [r for r in ("r0", "r1", "r2", "r3", "r4", "r5") if r not in ctx.methods]
        if not free:
            return ("text", self.string(ctx))
        rname = free[0]
        ctx.methods[rname] = None      # reserve
        transparent = sim.draw_bool(0.25, "transparent")
        name = "" if transparent else sim.draw_choice(TAGS, "tagname")
        textonly = False
        if not transparent:
            name, textonly = self.wide_name(name)
        attrs = [] if transparent else self.attrs(depth, ctx, static_rt=True)
        action = sim.draw_choice(["append", "replace", "clear", "fill"], "action")
        # the payload is produced by the renderer at render time: never static, may be asynchronous
        # (a renderer inside something that is flattened twice runs twice: the leaves in its payload are then shared)
        # (what a renderer puts into a text-only element is textual too, unless it replaces the element)
        pctx = Ctx(attr="pure" if (textonly and action != "replace") else None, scope=(), reflat=ctx.reflat, methods=None, legal=ctx.legal)
        slotname = None
        inner = ctx.but(attr="pure" if textonly else None)
        if action == "fill":
            self.nslot += 1
            slotname = "q%d" % self.nslot
            klass = sim.draw_choice(["textual", "markup"], "fillclass")
            if textonly:
                klass = "textual"
            pctx = pctx.but(attr="pure" if klass == "textual" else None, reflat=True)
            self.nfill += 1
            inner = inner.but(scope=tuple(inner.scope) + ((slotname, klass, self.nfill),))
        self.nodes += 1
        payload = self.content(depth + 1, pctx)
        kids = self.children(depth, inner, 1 if action == "fill" else 0, 3)
        if action == "fill" and not _uses_slot(kids, slotname):
            kids.append(("slot", slotname, None, slotname))
        style = sim.draw_weighted([("direct", 4), ("deferred", self.k["async_w"]), ("coro", self.k["coro_w"])], "rstyle")
        gates = []
        if style == "deferred":
            gates = self.gates(1, 1)
            if not gates:
                style = "direct"
        elif style == "coro":
            gates = self.gates(0, 2)
        ctx.methods[rname] = {"action": action, "payload": payload, "slot": slotname, "style": style, "gates": gates}
        node = ("rtag", name, False, attrs, kids, rname)
        if not ctx.static:
            self.editable.append(node)
        return node

    def element(self, depth, ctx):
        sim = self.sim
        self.nelem += 1
        eid = self.nelem
        loader = sim.draw_choice(["tag", "xml"], "loader")
        methods = {}
        # inside a markup-valued attribute the template's top-level text is direct attribute text as well
        tctx = Ctx(attr=("mixed" if ctx.attr == "mixed" else None), scope=(), reflat=ctx.reflat, static=(loader == "xml"),
                   methods=methods, legal=ctx.legal)
        template = self.children(depth, tctx, 1, 3)
        if not methods and tctx.attr is None and sim.draw_bool(0.7, "force_rtag"):
            self.nodes += 1
            template.append(self.rtag(depth + 1, tctx))
        self.flags.add("loader-" + loader)
        return ("element", loader, template, methods, eid)


    # ---- content for a change made to a kept tree between two flattenings (family keep)
    def fresh(self, where, textual=False):
        """A new node for a tree that is flattened again.  where 'attr': (kind, value) of an attribute; where 'child': a child or
        slot value (textual: strings/bytes/lists/slots of those only)."""
        sim = self.sim
        self.nodes = min(self.nodes, 30) + 1
        if where == "attr":
            if sim.draw_bool(self.k["mixed_p"], "attrmixed"):
                actx = Ctx(attr="mixed", reflat=True)
                return "mixed", ("list", "list", [self.content(4, actx) for _ in range(sim.draw_int(1, 2, "nmixed"))])
            return "pure", self.plain(3, Ctx(attr="pure", reflat=True))
        return self.plain(3, Ctx(attr="pure" if textual else None, reflat=True))


def _uses_slot(nodes, name):
    for n in nodes:
        if n[0] == "slot" and n[3] == name:
            return True
    return False


# =========================================================================== expected structure

class Expect:
    """Expected items (see models/markup_views.py) of a node, with slots resolved lexically: the value of a slot is the one
    given by the innermost enclosing fillSlots() for that name (Tag.fillSlots: 'During the rendering of children of this
    node, slots with names in slots will be rendered as their corresponding values')."""

    def __init__(self, g):
        self.g = g
        self.scan = {"illegal": False, "comment_dashes": False, "cdata": False, "significant": False, "mixed": False,
                     "text_element": False, "text_element_markup": False}

    def elem(self, name, attrs, kids):
        if mv.ascii_lower(name) in mv.HTML_TEXT_ELEMENTS:
            if any(it[0] != "T" for it in kids):
                self.scan["text_element_markup"] = True      # the HTML view cannot say where such an element ends
            elif any(SIGNIFICANT.search(it[1]) for it in kids):
                self.scan["text_element"] = True
        return [("E", name, attrs, kids)]

    def _s(self, s, where="text"):
        if not mv.xml_legal(s):
            self.scan["illegal"] = True
        if SIGNIFICANT.search(s):
            self.scan["significant"] = True
        return s

    def text(self, node, env, methods):
        """The string a textual (attribute-pure) node flattens to."""
        k = node[0]
        if k in ("text", "bytes"):
            return self._s(node[1])
        if k == "list":
            return "".join(self.text(c, env, methods) for c in node[2])
        if k == "slot":
            return self.text(self._slot(node, env), env, methods)
        if k == "defer" or k == "ref":
            lf = self.g.leaves[node[1]]
            return self.text(lf["node"], env if not lf["share"] else {}, methods)
        if k == "coro":
            return self.text(node[2], env, methods)
        raise AssertionError("not textual: %r" % (k,))

    def _slot(self, node, env):
        if node[3] is not None:
            return env[node[3]]
        return node[2]

    def items(self, node, env, methods):
        k = node[0]
        if k in ("text", "bytes"):
            return [("T", self._s(node[1]))]
        if k == "charref":
            return [("D", chr(node[1]))]
        if k == "cdata":
            self.scan["cdata"] = True
            return [("D", self._s(node[1]))]
        if k == "comment":
            s = self._s(node[1])
            if "--" in s:
                self.scan["comment_dashes"] = True
            exact = "--" not in s and not s.endswith("-") and not s.startswith(">") and not s.startswith("->")
            return [("C", s, exact)]
        if k == "bad":
            return []
        if k == "list":
            return self.seq(node[2], env, methods)
        if k == "slot":
            return self.items(self._slot(node, env), env, methods)
        if k in ("defer", "ref"):
            lf = self.g.leaves[node[1]]
            # a shareable leaf is closed (no slots, no renderers of the place it is used in)
            return self.items(lf["node"], env if not lf["share"] else {}, methods)
        if k == "coro":
            return self.items(node[2], env, methods)
        if k == "tag":
            env2 = env
            if node[5]:
                env2 = dict(env)
                for (sname, klass, val) in node[5]:
                    env2[sname] = val
            return self.elem(node[1], self.attrs(node[3], env2, methods), self.seq(node[4], env2, methods))
        if k == "rtag":
            m = methods[node[5]]
            payload = m["payload"]
            if m["action"] == "replace":
                return self.items(payload, {}, None)
            if m["action"] == "append":
                kids = self.seq(node[4], env, methods) + self.items(payload, {}, None)
            elif m["action"] == "clear":
                kids = self.items(payload, {}, None)
            else:
                env2 = dict(env)
                env2[m["slot"]] = payload
                kids = self.seq(node[4], env2, methods)
            if node[1] == "":
                return kids
            # attributes of a tag with a renderer are flattened after the renderer ran; slots inside them see the fill too
            env3 = env if m["action"] != "fill" else env2
            return self.elem(node[1], self.attrs(node[3], env3, methods), kids)
        if k == "element":
            return self.seq(node[2], {}, node[3])
        raise AssertionError(k)

    def seq(self, nodes, env, methods):
        out = []
        for n in nodes:
            out.extend(self.items(n, env, methods))
        return out

    def attrs(self, attrs, env, methods):
        d = {}
        for (name, nb, kind, val) in attrs:
            if kind == "pure":
                d[name] = ("S", self.text(val, env, methods))
            else:
                self.scan["mixed"] = True
                d[name] = ("M", self.items(val, env, methods))
        return d


# =========================================================================== XML template source (for XMLString)

def _xt(s):
    return s.replace("&", "&amp;").replace("<", "&lt;").replace(">", "&gt;").replace("\r", "&#13;")


def _xa(s):
    return (s.replace("&", "&amp;").replace("<", "&lt;").replace('"', "&quot;")
            .replace("\t", "&#9;").replace("\n", "&#10;").replace("\r", "&#13;"))


def xml_source(template):
    return '<t:transparent xmlns:t="%s">%s</t:transparent>' % (TEMPLATE_NAMESPACE, "".join(_src(n) for n in template))


def _src(n):
    k = n[0]
    if k == "text":
        return _xt(n[1])
    if k == "comment":
        return "<!--%s-->" % n[1]
    if k == "cdata":
        return "<![CDATA[%s]]>" % n[1]
    if k == "slot":
        if n[3] is None:
            return '<t:slot name="%s" default="%s" />' % (n[1], _xa(n[2][1]))
        return '<t:slot name="%s" />' % n[1]
    if k in ("tag", "rtag"):
        name = n[1] or "t:transparent"
        s = "<" + name
        if k == "rtag":
            s += ' t:render="%s"' % n[5]
        later = []
        for (an, nb, kind, val) in n[3]:
            if kind == "pure":
                s += ' %s="%s"' % (an, _xa(val[1]))
            else:
                later.append('<t:attr name="%s">%s</t:attr>' % (an, "".join(_src(c) for c in val[2])))
        return s + ">" + "".join(later) + "".join(_src(c) for c in n[4]) + "</" + name + ">"
    raise AssertionError("not static: %r" % (k,))


# =========================================================================== building real objects

ASYNCISH = ("defer", "ref", "coro")


class Builder:
    """mode 'async': Deferred / coroutine leaves as generated.  mode 'sync': every leaf replaced by its value.
    mode 'marker': fired leaves replaced by their values, unfired ones by an inert marker text naming the leaf that
    has to fire next, failed ones by a failure marker."""

    def __init__(self, run, mode):
        self.run, self.mode = run, mode

    def value(self, node, methods):
        """What a leaf fires with / a coroutine returns for `node` (never directly a Deferred or coroutine)."""
        v = self.build(node, methods)
        if node[0] in ASYNCISH and self.mode == "async":
            return [v]
        return v

    def marker(self, k):
        return "zqM%dq" % k

    def leaf_state(self, ks):
        """For leaves awaited in order: None if all fired fine, else the marker text."""
        run = self.run
        for k in ks:
            if k in run.failed:
                return "zqF%dq" % k
            if k not in run.fired:
                return "zqM%dq" % k
        return None

    def build(self, node, methods):
        run, mode = self.run, self.mode
        k = node[0]
        if k == "text":
            return node[1]
        if k == "bytes":
            return node[1].encode("utf-8")
        if k == "charref":
            return CharRef(node[1])
        if k == "comment":
            return Comment(node[1])
        if k == "cdata":
            return CDATA(node[1])
        if k == "bad":
            if mode == "async":
                return Unsupported()
            return "" if mode == "sync" else "zqU0q"
        if k == "list":
            items = [self.build(c, methods) for c in node[2]]
            if node[1] == "tuple":
                return tuple(items)
            if node[1] == "gen":
                return (x for x in items)
            return items
        if k == "slot":
            return slot(node[1], default=None if node[2] is None else self.build(node[2], methods))
        if k in ("defer", "ref"):
            lk = node[1]
            if mode == "async":
                return run.deferreds[lk]
            if mode == "marker":
                m = self.leaf_state([lk])
                if m is not None:
                    return m
            return self.build(run.g.leaves[lk]["node"], methods)
        if k == "coro":
            if mode == "async":
                return run.coroutine(node[1], lambda: self.value(node[2], methods))
            if mode == "marker":
                m = self.leaf_state(node[1])
                if m is not None:
                    return m
            return self.build(node[2], methods)
        if k in ("tag", "rtag"):
            name = node[1].encode("ascii") if node[2] else node[1]
            attrs = {}
            for (an, nb, kind, val) in node[3]:
                attrs[an.encode("ascii") if nb else an] = self.build(val, methods)
            t = Tag(name, attributes=attrs, children=[self.build(c, methods) for c in node[4]],
                    render=node[5] if k == "rtag" else None)
            if k == "tag" and node[5]:
                t.fillSlots(**{sname: self.build(val, methods) for (sname, klass, val) in node[5]})
            if mode == run.keep_mode:
                run.made.append((node, t))      # the live objects of a tree that is kept and changed between flattenings
            return t
        if k == "element":
            return self.element(node)
        raise AssertionError(k)

    def element(self, node):
        run = self.run
        _, loader_kind, template, methods, eid = node
        if loader_kind == "xml":
            loader = run.xml_loaders.get(eid)
            if loader is None:
                src = xml_source(template)
                try:
                    loader = run.xml_loaders[eid] = XMLString(src)
                except Exception as e:
                    raise AssertionError("harness: template source is not XML: %r (%s)" % (src, e))
        else:
            loader = TagLoader([self.build(c, methods) for c in template])
        table = {}
        for rname, m in methods.items():
            table[rname] = self.render_method(m)
        return DynElement(loader, table)

    def render_method(self, m):
        run, mode = self.run, self.mode

        def act(tag):
            payload = self.build(m["payload"], None)
            a = m["action"]
            if a == "replace":
                r = payload
                if m["payload"][0] in ASYNCISH and mode == "async" and m["style"] != "direct":
                    r = [payload]
                return r
            if a == "append":
                return tag(payload)
            if a == "clear":
                return tag.clear()(payload)
            return tag.fillSlots(**{m["slot"]: payload})

        def method(tag):
            run.sim.probe("renderer_called") if mode == "async" else None
            if m["style"] == "direct" or mode == "sync":
                return act(tag)
            if mode == "marker":
                mk = self.leaf_state(m["gates"])
                return mk if mk is not None else act(tag)
            if m["style"] == "deferred":
                run.sim.probe("renderer_deferred")
                src = run.deferreds[m["gates"][0]]
                d2 = Deferred()

                def ok(res):
                    d2.callback(act(tag))
                    return res

                def bad(f):
                    d2.errback(f)
                    return f
                src.addCallbacks(ok, bad)
                return d2
            run.sim.probe("renderer_coroutine")
            return run.coroutine(m["gates"], lambda: act(tag))
        return method


# =========================================================================== the run

class Run:
    def __init__(self, sim, g, root):
        self.sim, self.g, self.root = sim, g, root
        n = len(g.leaves)
        self.deferreds = [Deferred() for _ in range(n)]
        self.fired = set()
        self.failed = set()
        self.fail_leaf = None
        self.xml_loaders = {}
        self.coros = []
        self.written = []
        self.results = []
        self.in_write = 0
        self.reent_p = 0.0
        self.keep_mode = None   # family keep: the Builder mode whose tree is kept, changed in place and flattened again
        self.made = []          # (description node, live Tag) of that mode

    def coroutine(self, gates, produce):
        run = self

        async def co():
            for k in gates:
                await run.deferreds[k]
            return produce()
        c = co()
        self.coros.append(c)
        return c

    def fire(self, k, how):
        sim = self.sim
        lf = self.g.leaves[k]
        d = self.deferreds[k]
        if k == self.fail_leaf:
            self.failed.add(k)
            sim.event("fail", k, how)
            d.errback(Boom("leaf %d" % k))
            return
        self.fired.add(k)
        sim.event("fire", k, how)
        if lf["node"] is None:
            d.callback(None)
        else:
            d.callback(Builder(self, "async").value(lf["node"], None))

    def unfired(self):
        return [k for k in range(len(self.deferreds)) if k not in self.fired and k not in self.failed]

    def write(self, data):
        sim = self.sim
        sim.check("write-gets-bytes", isinstance(data, bytes), "write", "write() called with %s" % type(data).__name__)
        self.written.append(data)
        if self.reent_p and not self.in_write:
            left = self.unfired()
            if left and sim.draw_bool(self.reent_p, "reent"):
                self.in_write += 1
                try:
                    sim.probe("fired_inside_write")
                    self.fire(sim.draw_choice(left, "reent_leaf"), "inside-write")
                finally:
                    self.in_write -= 1

    def out(self):
        return b"".join(self.written)


def sync_flatten(sim, obj, what):
    res = []
    with sim.guard("reference-flatten-raised", what):
        flattenString(None, obj).addBoth(res.append)
    sim.check("reference-flatten-synchronous", len(res) == 1, what,
              "flattening a tree without Deferreds/coroutines did not finish synchronously")
    r = res[0]
    if isinstance(r, Failure):
        sim.fail("reference-flatten-failed", what, "flattening a tree without asynchronous leaves failed: %s" % _res([r]))
    return r


def run(sim):
    old_buffer = _flatten.BUFFER_SIZE
    state = {"run": None}
    try:
        _run(sim, state)
    finally:
        _flatten.BUFFER_SIZE = old_buffer
        r = state["run"]
        if r is not None:
            for c in r.coros:
                c.close()
            for d in r.deferreds:
                d.addErrback(lambda f: None)


def _run(sim, state):
    shadow = sim.draw_bool(P_SLOT_SHADOW, "family_slot_shadow")
    hazard = sim.draw_bool(P_COMMENT_HAZARD, "family_comment_hazard") and not shadow
    knobs = {
        "xml_clean": not sim.draw_bool(0.3, "xml_unclean"),
        "cdata": sim.draw_bool(0.45, "cdata"),
        "async_w": sim.draw_choice([4, 2, 6, 0], "async_w"),
        "coro_w": sim.draw_choice([2, 0, 5], "coro_w"),
        "share_w": sim.draw_choice([1, 0, 3], "share_w"),
        "nest_w": sim.draw_choice([2, 0, 5], "nest_w"),
        "element_w": sim.draw_choice([2, 0, 5], "element_w"),
        "mixed_p": sim.draw_choice([0.15, 0.0, 0.4], "mixed_p"),
        "slot_p": sim.draw_choice([0.3, 0.0, 0.6], "slot_p"),
        "max_leaves": sim.draw_choice([6, 3, 10], "max_leaves"),
        "prefire_p": sim.draw_choice([0.3, 0.0, 0.7], "prefire_p"),
        "other_w": sim.draw_choice([3, 0, 6], "other_w"),
        "shadow_p": sim.draw_choice([0.3, 0.0, 0.7], "shadow_p"),
        "reent_p": sim.draw_choice([0.0, 0.0, 0.15], "reent_p"),
        "buffer": sim.draw_choice([65536, 1, 7, 64], "buffer"),
        "fault": sim.draw_weighted([("none", 6), ("leaf", 3), ("bad", 1)], "fault"),
        "wide_p": sim.draw_choice([0.15, 0.0, 0.4], "wide_p"),
        "slot_shadow": shadow, "comment_hazard": hazard,
        # family keep: the tree is an object its owner keeps, changes through the public API of Tag and flattens again
        "keep": sim.draw_weighted(KEEP_WEIGHTS, "keep"),
    }
    knobs["bad"] = knobs["fault"] == "bad"
    if knobs["keep"] == "async" and knobs["fault"] != "none":
        knobs["keep"] = "sync"          # a tree with a failed Deferred or an unsupported object in it has no document
    sim.config = dict(knobs)
    g = Gen(sim, knobs)
    # a tree that is flattened more than once holds nothing that can be consumed only once (generators, coroutine objects)
    top = Ctx(reflat=knobs["keep"] != "no")
    root = ("list", "list", g.children(0, top, 1, 4))
    run = Run(sim, g, root)
    state["run"] = run
    if knobs["keep"] != "no":
        run.keep_mode = knobs["keep"]
    run.reent_p = knobs["reent_p"]
    nleaves = len(g.leaves)
    if knobs["fault"] == "leaf" and nleaves:
        run.fail_leaf = sim.draw_int(0, nleaves - 1, "fail_leaf")
    _flatten.BUFFER_SIZE = knobs["buffer"]

    exp = Expect(g)
    expected = mv.merge(exp.items(root, {}, None))
    # leaves reachable only through other leaves are scanned through their owners; gates carry no content
    sim.event("tree", "nodes", g.nodes, "leaves", nleaves, "gates", sum(1 for lf in g.leaves if lf["node"] is None),
              "flags", ",".join(sorted(g.flags)))

    # runs of the two defect-reproducing families report structural failures under the family's own clause
    def structural(clause, kind, detail):
        family = "slot-scope" if "slot-shadow" in g.flags else ("html5-comment-end" if "comment-hazard" in g.flags else None)
        if family is not None:
            sim.fail(family, clause, detail)
        sim.fail(clause, kind, detail)

    # ---- pre-fired leaves
    for k in range(nleaves):
        if sim.draw_bool(knobs["prefire_p"], "prefire"):
            sim.probe("prefired_leaf")
            run.fire(k, "before-start")

    def expectation():
        M = sync_flatten(sim, Builder(run, "marker").build(root, None), "marker")
        m = MARK.search(M)
        if m is None:
            return ("done", M, None)
        kind = m.group(1).decode()
        return ({"M": "wait", "F": "fail", "U": "fail-unsupported"}[kind], M[:m.start()], int(m.group(2)))

    def check_state(status, prefix, after):
        out = run.out()
        n = min(len(out), len(prefix))
        sim.check("output-diverges", out[:n] == prefix[:n], after,
                  lambda: "after %s: written %r..., synchronous document %r..." % (after, _around(out, prefix, n)[0], _around(out, prefix, n)[1]))
        if status == "wait":
            sim.check("fires-only-when-complete", not run.results, after,
                      lambda: "the returned Deferred fired (%s) while a needed leaf is outstanding" % _res(run.results))
            sim.check("flushed-before-suspension", len(out) >= len(prefix), after,
                      lambda: "suspended with %d of the %d bytes that precede the awaited leaf written" % (len(out), len(prefix)))
            sim.check("wrote-past-unfired-leaf", len(out) <= len(prefix), after,
                      lambda: "wrote %d bytes but only %d precede the first unfired leaf: %r" % (len(out), len(prefix), out[len(prefix):][:60]))
        elif status == "done":
            sim.check("completes", len(run.results) >= 1, after, "every needed leaf has fired but the returned Deferred has not")
            sim.check("result-none", run.results[0] is None, after, lambda: "returned Deferred fired with %s" % _res(run.results))
            sim.check("async-equals-sync", out == prefix, after,
                      lambda: "asynchronous output %r..., synchronous %r..." % _around(out, prefix, n))
        else:
            sim.check("failure-reported", len(run.results) >= 1, after, "a needed leaf failed but the returned Deferred has not fired")
            r = run.results[0]
            want = Boom if status == "fail" else UnsupportedType
            sim.check("failure-is-flattener-error", isinstance(r, Failure) and r.check(FlattenerError) is not None
                      and isinstance(r.value.args[0], want), status, lambda: "returned Deferred fired with %s" % _res(run.results))
            sim.check("failure-output-stops-at-leaf", len(out) <= len(prefix), status,
                      lambda: "wrote %d bytes, only %d precede the failing leaf" % (len(out), len(prefix)))
        sim.check("fires-once", len(run.results) <= 1, after, "returned Deferred's callback ran %d times" % len(run.results))

    # ---- start
    tree = Builder(run, "async").build(root, None)
    with sim.guard("flatten-raised", "start"):
        d = flatten(None, tree, run.write)
    sim.check("returns-deferred", isinstance(d, Deferred), "flatten", "got %s" % type(d).__name__)
    d.addBoth(run.results.append)

    suspensions = 0
    others = 0
    status, prefix, awaited = expectation()
    check_state(status, prefix, "start")
    while status == "wait":
        sim.step(80)
        suspensions += 1
        left = [k for k in run.unfired() if k != awaited]
        op = sim.draw_weighted([("awaited", 5), ("other", knobs["other_w"] if left else 0)], "op")
        before = len(run.out())
        if op == "awaited":
            with sim.guard("fire-raised", "awaited"):
                run.fire(awaited, "awaited")
            status, prefix, awaited2 = expectation()
            sim.check("resumes", status != "wait" or awaited2 != awaited, "awaited", "the awaited leaf fired and is still awaited")
            awaited = awaited2
            check_state(status, prefix, "fire-awaited")
        else:
            k = sim.draw_choice(left, "which")
            others += 1
            sim.probe("fired_other_leaf_while_suspended")
            with sim.guard("fire-raised", "other"):
                run.fire(k, "other")
            sim.check("no-output-for-unawaited-leaf", len(run.out()) == before, "other",
                      lambda: "firing leaf %d (not the awaited one) wrote %r" % (k, run.out()[before:][:60]))
            status, prefix, awaited = expectation()
            check_state(status, prefix, "fire-other")
        sim.state((min(nleaves, 6), min(len(run.fired), 6), status, op, knobs["buffer"] == 65536))
    if suspensions:
        sim.probe("suspended")
    final_status = status
    if final_status == "fail":
        sim.fault("needed_leaf_failed")
    elif final_status == "fail-unsupported":
        sim.fault("unsupported_object")
    sim.event("end", final_status, len(run.out()), hashlib.sha256(run.out()).hexdigest()[:12])

    # ---- leaves nobody needed any more: firing them changes nothing
    before = len(run.out())
    for k in run.unfired():
        run.fire(k, "after-end")
    sim.check("fires-once", len(run.results) == 1, "after-end", "returned Deferred's callback ran %d times" % len(run.results))
    sim.check("no-output-after-completion", len(run.out()) == before, "after-end", "output grew after the returned Deferred fired")

    # ---- synchronous document: every Deferred / coroutine replaced by its value
    kept = Builder(run, "sync").build(root, None)
    S = sync_flatten(sim, kept, "sync")
    out = run.out()
    if final_status == "done":
        sim.check("async-equals-sync", out == S, "final", lambda: "asynchronous output %r..., synchronous %r..." % _around(out, S, 0))
    else:
        sim.check("failure-output-is-prefix", S.startswith(out), final_status,
                  lambda: "after the failure %r had been written; fault-free document %r" % (out[-60:], S[:len(out)][-60:]))

    # ---- structural views of the synchronous document (input-sampling part)
    scan = exp.scan
    views(sim, S, expected, scan, structural, "")

    # ---- family keep: the same objects, changed by their owner, flattened again
    if run.keep_mode == "sync" or (run.keep_mode == "async" and final_status == "done"):
        keep_phase(sim, run, g, root, kept if run.keep_mode == "sync" else tree, structural)

    for f in g.flags:
        sim.probe("tree_" + f)
    if any(lf["share"] for lf in g.leaves):
        sim.probe("shareable_leaf")
    sim.nontrivial = bool(suspensions and scan["significant"])


def views(sim, S, expected, scan, structural, pre):
    """The two parse-back views of one document against the expected items; `pre` prefixes the probe names."""
    what = "kept tree, flattened again after its owner's changes: " if pre else ""
    try:
        text = S.decode("utf-8")
    except UnicodeDecodeError as e:
        sim.fail("output-is-utf8", "decode", str(e))
    if scan["mixed"]:
        sim.probe(pre + "markup_valued_attribute")
    if not scan["illegal"] and not scan["comment_dashes"]:
        sim.probe(pre + "xml_view")
        try:
            got = mv.xml_view(S)
        except mv.ViewError as e:
            got = None
            structural("xml-well-formed", "", "%s%s; document %r" % (what, e, S[:300]))
        r = mv.compare(expected, got, "xml")
        if r is not None:
            structural("xml-structure", r[0], "%s%s; document %r" % (what, r[1], S[:300]))
    else:
        sim.probe(pre + "xml_view_not_applicable")
    if scan["text_element"]:
        sim.probe(pre + "text_only_element_with_significant_text")
    if scan["text_element_markup"]:
        sim.probe(pre + "text_only_element_with_markup_children")
    if not scan["cdata"] and not scan["text_element_markup"]:
        sim.probe(pre + "html_view")
        try:
            got = mv.html_view(text)
        except mv.ViewError as e:
            got = None
            structural("html-tokenizes", "", "%s%s; document %r" % (what, e, S[:300]))
        r = mv.compare(expected, got, "html")
        if r is not None:
            structural("html-structure", r[0], "%s%s; document %r" % (what, r[1], S[:300]))
    else:
        sim.probe(pre + "html_view_not_applicable")


# =========================================================================== family keep

def kept_flatten(sim, obj, what):
    """Flatten a kept tree again: nothing in it is outstanding (every Deferred of it has fired), so the document is there at once."""
    res = []
    with sim.guard("kept-flatten-raised", what):
        flattenString(None, obj).addBoth(res.append)
    sim.check("kept-flatten-synchronous", len(res) == 1, what,
              "flattening a tree in which every Deferred has fired did not finish synchronously")
    r = res[0]
    if isinstance(r, Failure):
        sim.fail("kept-flatten-failed", what, "flattening the kept tree again failed: %s" % _res([r]))
    return r


def keep_phase(sim, run, g, root, kept, structural):
    """The tree object that was just flattened is kept by its owner (as a page object, or as the tags behind a TagLoader), changed
    through the public API of Tag - the `attributes` dictionary and the `children` list in place, Tag.__call__, Tag.clear(),
    Tag.fillSlots(), a new dictionary assigned to `attributes` - and flattened again.  Every document is judged by the same
    parse-back views against the tree as it is at that moment (the description is changed alongside the objects)."""
    g.k = dict(g.k, max_leaves=0)           # what the owner puts in is there: no new outstanding leaves
    builder = Builder(run, run.keep_mode)
    sim.event("keep", run.keep_mode, len(g.editable))
    for rnd in range(sim.draw_weighted([(1, 5), (2, 3), (3, 1)], "keep_rounds")):
        nedits = sim.draw_weighted([(0, 1), (1, 5), (2, 3), (3, 1)], "nedits") if g.editable else 0
        for _ in range(nedits):
            node = g.editable[sim.draw_int(0, len(g.editable) - 1, "edit_node")]
            lives = [t for (n, t) in run.made if n is node]
            one_edit(sim, g, builder, node, lives)
        if not nedits:
            sim.probe("kept_flattened_again_unchanged")
        doc = kept_flatten(sim, kept, "round")
        sim.event("reflatten", rnd, nedits, len(doc), hashlib.sha256(doc).hexdigest()[:12])
        exp = Expect(g)
        expected = mv.merge(exp.items(root, {}, None))
        sim.probe("kept_flattened_again")
        views(sim, doc, expected, exp.scan, structural, "kept_")


def one_edit(sim, g, builder, node, lives):
    attrs, kids = node[3], node[4]
    named = node[1] != ""                                   # a transparent tag has no attributes to speak of
    textual = mv.ascii_lower(node[1]) in mv.HTML_TEXT_ELEMENTS
    free = [a for a in ATTRS if a not in [x[0] for x in attrs]]
    op = sim.draw_weighted([("attr-set", 5 if attrs and named else 0),
                            ("attr-add", 3 if named and free and len(attrs) < 4 else 0),
                            ("attr-del", 2 if attrs else 0),
                            ("attr-clear", 1 if attrs else 0),
                            ("child-add", 2 if node[1] not in VOID and len(kids) < 5 else 0),
                            ("child-set", 1 if kids else 0),
                            ("child-del", 1 if kids else 0),
                            ("children-clear", 1 if kids else 0),
                            ("refill", 2 if node[0] == "tag" and node[5] else 0),
                            ("nothing", 1)], "edit")

    def key(name, nb):
        return name.encode("ascii") if nb else name

    if op in ("attr-set", "attr-add"):
        if op == "attr-set":
            i = sim.draw_int(0, len(attrs) - 1, "edit_attr")
            name, nb = attrs[i][0], attrs[i][1]
        else:
            name, nb = sim.draw_choice(free, "edit_attrname"), sim.draw_bool(0.2, "attrbytes")
        kind, val = g.fresh("attr")
        how = sim.draw_choice(["item", "call", "update", "dict"] + (["setdefault"] if op == "attr-add" else []), "edit_how")
        if nb and how == "call":
            how = "item"                                    # keyword arguments are str
        if op == "attr-set":
            attrs[i] = (name, nb, kind, val)
        else:
            attrs.append((name, nb, kind, val))
        for t in lives:
            v = builder.build(val, None)
            if how == "item":
                t.attributes[key(name, nb)] = v
            elif how == "call":
                t(**{name: v})
            elif how == "update":
                t.attributes.update({key(name, nb): v})
            elif how == "setdefault":
                t.attributes.setdefault(key(name, nb), v)
            else:
                d = dict(t.attributes)
                d[key(name, nb)] = v
                t.attributes = d
        sim.probe("edit_attribute_replaced_dictionary" if how == "dict" else
                  ("edit_attribute_by_call" if how == "call" else "edit_attribute_in_place"))
    elif op == "attr-del":
        i = sim.draw_int(0, len(attrs) - 1, "edit_attr")
        name, nb = attrs[i][0], attrs[i][1]
        how = sim.draw_choice(["del", "pop", "dict"], "edit_how")
        del attrs[i]
        for t in lives:
            if how == "del":
                del t.attributes[key(name, nb)]
            elif how == "pop":
                t.attributes.pop(key(name, nb))
            else:
                t.attributes = {k: v for k, v in t.attributes.items() if k != key(name, nb)}
        sim.probe("edit_attribute_replaced_dictionary" if how == "dict" else "edit_attribute_removed_in_place")
    elif op == "attr-clear":
        how = sim.draw_choice(["clear", "dict"], "edit_how")
        del attrs[:]
        for t in lives:
            if how == "clear":
                t.attributes.clear()
            else:
                t.attributes = {}
        sim.probe("edit_attribute_replaced_dictionary" if how == "dict" else "edit_attribute_removed_in_place")
    elif op in ("child-add", "child-set"):
        child = g.fresh("child", textual)
        if op == "child-add":
            pos = len(kids) - sim.draw_int(0, len(kids), "edit_pos")        # 0: at the end
            how = sim.draw_choice(["call", "append"], "edit_how") if pos == len(kids) else "insert"
            kids.insert(pos, child)
        else:
            pos = sim.draw_int(0, len(kids) - 1, "edit_pos")
            how = "set"
            kids[pos] = child
        for t in lives:
            v = builder.build(child, None)
            if how == "call":
                t(v)
            elif how == "append":
                t.children.append(v)
            elif how == "insert":
                t.children.insert(pos, v)
            else:
                t.children[pos] = v
        sim.probe("edit_children_changed")
    elif op == "child-del":
        pos = sim.draw_int(0, len(kids) - 1, "edit_pos")
        del kids[pos]
        for t in lives:
            del t.children[pos]
        sim.probe("edit_children_changed")
    elif op == "children-clear":
        del kids[:]
        for t in lives:
            t.clear()
        sim.probe("edit_children_changed")
    elif op == "refill":
        j = sim.draw_int(0, len(node[5]) - 1, "edit_fill")
        sname, klass, _ = node[5][j]
        val = g.fresh("child", klass == "textual")
        node[5][j] = (sname, klass, val)
        for t in lives:
            t.fillSlots(**{sname: builder.build(val, None)})
        sim.probe("edit_slot_filled_again")
    sim.event("edit", op, len(lives))


def _around(a, b, n):
    i = 0
    m = min(len(a), len(b))
    while i < m and a[i] == b[i]:
        i += 1
    lo = max(0, i - 30)
    return (a[lo:i + 40], b[lo:i + 40])


def _res(results):
    if not results:
        return "nothing"
    r = results[0]
    if isinstance(r, Failure):
        v = r.value
        if isinstance(v, FlattenerError) and v.args:
            v = v.args[0]                      # FlattenerError.__str__ formats its roots (objects of the run): never log it
        try:
            text = "%s: %s" % (type(v).__name__, str(v)[:200])
        except Exception:
            text = type(v).__name__
        return "Failure(%s wrapping %s)" % (r.type.__name__, text) if v is not r.value else "Failure(%s)" % text
    return "%s %r" % (type(r).__name__, r if r is None else str(r)[:60])


MUTANTS = [
    # ---- must-catch of the DESIGN entry
    "_flatten.py keepGoingAsync: result of a Deferred flattened with escapeForContent + the outer write (attribute escaper lost across a Deferred in an attribute value): CAUGHT (output-diverges: id=\"&amp;lt;\" vs id=\"&lt;\")",
    "_flatten.py _flattenTree: flushBuffer() before `await element` removed (buffer not flushed before suspension): CAUGHT (flushed-before-suspension)",
    "_flatten.py Deferred branch: keepGoingAsync(root) instead of keepGoingAsync(_fork(root)) (shared Deferred's result consumed by the first use): CAUGHT (output-diverges / async-equals-sync)",
    "_flatten.py escapedCDATA: `]]>` not split: CAUGHT (xml-well-formed)",
    "_flatten.py escapedComment: `-->` not replaced: CAUGHT (html-structure: text leaks out of the comment)",
    # ---- further mutants
    "_flatten.py writeWithAttributeEscaping: `\"` not escaped: CAUGHT (xml-well-formed / html-structure:attrs)",
    "_flatten.py escapeForContent: `&` not escaped: CAUGHT (xml-well-formed / xml-structure:text)",
    "_flatten.py escapeForContent: `>` not escaped: CAUGHT (xml-well-formed on `]]>` in text)",
    "_flatten.py escapedComment: no blank after a trailing `-`: CAUGHT (xml-well-formed, also inside a markup-valued attribute)",
    "_flatten.py _getSlotValue: outermost frame wins (reversed() dropped): CAUGHT only after adding the nested-shadow family (inner fillSlots re-using an enclosing name); survived before",
    "_flatten.py render branch: renderer gets the template tag itself instead of a clone: CAUGHT (output-diverges)",
    "_flatten.py void-element test dropped (`<div />` for an empty div): CAUGHT only after the HTML view stopped treating `<x />` as an empty element for non-void names (HTML5: the solidus is ignored); survived before",
    "_flatten.py CharRef written in hex without `x`: CAUGHT (xml-well-formed / html-structure:text)",
    "_flatten.py children of a Tag inside an attribute keep the attribute escaper (escaped once instead of twice): CAUGHT (xml/html-structure:attr-markup)",
    "_flatten.py _fork: errback not forwarded: CAUGHT (failure-reported)",
    "_flatten.py flushBuffer: buffer not cleared after a flush: CAUGHT (output-diverges)",
    "_flatten.py escapeForContent: bytes returned unescaped: CAUGHT (xml-well-formed / html-structure:attr-value)",
    "_flatten.py attribute values flattened with escapeForContent as dataEscaper (double escaping): CAUGHT (xml/html-structure:attr-value)",
    "_flatten.py attribute values flattened with the plain write (no attribute escaping at all): CAUGHT (xml-well-formed / html-tokenizes)",
    "_flatten.py coroutine leaf in an attribute loses the attribute escaper: CAUGHT (output-diverges)",
    "_flatten.py final flushBuffer() dropped: CAUGHT (completes / xml-structure:shape - the synchronous reference document is empty too, the parsers and the marker expectation still disagree)",
    "_flatten.py bufferedWrite: at the threshold the newest piece is written directly, bypassing the buffer (reordering): CAUGHT (wrote-past-unfired-leaf / xml-well-formed) thanks to the tape-chosen BUFFER_SIZE",
    "_flatten.py slot value flattened with escapeForContent inside an attribute: CAUGHT (attr-value)",
    "_flatten.py list members inside an attribute lose the attribute writer: CAUGHT (attr-value)",
    "_flatten.py _fork: callback returns None (second use of a shared Deferred sees None): CAUGHT (result-none: UnsupportedType)",
    "_flatten.py flush before await only when the Deferred has already fired: CAUGHT (flushed-before-suspension)",
    "_flatten.py _fork: one forked Deferred cached on the source and handed to every use: CAUGHT (output-diverges)",
    "_flatten.py renderer's clone shares the template's children list: CAUGHT (reference-flatten-failed: the cached XMLString template was mutated)",
    "_flatten.py IRenderable branch: renderFactory not handed to the template: CAUGHT (reference-flatten-failed)",
    "_template_util.py _ToStan.comment: comments dropped: CAUGHT (structure:shape)",
    "_template_util.py _ToStan.endCDATA: CDATA turned into a Comment: CAUGHT (xml-well-formed / shape)",
    "_template_util.py t:slot default attribute ignored: CAUGHT (reference-flatten-failed: UnfilledSlot)",
    "_stan.py Tag.clone: slotData not copied: CAUGHT (reference-flatten-failed: UnfilledSlot)",
    # ---- element-name-dependent behaviour (round 5: names from the wider universe, knob wide_p)
    "_flatten.py Tag branch: children of script/style (any case) written with an escaper that only rewrites `</` (HTML raw-text "
    "'correctness'): CAUGHT only after element names were drawn from the wider universe (xml-well-formed / xml-structure:attr-markup / "
    "html-structure:text); survived before (TAGS had ordinary lower-case names only)",
    "_flatten.py Tag branch: children of title/textarea escaped for `<` only (`&` left alone): CAUGHT (xml-structure:text / html-structure:text)",
    "_flatten.py Tag branch: values of attributes named on* written without attribute escaping: CAUGHT (xml-well-formed / attr-markup)",
    "_flatten.py Tag branch: end tag written in lower case: CAUGHT (xml-well-formed, upper/mixed-case names)",
    # ---- state kept on the tree between flattenings (round 6: family keep)
    "_flatten.py Tag branch: attribute items snapshotted on the Tag at its first flattening (root.__dict__.setdefault): CAUGHT by the keep "
    "family (xml-structure:attrs / html-structure:attrs / attr-value); nothing before flattened one object twice with a change in between",
    "_flatten.py Tag branch: children snapshotted on the Tag at its first flattening: CAUGHT by the keep family (structure:shape / text)",
    "_stan.py Tag.fillSlots: setdefault instead of update (a second fillSlots for a filled name is ignored): CAUGHT by the keep family "
    "(xml-structure:text / shape)",
    "_flatten.py _flattenTree: `stack[-1] = await element; continue` instead of pushing the result: SURVIVES - equivalent (the generator of a "
    "Deferred/coroutine node yields exactly once and ends, so replacing it with the result generator changes nothing)",
]

# Genuine defects of the tree as found, met while building this check; both were repaired in /repo with "fix:" commits (see
# known_findings.json, status fixed) and the two families now run at P_SLOT_SHADOW / P_COMMENT_HAZARD.
FINDINGS = [
    {"signature": "C28:html5-comment-end:*",
     "what": "escapedComment() only rewrites `-->` and a trailing `-`.  An HTML5 tokenizer also ends a comment at `<!-->` and `<!--->` "
             "(abrupt closing of an empty comment, comment start / comment start dash state) and at `--!>` (comment end bang state).  "
             "Comment('><script>alert(1)</script>') flattens to b'<!--><script>alert(1)</script>-->': an empty comment followed by a live "
             "script element; likewise Comment('->...') and Comment('a--!><b>').  The XML view is not affected (those are legal XML comments).",
     "witness_tape": [0, 1, 0, 0, 0, 0, 0, 0, 0, 0, 0, 0, 0, 0, 0, 0, 0, 0, 0, 0, 5, 0, 1],
     "anchor": "src/twisted/web/_flatten.py escapedComment (lines 170-187)",
     "candidate_fix": "data = data.replace(b'-->', b'--&gt;').replace(b'--!>', b'--!&gt;'); if data.startswith((b'>', b'->')): data = b' ' + data"},
    {"signature": "C28:slot-scope:*",
     "what": "_flattenElement pushes a Tag's slotData on the shared slotData list and pops it only in the render branch, so the frame of an "
             "ordinary tag stays on the stack after the tag is finished.  Tag.fillSlots documents 'During the rendering of children of this "
             "node'; yet tags.div(tags.span('i').fillSlots(a='inner'), slot('a')).fillSlots(a='outer') flattens to "
             "b'<div><span>i</span>inner</div>' (expected ...outer...), and [tags.span('i').fillSlots(a='leak'), slot('a')] renders 'leak' "
             "instead of failing with UnfilledSlot.  Not markup injection: the wrong slot value is spliced in.",
     "witness_tape": [1, 0, 0, 0, 0, 0, 0, 0, 0, 0, 0, 0, 0, 0, 0, 0, 0, 0, 0, 0, 4, 0, 0, 0, 0, 1, 0, 0, 0, 0, 1, 0, 1, 0, 4, 0, 0, 0, 0, 1, 0, 0, 1],
     "anchor": "src/twisted/web/_flatten.py _flattenElement, Tag branch (slotData.append at line 300; no pop on lines 316-348)",
     "candidate_fix": "slotData.pop() after `yield keepGoing(root.children)` of a transparent tag and after the end tag / ` />` of an ordinary one"},
]
# Observation outside the statement (no verdict): FlattenerError.__repr__ / __str__ raise TypeError when one of the roots is a Tag whose
# tagName is bytes (web/error.py _formatRoot: "Tag <" + obj.tagName + ">"); this module therefore never formats a FlattenerError.
