"""C01 — Deferred callback chains compute what a sequential interpreter predicts.

Engine E1 (tasks): a pool of 2..6 real Deferreds; the tape interleaves
add-callback (behaviour fixed when added: return value / raise / return Failure /
echo input / return Deferred d_j), pause, unpause and fire operations.  Every
user callback is a recording closure.  Oracle: models/deferred.py, a recursive
interpreter of the documented chaining rules, compared after EVERY operation
(invocation log with inputs, called, pause count, current result or "waiting on
d_j", callbacks not yet run) plus a model-free invariant: at quiescence a fired,
unpaused Deferred has no callbacks left.
"""
from twisted.internet import defer
from twisted.python.failure import Failure

from models.deferred import Interp
from props._defer_util import Boom, absres, real_view

ID = "C01"
ENGINE = "tasks"
LEVEL = "exploration"
TECHNIQUE = ("deterministic simulation: seeded interleaving of add/pause/unpause/fire operations on real Deferreds "
             "vs an independent recursive reference interpreter, compared after every operation")
QUICK_RUNS = 40000
TWIN_P = 0.08   # this share of the runs drives two independent instances of the scenario one after the other (detsim.runner._run_scenario)
BATCH = 500
COMPONENTS = {"real": ["twisted.internet.defer.Deferred (addCallbacks/addCallback/addErrback/addBoth/callback/errback/pause/unpause/_runCallbacks)",
                       "twisted.python.failure.Failure"],
              "stub": ["order in which the program issues its operations (tape)"]}
RULE = ("run = 4..25 tape-chosen operations over 2..6 Deferreds (add callback pair with drawn behaviour, pause, unpause, fire with "
        "value/failure); non-trivial = at least one callback returned a Deferred (take or wait) AND at least 3 user callbacks ran")
ASSUMPTIONS = ["operations are issued from outside callbacks; a callback never returns the Deferred it is attached to",
               "unpause is only issued to match an earlier pause by the program",
               "in half of the runs (config avoid_pause_while_waiting) the program never pauses a Deferred that is currently "
               "waiting on another one (the precondition of the defect with signature C01:stalled-callbacks:outer-user-paused), "
               "so that all other clauses are still checked on full-length runs"]


def run(sim):
    nd = sim.draw_int(2, 6, "ndeferreds")
    nops = sim.draw_choice([4, 6, 10, 16, 20, 25, 25], "nops")
    w_fire = sim.draw_choice([3, 1, 6], "w_fire")
    avoid = sim.draw_bool(0.15, "avoid_pause_while_waiting")
    w_def = sim.draw_choice([4, 2, 7], "w_returns_deferred")
    w_pause = sim.draw_choice([2, 0, 4], "w_pause")
    sim.config = {"ndeferreds": nd, "nops": nops, "avoid_pause_while_waiting": avoid, "w_returns_deferred": w_def, "w_pause": w_pause, "w_fire": w_fire}

    names = ["d%d" % i for i in range(nd)]
    m = Interp()
    real = {}
    for n in names:
        m.new(n)
        d = real[n] = defer.Deferred()
        d.vname = n
    rlog = []                      # real invocation log
    user_paused = dict.fromkeys(names, 0)
    nadded = dict.fromkeys(names, 0)
    st = {"cid": 0, "val": 0}

    def fresh():
        st["val"] += 1
        return st["val"]

    def make(dname, beh):
        """Recording closure with behaviour fixed at creation; returns (fn, spec)."""
        st["cid"] += 1
        cid = st["cid"]
        kind = beh[0]

        def f(res):
            rlog.append((dname, cid, absres(res, None)))
            if kind == "value":
                return beh[1]
            if kind == "raise":
                raise Boom(beh[1])
            if kind == "failure":
                return Failure(Boom(beh[1]))
            if kind == "echo":
                return res
            return real[beh[1]]
        f.cid = cid
        return f, (cid, beh)

    def draw_behaviour(dname):
        kind = sim.draw_weighted([("value", 4), ("raise", 2), ("failure", 1), ("echo", 1), ("deferred", w_def)], "behaviour")
        if kind == "value":
            return ("value", fresh())
        if kind in ("raise", "failure"):
            return (kind, "e%d" % fresh())
        if kind == "echo":
            return ("echo",)
        others = [n for n in names if n != dname]
        return ("deferred", sim.draw_choice(others, "which"))

    def do_add():
        cands = [n for n in names if nadded[n] < 6]
        dname = sim.draw_choice(cands, "on")
        nadded[dname] += 1
        d, md = real[dname], m.ds[dname]
        form = sim.draw_weighted([("callback", 4), ("both", 3), ("errback", 2), ("pair", 2)], "form")
        if md.called:
            sim.probe("added_after_fire")
        if form == "callback":
            f, spec = make(dname, draw_behaviour(dname))
            sim.event("add", dname, "callback", spec)
            m.add(md, spec, None)
            d.addCallback(f)
        elif form == "errback":
            f, spec = make(dname, draw_behaviour(dname))
            sim.event("add", dname, "errback", spec)
            m.add(md, None, spec)
            d.addErrback(f)
        elif form == "both":
            f, spec = make(dname, draw_behaviour(dname))
            sim.event("add", dname, "both", spec)
            m.add(md, spec, spec)
            d.addBoth(f)
        else:
            f, spec = make(dname, draw_behaviour(dname))
            g, gspec = make(dname, draw_behaviour(dname))
            sim.event("add", dname, "pair", spec, gspec)
            m.add(md, spec, gspec)
            d.addCallbacks(f, g)

    def do_pause():
        cands = [n for n in names if user_paused[n] < 2 and not (avoid and m.ds[n].waiting_on is not None)]
        dname = sim.draw_choice(cands, "on")
        user_paused[dname] += 1
        if m.ds[dname].waiting_on is not None:
            sim.fault("pause_while_waiting")
        else:
            sim.fault("pause")
        sim.event("pause", dname)
        m.pause(m.ds[dname])
        real[dname].pause()

    def do_unpause():
        cands = [n for n in names if user_paused[n] > 0]
        dname = sim.draw_choice(cands, "on")
        user_paused[dname] -= 1
        sim.event("unpause", dname)
        m.unpause(m.ds[dname])
        real[dname].unpause()

    def do_fire():
        cands = [n for n in names if not m.ds[n].called]
        dname = sim.draw_choice(cands, "on")
        how = sim.draw_weighted([("callback", 5), ("errback", 3), ("callback-failure", 1)], "how")
        if how == "callback":
            v = fresh()
            sim.event("fire", dname, "callback", v)
            m.fire(m.ds[dname], ("V", v))
            real[dname].callback(v)
        else:
            tag = "e%d" % fresh()
            sim.event("fire", dname, how, tag)
            m.fire(m.ds[dname], ("F", tag))
            if how == "errback":
                real[dname].errback(Boom(tag))
            else:
                real[dname].callback(Failure(Boom(tag)))

    ops = {"add": do_add, "pause": do_pause, "unpause": do_unpause, "fire": do_fire}

    def compare(op):
        # model-free invariant first: nothing is left on a fired, unpaused Deferred
        for n in names:
            d = real[n]
            if d.called and d.paused == 0 and d.callbacks:
                handed_into_paused = any(x[0] == "handover" and x[3] for x in m.notes)
                sim.fail("stalled-callbacks", "outer-user-paused" if handed_into_paused else "other",
                         "%s has a result, pause count 0, yet callbacks %r have not run (model: %r); model notes of this operation: %r"
                         % (n, real_view(d)[3], m.ds[n].view(), m.notes))
        if rlog != m.log:
            k = 0
            while k < len(rlog) and k < len(m.log) and rlog[k] == m.log[k]:
                k += 1
            sim.fail("invocations", op, "first difference at #%d: real %r model %r" % (k, rlog[k:k + 3], m.log[k:k + 3]))
        cids = [e[1] for e in rlog]
        sim.check("runs-at-most-once", len(set(cids)) == len(cids), op, lambda: "callback ids invoked: %r" % (cids,))
        for n in names:
            rv, mv = real_view(real[n]), m.ds[n].view()
            if rv != mv:
                field = ["called", "paused", "result", "pending"][[a == b for a, b in zip(rv, mv)].index(False)]
                sim.fail("state-" + field, op, "%s real %r model %r" % (n, rv, mv))

    with sim.guard("operation-raised"):
        for _ in range(nops):
            sim.step(100)
            enabled = [("add", 8 if any(nadded[n] < 6 for n in names) else 0),
                       ("fire", w_fire if any(not m.ds[n].called for n in names) else 0),
                       ("pause", w_pause if any(user_paused[n] < 2 and not (avoid and m.ds[n].waiting_on is not None) for n in names) else 0),
                       ("unpause", 3 if any(user_paused[n] > 0 for n in names) else 0)]
            if not any(w for _, w in enabled):
                break
            op = sim.draw_weighted(enabled, "op")
            del m.notes[:]
            ops[op]()
            for x in m.notes:
                if x[0] == "handover":
                    sim.probe("handover_outer_still_paused" if x[3] else "handover")
                else:
                    sim.probe(x[0])
            compare(op)
            sim.state(tuple((v[0], min(v[1], 2), v[2][0] if v[2] else "-", min(len(v[3]), 3)) for v in (m.ds[n].view() for n in names[:3])))
    sim.nontrivial = bool((sim.probes.get("take", 0) or sim.probes.get("wait", 0)) and len(rlog) >= 3)


# Sensitivity (tools/mutate.py C01, all in src/twisted/internet/defer.py::_runCallbacks).  Because the unchanged tree
# already violates C01:stalled-callbacks:outer-user-paused, every mutant was applied TOGETHER with the candidate repair
# ("return" -> "chain.pop(); continue" in the `if current.paused:` branch; with the repair alone: 40000 quick runs x 4
# base seeds and 431500 thorough runs, no violation), so that exit 1 is due to the mutant.
MUTANTS = [
    "hand-over does not clear the inner result (drop `current.result = None` after `chainee.result = current.result`): CAUGHT (invocations / state-result)",
    "paused fired Deferred treated as ready (drop `or currentResult.paused`): CAUGHT (invocations / state-result)",
    "continuation decrements pause count twice (`chainee.paused -= 2`): CAUGHT (state-paused / invocations)",
    "`current.callbacks.pop()` instead of `pop(0)`: CAUGHT (invocations / state-pending)",
    "taking a ready result does not clear the donor (`currentResult.result = None` -> pass): CAUGHT (state-result)",
    "continuation inserted at the front of the inner's list (`callbacks.insert(0, ...)`): CAUGHT (invocations)",
    "unfired returned Deferred treated as having a result (drop `resultResult is _NO_RESULT or`): CAUGHT (state-paused)",
]
