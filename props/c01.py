"""C01 — Deferred callback chains compute what a sequential interpreter predicts.

Engine E1 (tasks): a pool of 2..6 real Deferreds; the tape interleaves
add-callback (behaviour fixed when added: return value / raise / return Failure /
echo input / return Deferred d_j), pause, unpause and fire operations.  The
raising behaviour raises either an Exception or (knob) a harness-defined class
that derives from BaseException only.  A share of the callbacks (knob) is
re-entrant: before behaving, the callback itself issues 1..2 of the program's
operations - pause / unpause of any Deferred of the pool (its own included),
fire of a Deferred that has not fired yet, add of a callback to any Deferred
(its own included).  A share of the registrations (knob) carries extra
arguments for the callable, per side of the pair: addCallback/addErrback/addBoth(f, *a, **kw) and the
callbackArgs/callbackKeywords/errbackArgs/errbackKeywords of addCallbacks (spelled by keyword, by position,
only the non-empty ones, or None for the empty ones), values from a two-letter alphabet so that the two sides
agree in part and differ in part; addCallbacks is also used with ONE callable on both sides, each side with
extras of its own.  Every
user callback is a recording closure (it records its input AND the extra arguments it was called with).  Oracle: models/deferred.py, a recursive
interpreter of the documented chaining rules, compared after EVERY operation
(invocation log with inputs, called, pause count, current result or "waiting on
d_j", callbacks not yet run) plus a model-free invariant: at quiescence a fired,
unpaused Deferred has no callbacks left; and no exception raised by a callback
may come out of the program's own add/fire/unpause call.

No verdict (run ends, probe undetermined_midpass_pause_run_ends): the pause
count of a Deferred is raised from inside a callback while that very Deferred is
in the middle of a processing pass, it is not waiting and still has entries
queued.  The documentation of pause() speaks of callbacks "as they are added"
and of firing, not of entries already queued in a pass under way, so the
statement is silent there (the implementation finishes the entries of the
Deferred whose callback is executing but stops a Deferred that is further down
in the chain of hand-overs).
"""
from twisted.internet import defer
from twisted.python.failure import Failure

from models.deferred import Interp, Undetermined
from props._defer_util import Boom, Halt, absres, real_view

ID = "C01"
ENGINE = "tasks"
LEVEL = "exploration"
TECHNIQUE = ("deterministic simulation: seeded interleaving of add/pause/unpause/fire operations on real Deferreds "
             "vs an independent recursive reference interpreter, compared after every operation")
QUICK_RUNS = 40000
TWIN_P = 0.08   # this share of the runs drives two independent instances of the scenario one after the other (detsim.runner._run_scenario)
BATCH = 500
# extra arguments registered with callbacks (module-level knobs)
EXTRAS_P = [0.0, 0.3, 0.6, 0.3]      # per run: share of the registration sides that carry extra arguments
EXTRA_VALUES = ["a", "b"]            # small alphabet, so that the two sides of a pair often agree in part and differ in part
EXTRA_KEYS = ("k", "side")
NO_EXTRAS = ((), ())
COMPONENTS = {"real": ["twisted.internet.defer.Deferred (addCallbacks/addCallback/addErrback/addBoth/callback/errback/pause/unpause/_runCallbacks)",
                       "twisted.python.failure.Failure"],
              "stub": ["order in which the program issues its operations (tape)"]}
RULE = ("run = 4..25 tape-chosen operations over 2..6 Deferreds (add callback pair with drawn behaviour, pause, unpause, fire with "
        "value/failure); in 3 of 4 runs 15 % or 35 % of the callbacks first issue 1..2 operations of their own from inside "
        "(pause/unpause/fire/add on any Deferred of the pool, their own included); in 2 of 3 runs 30 % or 60 % of the raising "
        "callbacks raise a BaseException that is not an Exception; in 3 of 4 runs 30 % or 60 % of the registration sides carry "
        "extra positional/keyword arguments (all add* forms, four spellings of addCallbacks, also one callable on both sides "
        "with different extras per side) which the invocation log records as part of the input; "
        "non-trivial = at least one callback returned a Deferred (take or wait) AND at least 3 user callbacks ran")
ASSUMPTIONS = ["a callback never returns the Deferred it is attached to; callbacks added from inside a callback issue no operations themselves",
               "unpause (from outside or from inside a callback) is only issued to match an earlier pause by the program; fire only on a "
               "Deferred that has not fired",
               "extra arguments are immutable strings and the program hands over a fresh dict per registration (what happens when the "
               "caller later changes a mapping it passed is not asked)",
               "the BaseException raised by callbacks is a harness-defined class (never SystemExit/KeyboardInterrupt/GeneratorExit)",
               "no verdict once a Deferred's pause count was raised in the middle of one of its own processing passes while it is not "
               "waiting and has entries left (documentation silent, see module text): the run ends there",
               "in 15% of the runs (config avoid_pause_while_waiting) the program never pauses a Deferred that is currently "
               "waiting on another one (the precondition of the genuine defect with signature C01:stalled-callbacks:outer-user-paused, "
               "REPAIRED in /repo 3052277; kept for dev-time comparison with a tree without the repair); all other runs let it in"]


def run(sim):
    nd = sim.draw_int(2, 6, "ndeferreds")
    nops = sim.draw_choice([4, 6, 10, 16, 20, 25, 25], "nops")
    w_fire = sim.draw_choice([3, 1, 6], "w_fire")
    avoid = sim.draw_bool(0.15, "avoid_pause_while_waiting")
    w_def = sim.draw_choice([4, 2, 7], "w_returns_deferred")
    w_pause = sim.draw_choice([2, 0, 4], "w_pause")
    # share of the callbacks that operate on the pool from inside (pause / unpause of any Deferred, their own included)
    inner_p = sim.draw_choice([0.0, 0.15, 0.35, 0.15], "inner_ops_p")
    # share of the raising callbacks that raise a BaseException which is not an Exception
    base_p = sim.draw_choice([0.0, 0.3, 0.6], "raise_baseexception_p")
    # share of the registrations that carry extra arguments for the callable (positional and keyword, per side of the pair)
    extras_p = sim.draw_choice(EXTRAS_P, "extra_args_p")
    sim.config = {"ndeferreds": nd, "nops": nops, "avoid_pause_while_waiting": avoid, "w_returns_deferred": w_def, "w_pause": w_pause, "w_fire": w_fire,
                  "inner_ops_p": inner_p, "raise_baseexception_p": base_p, "extra_args_p": extras_p}

    names = ["d%d" % i for i in range(nd)]
    m = Interp(midpass_undetermined=True)
    real = {}
    for n in names:
        m.new(n)
        d = real[n] = defer.Deferred()
        d.vname = n
    rlog = []                      # real invocation log
    user_paused = dict.fromkeys(names, 0)
    nadded = dict.fromkeys(names, 0)
    st = {"cid": 0, "val": 0}

    def fresh():
        st["val"] += 1
        return st["val"]

    def make(dname, beh, acts=(), racts=()):
        """Recording closure with behaviour (and operations it issues from inside) fixed at creation; returns (fn, spec)."""
        st["cid"] += 1
        cid = st["cid"]
        kind = beh[0]

        def f(res, *args, **kw):
            if args or kw:
                # extra arguments handed to the call: part of its input
                sim.probe("ran_with_extra_args_failure_input" if isinstance(res, Failure) else "ran_with_extra_args")
                rlog.append((dname, cid, absres(res, None), (args, tuple(sorted(kw.items())))))
            else:
                rlog.append((dname, cid, absres(res, None)))
            for a in racts:
                # the program's own operations, issued from inside this callback
                act, tname = a[0], a[1]
                where = "_own" if tname == dname else "_other"
                if act == "pause":
                    sim.fault("inner_pause" + where)
                    user_paused[tname] += 1
                    real[tname].pause()
                elif act == "unpause":
                    if user_paused[tname] > 0:
                        sim.fault("inner_unpause" + where)
                        user_paused[tname] -= 1
                        real[tname].unpause()
                elif act == "fire":
                    if not real[tname].called:
                        sim.fault("inner_fire")
                        if a[2][0] == "V":
                            real[tname].callback(a[2][1])
                        else:
                            real[tname].errback(Boom(a[2][1]))
                else:
                    sim.fault("inner_add" + where)
                    register(real[tname], a[2], a[3], a[4], a[5], a[6], a[7])
            if kind == "value":
                return beh[1]
            if kind == "raise":
                if len(beh) > 2:
                    sim.fault("raise_baseexception")
                    raise Halt(beh[1])
                raise Boom(beh[1])
            if kind == "failure":
                return Failure(Boom(beh[1]))
            if kind == "echo":
                return res
            return real[beh[1]]
        f.cid = cid
        return f, ((cid, beh, acts) if acts else (cid, beh))

    def draw_extras():
        """Extra arguments registered with one side of a pair: (positional tuple, sorted keyword items); mostly none."""
        if not (extras_p and sim.draw_bool(extras_p, "extra_args")):
            return NO_EXTRAS
        args = tuple(sim.draw_choice(EXTRA_VALUES, "extra_arg") for _ in range(sim.draw_int(0, 2, "n_extra_args")))
        kw = []
        for key in EXTRA_KEYS:
            v = sim.draw_weighted([(None, 2)] + [(x, 1) for x in EXTRA_VALUES], "extra_kw")
            if v is not None:
                kw.append((key, v))
        if args or kw:
            sim.probe("extra_args_registered")
        return (args, tuple(kw))

    def draw_style(cbex, ebex):
        """How the extras of addCallbacks are spelled (no draw when there are none)."""
        if cbex == NO_EXTRAS and ebex == NO_EXTRAS:
            return "plain"
        return sim.draw_choice(["keyword", "positional", "sparse", "none-for-empty"], "pair_style")

    def with_extras(spec, ex):
        if spec is None or ex == NO_EXTRAS:
            return spec
        return (spec[0], spec[1], spec[2] if len(spec) > 2 else (), ex)

    def register(d, form, f, g, cbex, ebex, style):
        """One registration on the real Deferred, in the drawn spelling of the public API."""
        if form == "callback":
            d.addCallback(f, *cbex[0], **dict(cbex[1]))
        elif form == "errback":
            d.addErrback(g, *ebex[0], **dict(ebex[1]))
        elif form == "both":
            d.addBoth(f, *cbex[0], **dict(cbex[1]))
        elif style == "plain":
            d.addCallbacks(f, g)
        elif style == "keyword":
            d.addCallbacks(f, g, callbackArgs=cbex[0], callbackKeywords=dict(cbex[1]),
                           errbackArgs=ebex[0], errbackKeywords=dict(ebex[1]))
        elif style == "positional":
            d.addCallbacks(f, g, cbex[0], dict(cbex[1]), ebex[0], dict(ebex[1]))
        elif style == "sparse":
            # only what is not empty is passed at all
            given = {}
            if cbex[0]:
                given["callbackArgs"] = cbex[0]
            if cbex[1]:
                given["callbackKeywords"] = dict(cbex[1])
            if ebex[0]:
                given["errbackArgs"] = ebex[0]
            if ebex[1]:
                given["errbackKeywords"] = dict(ebex[1])
            d.addCallbacks(f, g, **given)
        else:
            # the old default of these parameters, still accepted: None for "nothing"
            sim.probe("extras_none_for_empty")
            d.addCallbacks(f, g, cbex[0] or None, dict(cbex[1]) or None, ebex[0] or None, dict(ebex[1]) or None)

    def draw_actions(dname):
        if not (inner_p and sim.draw_bool(inner_p, "inner_ops")):
            return (), ()
        acts, racts = [], []
        for _ in range(sim.draw_int(1, 2, "n_inner")):
            act = sim.draw_weighted([("pause", 3), ("unpause", 2), ("fire", 2), ("add", 2)], "inner_op")
            others = [n for n in names if n != dname]
            if act == "fire":
                # (its own Deferred has fired by the time the callback runs)
                tname = sim.draw_choice(others, "inner_on")
                res = ("F", "e%d" % fresh()) if sim.draw_bool(0.3, "inner_fire_failure") else ("V", fresh())
                acts.append((act, tname, res))
                racts.append((act, tname, res))
                continue
            tname = sim.draw_choice(others, "inner_on") if sim.draw_bool(0.5, "inner_on_other") else dname
            if act == "add":
                form = sim.draw_weighted([("callback", 4), ("both", 3), ("errback", 2)], "inner_form")
                f, spec = make(tname, draw_behaviour(tname))
                # ("both" from inside = the same callable on both sides of addCallbacks, each side with extras of its own)
                cbex = NO_EXTRAS if form == "errback" else draw_extras()
                ebex = NO_EXTRAS if form == "callback" else draw_extras()
                if form == "both":
                    form = "pair"
                    if cbex != ebex:
                        sim.probe("same_callable_pair_sides_differ")
                acts.append((act, tname, None if form == "errback" else with_extras(spec, cbex),
                             None if form == "callback" else with_extras(spec, ebex)))
                racts.append((act, tname, form, f, f, cbex, ebex, draw_style(cbex, ebex) if form == "pair" else "plain"))
            else:
                acts.append((act, tname))
                racts.append((act, tname))
        return tuple(acts), tuple(racts)

    def draw_callback(dname):
        beh = draw_behaviour(dname)
        acts, racts = draw_actions(dname)
        return make(dname, beh, acts, racts)

    def draw_behaviour(dname):
        kind = sim.draw_weighted([("value", 4), ("raise", 2), ("failure", 1), ("echo", 1), ("deferred", w_def)], "behaviour")
        if kind == "value":
            return ("value", fresh())
        if kind == "raise" and base_p and sim.draw_bool(base_p, "baseexception"):
            return ("raise", "h%d" % fresh(), "base")
        if kind in ("raise", "failure"):
            return (kind, "e%d" % fresh())
        if kind == "echo":
            return ("echo",)
        others = [n for n in names if n != dname]
        return ("deferred", sim.draw_choice(others, "which"))

    def do_add():
        cands = [n for n in names if nadded[n] < 6]
        dname = sim.draw_choice(cands, "on")
        nadded[dname] += 1
        d, md = real[dname], m.ds[dname]
        form = sim.draw_weighted([("callback", 4), ("both", 3), ("errback", 2), ("pair", 2), ("pair-same", 1 if extras_p else 0)], "form")
        if md.called:
            sim.probe("added_after_fire")
        if form == "callback":
            f, spec = draw_callback(dname)
            ex = draw_extras()
            spec = with_extras(spec, ex)
            sim.event("add", dname, "callback", spec)
            m.add(md, spec, None)
            register(d, form, f, None, ex, NO_EXTRAS, "plain")
        elif form == "errback":
            f, spec = draw_callback(dname)
            ex = draw_extras()
            spec = with_extras(spec, ex)
            sim.event("add", dname, "errback", spec)
            m.add(md, None, spec)
            register(d, form, None, f, NO_EXTRAS, ex, "plain")
        elif form == "both":
            f, spec = draw_callback(dname)
            ex = draw_extras()
            spec = with_extras(spec, ex)
            sim.event("add", dname, "both", spec)
            m.add(md, spec, spec)
            register(d, form, f, f, ex, ex, "plain")
        else:
            f, spec = draw_callback(dname)
            if form == "pair-same":
                # one callable registered on both sides, each side with extra arguments of its own
                sim.probe("same_callable_pair")
                g, gspec = f, spec
            else:
                g, gspec = draw_callback(dname)
            cbex, ebex = draw_extras(), draw_extras()
            if g is f and cbex != ebex:
                sim.probe("same_callable_pair_sides_differ")
            spec, gspec = with_extras(spec, cbex), with_extras(gspec, ebex)
            style = draw_style(cbex, ebex)
            sim.event("add", dname, form, style, spec, gspec)
            m.add(md, spec, gspec)
            register(d, "pair", f, g, cbex, ebex, style)

    def do_pause():
        cands = [n for n in names if user_paused[n] < 2 and not (avoid and m.ds[n].waiting_on is not None)]
        dname = sim.draw_choice(cands, "on")
        user_paused[dname] += 1
        if m.ds[dname].waiting_on is not None:
            sim.fault("pause_while_waiting")
        else:
            sim.fault("pause")
        sim.event("pause", dname)
        m.pause(m.ds[dname])
        real[dname].pause()

    def do_unpause():
        cands = [n for n in names if user_paused[n] > 0]
        dname = sim.draw_choice(cands, "on")
        user_paused[dname] -= 1
        sim.event("unpause", dname)
        m.unpause(m.ds[dname])
        real[dname].unpause()

    def do_fire():
        cands = [n for n in names if not m.ds[n].called]
        dname = sim.draw_choice(cands, "on")
        how = sim.draw_weighted([("callback", 5), ("errback", 3), ("callback-failure", 1)], "how")
        if how == "callback":
            v = fresh()
            sim.event("fire", dname, "callback", v)
            m.fire(m.ds[dname], ("V", v))
            real[dname].callback(v)
        else:
            tag = "e%d" % fresh()
            sim.event("fire", dname, how, tag)
            m.fire(m.ds[dname], ("F", tag))
            if how == "errback":
                real[dname].errback(Boom(tag))
            else:
                real[dname].callback(Failure(Boom(tag)))

    ops = {"add": do_add, "pause": do_pause, "unpause": do_unpause, "fire": do_fire}

    def compare(op):
        # model-free invariant first: nothing is left on a fired, unpaused Deferred
        for n in names:
            d = real[n]
            if d.called and d.paused == 0 and d.callbacks:
                handed_into_paused = any(x[0] == "handover" and x[3] for x in m.notes)
                sim.fail("stalled-callbacks", "outer-user-paused" if handed_into_paused else "other",
                         "%s has a result, pause count 0, yet callbacks %r have not run (model: %r); model notes of this operation: %r"
                         % (n, real_view(d)[3], m.ds[n].view(), m.notes))
        if rlog != m.log:
            k = 0
            while k < len(rlog) and k < len(m.log) and rlog[k] == m.log[k]:
                k += 1
            sim.fail("invocations", op, "first difference at #%d: real %r model %r" % (k, rlog[k:k + 3], m.log[k:k + 3]))
        cids = [e[1] for e in rlog]
        sim.check("runs-at-most-once", len(set(cids)) == len(cids), op, lambda: "callback ids invoked: %r" % (cids,))
        for n in names:
            rv, mv = real_view(real[n]), m.ds[n].view()
            if rv != mv:
                field = ["called", "paused", "result", "pending"][[a == b for a, b in zip(rv, mv)].index(False)]
                sim.fail("state-" + field, op, "%s real %r model %r" % (n, rv, mv))

    with sim.guard("operation-raised"):
        for _ in range(nops):
            sim.step(100)
            enabled = [("add", 8 if any(nadded[n] < 6 for n in names) else 0),
                       ("fire", w_fire if any(not m.ds[n].called for n in names) else 0),
                       ("pause", w_pause if any(user_paused[n] < 2 and not (avoid and m.ds[n].waiting_on is not None) for n in names) else 0),
                       ("unpause", 3 if any(user_paused[n] > 0 for n in names) else 0)]
            if not any(w for _, w in enabled):
                break
            op = sim.draw_weighted(enabled, "op")
            del m.notes[:]
            try:
                ops[op]()
            except Undetermined:
                # the reference interpreter reached a point the documented rules do not determine (the pause count of a
                # Deferred was raised in the middle of one of its own processing passes, entries left): no verdict on
                # this operation or anything after it - the run ends here
                sim.probe("undetermined_midpass_pause_run_ends")
                break
            except Halt as e:
                sim.fail("operation-raised", "callback-baseexception-escaped",
                         "%s: the exception %s(%r) raised by a callback came out of the program's own call instead of becoming "
                         "the Deferred's failure result" % (op, type(e).__name__, e.args))
            for x in m.notes:
                if x[0] == "handover":
                    sim.probe("handover_outer_still_paused" if x[3] else "handover")
                else:
                    sim.probe(x[0])
            compare(op)
            sim.state(tuple((v[0], min(v[1], 2), v[2][0] if v[2] else "-", min(len(v[3]), 3)) for v in (m.ds[n].view() for n in names[:3])))
    sim.nontrivial = bool((sim.probes.get("take", 0) or sim.probes.get("wait", 0)) and len(rlog) >= 3)


# Sensitivity (tools/mutate.py C01, all in src/twisted/internet/defer.py::_runCallbacks).  Because the tree as first examined
# already violated C01:stalled-callbacks:outer-user-paused (genuine defect, REPAIRED in /repo 3052277), every mutant was applied
# TOGETHER with the repair ("return" -> "chain.pop(); continue" in the `if current.paused:` branch; with the repair alone: 40000
# quick runs x 4 base seeds and 431500 thorough runs, no violation), so that exit 1 is due to the mutant.
MUTANTS = [
    "hand-over does not clear the inner result (drop `current.result = None` after `chainee.result = current.result`): CAUGHT (invocations / state-result)",
    "paused fired Deferred treated as ready (drop `or currentResult.paused`): CAUGHT (invocations / state-result)",
    "continuation decrements pause count twice (`chainee.paused -= 2`): CAUGHT (state-paused / invocations)",
    "`current.callbacks.pop()` instead of `pop(0)`: CAUGHT (invocations / state-pending)",
    "taking a ready result does not clear the donor (`currentResult.result = None` -> pass): CAUGHT (state-result)",
    "continuation inserted at the front of the inner's list (`callbacks.insert(0, ...)`): CAUGHT (invocations)",
    "unfired returned Deferred treated as having a result (drop `resultResult is _NO_RESULT or`): CAUGHT (state-paused)",
    # round 4 (re-entrant callbacks, BaseException raised by callbacks; on the repaired tree)
    "waiting sets the pause count instead of raising it (`current.pause()` -> `current.paused = 1`, seeded): CAUGHT (state-paused) - needs a "
    "callback that pauses its own Deferred and then returns an unfired one",
    "only Exception raised by a callback becomes a Failure (`except BaseException` -> `except Exception`, seeded): CAUGHT "
    "(operation-raised:callback-baseexception-escaped)",
    "no recursion guard (drop `if self._runningCallbacks: return` in _runCallbacks): CAUGHT (invocations / state-result) - needs add/unpause of "
    "the own Deferred from inside a callback",
    "`self._runningCallbacks = True` instead of `current._runningCallbacks = True`: CAUGHT (invocations / stalled-callbacks)",
    "`_runningCallbacks` never reset: CAUGHT (stalled-callbacks)",
    # round 6 (extra arguments per side of the pair)
    "addCallbacks shares one call triple when callable and positional arguments of both sides agree, ignoring the keywords (seeded): "
    "CAUGHT (invocations) - needs one callable on both sides of addCallbacks, different errbackKeywords, and a failure reaching the pair",
    "addCallbacks stores errbackArgs on the success side (`(callback, errbackArgs, callbackKeywords)`): CAUGHT (invocations)",
    "addBoth drops the keywords (`call = (callback, args, {})`): CAUGHT (invocations)",
    "_runCallbacks calls without the keywords (`callback(current.result, *args)`): CAUGHT (invocations)",
    "unpause tests `self.paused > 0` instead of truthiness: survives (equivalent: the count is never negative for matched pause/unpause)",
]
