"""C51 — DirDBM survives a crash at any point.

Engine E6 (fs).  A tape-drawn sequence of set / replace / delete operations on a
real DirDBM (or Shelf) runs in a scratch directory with every mutating call
interposed.  EVERY crash point of the sequence is enumerated (each interposed
call; several torn lengths for each kernel write).  After each crash the
database is reopened (recovery), with a NESTED crash at every crash point of the
recovery, then reopened again, inspected against an in-memory map, and used for
a few more operations.

How the database is opened is a per-run knob: the class constructor or the
module-level dbm-style ``dirdbm.open(file, flag, mode)`` - a writable flag for the
handle the history is written through, any contents-preserving flag (incl. "r")
for the reopens after the crash.  Nothing is written through a handle opened "r".
"""
import os

from twisted.persisted import dirdbm
from twisted.python import filepath

from detsim import fs as simfs

ID = "C51"
ENGINE = "fs"
LEVEL = "fault_enumeration"
TECHNIQUE = "deterministic simulation: crash at every interposed filesystem call (+ torn writes, nested crash during recovery) of seeded DirDBM histories vs in-memory map"
QUICK_RUNS = 2400
BATCH = 10
COMPONENTS = {"real": ["twisted.persisted.dirdbm.DirDBM/Shelf (__init__ recovery, __setitem__, __delitem__, __getitem__, keys)", "twisted.persisted.dirdbm.open (flag/mode variants)", "twisted.python.filepath.FilePath",
                       "the real filesystem under a scratch directory (reads)"],
              "stub": ["process/kernel boundary for mutating calls (detsim.fs interposer: crash points, torn writes, user-space buffer loss)"]}
RULE = ("run = one tape-drawn history of 1..7 set/replace/delete operations over <=4 keys with unique values (0 B..20 KiB) for which every crash point and torn-write "
        "length {0,1,len/2,len-1} is enumerated, each followed by reopen with a nested crash at every recovery crash point, a final reopen, comparison with the model map "
        "and 1-2 further operations; per run the handles are opened through the constructor or through dirdbm.open(file, flag in {-,c,w} for the writer / {-,r,w,c} "
        "for every reopen, mode in {-,666,600}) (after a read-only reopen the further operations go through one more, writable, reopen); non-trivial = history contains a replace or delete and at least one nested recovery crash was exercised")
ASSUMPTIONS = ["process crash (not power loss): data handed to write() and completed renames/removes survive; rename() is atomic",
               "a crash loses everything still in the process's user-space file buffer",
               "one process uses the directory at a time (DirDBM's documented restriction)",
               "dirdbm.open(file, flag, mode): flags None/'r'/'w'/'c' open an existing database keeping its contents (dbm convention; documented as ignored), so a reopen "
               "with any of them is a reopen in the sense of the statement - also 'r': what a read-only handle shows is data.  'n' (always a new database) is not used. "
               "A read-only handle is only read; leftover temporary files ON DISK are not judged after a read-only reopen (only what keys()/values/len() show)"]
LEVEL_TEXT = ("Exhaustive enumeration of crash points (incl. torn writes and nested crashes during recovery) for each sampled operation history; histories are sampled by seed.")

KEYS = [b"a", b"b", b"key/with/slash\nand newline", b"K" * 70]


def run(sim):
    shelf = sim.draw_bool(0.25, "shelf")
    # how the database is opened: the class constructor or the module-level dbm-style open(file, flag, mode).  The
    # handle the history is written through is opened with a writable flag; the reopen after the crash uses any flag
    # that, by dbm convention, opens an EXISTING database keeping its contents ("n" = "always a new, empty database"
    # is left out: the statement is about reopening, not about re-creating).
    writer = reopener = ("ctor", None, None)
    if not shelf:
        writer = _draw_opener(sim, [("ctor", 5), (None, 1), ("c", 1), ("w", 1)], "writer")
        reopener = _draw_opener(sim, [("ctor", 5), (None, 1), ("r", 2), ("w", 1), ("c", 1)], "reopener")
    nkeys = sim.draw_int(1, 4, "nkeys")
    nops = sim.draw_int(1, 7, "nops")
    nchunks = sim.draw_choice([1, 2, 3, 6], "nchunks")
    ops = []
    present = set()
    counter = 0
    maxlen = 0
    for _ in range(nops):
        k = KEYS[sim.draw_int(0, nkeys - 1, "key")]
        if k in present and sim.draw_bool(0.3, "delete"):
            ops.append(("del", k, None))
            present.discard(k)
        else:
            counter += 1
            size = sim.draw_choice([3, 0, 40, 700, 5000, 20000], "size")
            v = (b"v%d:" % counter) + sim.draw_blob(size)[:size]
            if shelf:
                v = (counter, v)
            elif sim.draw_bool(0.15, "empty_value"):
                v = b""   # a zero-length value is a legal value (and a zero-length file on disk)
            ops.append(("set", k, v))
            present.add(k)
            maxlen = max(maxlen, size)
    bufsize = 8192 if nchunks == 1 else max(8, -(-(maxlen + 100) // nchunks))
    extra = []
    for _ in range(sim.draw_int(1, 2, "nextra")):
        counter += 1
        k = KEYS[sim.draw_int(0, nkeys - 1, "key")]
        extra.append(("set", k, (counter, b"x%d" % counter) if shelf else b"x%d" % counter))
    sim.config = {"shelf": shelf, "writer": _opener_name(writer), "reopener": _opener_name(reopener), "nkeys": nkeys, "ops": [(o, KEYS.index(k), None if v is None else (len(v[1]) if shelf else len(v))) for o, k, v in ops], "bufsize": bufsize}
    sim.event("history", " ".join("%s%d" % (o, KEYS.index(k)) for o, k, v in ops), "shelf" if shelf else "dirdbm", "buf", bufsize, "writer", _opener_name(writer), "reopener", _opener_name(reopener))
    F = simfs.FS(sim, bufsize=bufsize)
    bindings = [(filepath, "os", "os"), (filepath, "open", "open"), (dirdbm, "os", "os"), (dirdbm, "_open", "open")]
    try:
        with simfs.Installed(F, bindings):
            _enumerate(sim, F, shelf, ops, extra, writer, reopener)
    finally:
        F.destroy()


MODES = [None, 0o666, 0o600]


def _draw_opener(sim, flags, label):
    flag = sim.draw_weighted(flags, label)
    if flag == "ctor":
        return ("ctor", None, None)
    return ("open", flag, sim.draw_choice(MODES, label + "_mode"))


def _opener_name(opener):
    how, flag, mode = opener
    if how == "ctor":
        return "ctor"
    return "open(%s,%s)" % (flag or "-", "-" if mode is None else "%o" % mode)


def _make_opener(sim, shelf, opener, role):
    """-> (callable(path) -> database, read_only)"""
    how, flag, mode = opener
    if how == "ctor":
        return (dirdbm.Shelf if shelf else dirdbm.DirDBM), False

    def via_open(path):
        sim.probe(role + "_via_open")
        if flag == "r":
            sim.probe(role + "_read_only")
        if flag is None and mode is None:
            return dirdbm.open(path)
        if mode is None:
            return dirdbm.open(path, flag)
        return dirdbm.open(path, flag, mode)
    return via_open, flag == "r"


def _apply_model(m, op):
    o, k, v = op
    if o == "set":
        m[k] = v
    else:
        m.pop(k, None)


def _enumerate(sim, F, shelf, ops, extra, writer, reopener):
    cls, _ = _make_opener(sim, shelf, writer, "writer")           # handles the history is written through
    reopen, read_only = _make_opener(sim, shelf, reopener, "reopen")  # every reopen after a crash
    d = os.path.join(F.root, "db")

    def wipe():
        F.reboot()
        if os.path.isdir(d):
            for n in os.listdir(d):
                os.remove(os.path.join(d, n))
            os.rmdir(d)

    def apply_real(db, op):
        o, k, v = op
        if o == "set":
            db[k] = v
        else:
            del db[k]

    def restore(snap):
        F.reboot()
        for n in os.listdir(d):
            os.remove(os.path.join(d, n))
        for n, content in snap.items():
            with open(os.path.join(d, n), "wb") as f:
                f.write(content)

    def inspect(db, allowed, wit, ctx):
        """allowed: {key: set of acceptable values (None = absent)}"""
        try:
            keys = db.keys()
        except Exception as e:
            sim.fail("keys-raised", wit, "%s keys() raised %s: %s" % (ctx, type(e).__name__, str(e)[:120]))
        sim.check("keys-unique", len(keys) == len(set(keys)), wit, "%s keys() has duplicates" % ctx)
        stray = sorted(k for k in keys if k not in allowed)
        sim.check("no-stray-key", not stray, wit, lambda: "%s stray names visible as keys: %r; files=%r" % (ctx, stray[:3], sorted(os.listdir(d))))
        for k, ok in sorted(allowed.items()):
            if k in keys:
                try:
                    got = db[k]
                except Exception as e:
                    sim.fail("get-raised", wit, "%s db[%r] raised %s though listed in keys()" % (ctx, k[:8], type(e).__name__))
            else:
                got = None
            sim.check("value-of-last-completed-op", got in ok, wit,
                      lambda: "%s key %r holds %s; acceptable: %s" % (ctx, k[:8], _d(got), [_d(x) for x in ok]))
        sim.check("len-matches", len(db) == len(keys), wit, "%s len()=%d keys=%d" % (ctx, len(db), len(keys)))

    universe = sorted(set(k for _, k, _ in ops) | set(k for _, k, _ in extra))

    # crash-free run: count crash points, remember which op each belongs to, check the model after every op
    wipe()
    F.arm()
    with sim.guard("crash-free-raised"):
        db = cls(d)
    base = F.n
    model = {}
    owner = []  # crash point index -> op index
    for j, op in enumerate(ops):
        before = F.n
        with sim.guard("crash-free-raised"):
            apply_real(db, op)
        _apply_model(model, op)
        owner.extend([j] * (F.n - before))
        inspect(db, {k: {model.get(k)} for k in universe}, "crash-free", "after op %d" % j)
    plan = list(F.log)[base:]
    npoints = len(plan)
    sim.event("points", npoints, " ".join(p[1] for p in plan))
    sim.check("has-crash-points", npoints >= 1, "", "no mutating call seen")
    nested_done = 0
    for idx, (n, opname, rel, size) in enumerate(plan):
        j = owner[idx]
        torns = [0]
        if opname == "write" and size:
            torns = [t for t in sorted(set([0, 1, size // 2, size - 1])) if 0 <= t < size]
        m_old = {}
        for op in ops[:j]:
            _apply_model(m_old, op)
        m_new = dict(m_old)
        _apply_model(m_new, ops[j])
        ik = ops[j][1]
        allowed = {k: {m_old.get(k)} for k in universe}
        allowed[ik] = {m_old.get(ik), m_new.get(ik)}
        wit = "%s@%s" % ("replace" if (ops[j][0] == "set" and ik in m_old) else ops[j][0], opname)
        for torn in torns:
            wipe()
            F.arm()
            db = cls(d)
            F.arm(crash_at=n - base, torn=torn)
            crashed = False
            try:
                for op in ops:
                    apply_real(db, op)
            except simfs.SimCrash:
                crashed = True
            sim.check("crash-fired", crashed, "", "crash point %d did not fire" % n)
            sim.fault("crash@" + opname)
            if torn:
                sim.fault("torn_write")
            F.reboot()
            snap = simfs.snapshot(d)
            # recovery, crash-free first (counts the recovery's crash points)
            F.arm()
            with sim.guard("recovery-raised", wit):
                db2 = reopen(d)
            rpoints = F.n
            rplan = list(F.log)
            ctx = "crash at %d/%d (%s %s torn=%d) in op %d" % (n - base, npoints, opname, rel, torn, j)
            inspect(db2, allowed, wit, ctx + ", after recovery:")
            # nested crash at every crash point of the recovery
            for r in range(1, rpoints + 1):
                restore(snap)
                F.arm(crash_at=r)
                try:
                    reopen(d)
                    sim.fail("crash-fired", "", "nested crash point %d did not fire" % r)
                except simfs.SimCrash:
                    pass
                sim.fault("nested_crash@" + rplan[r - 1][1])
                nested_done += 1
                F.reboot()
                F.arm()
                with sim.guard("recovery-raised", wit + "+nested"):
                    db3 = reopen(d)
                inspect(db3, allowed, wit + "+nested", ctx + ", nested crash at recovery point %d (%s), after 2nd recovery:" % (r, rplan[r - 1][1]))
                db2 = db3
            # life goes on: further operations on the recovered database behave like a map
            if read_only:
                # nothing is written through a handle that was opened for reading only
                with sim.guard("recovery-raised", wit):
                    db2 = cls(d)
                inspect(db2, allowed, wit, ctx + ", writable reopen after the read-only one:")
            cur = {}
            for k in universe:
                v = db2[k] if k in db2.keys() else None
                if v is not None:
                    cur[k] = v
            for op in extra:
                with sim.guard("post-recovery-op-raised", wit):
                    apply_real(db2, op)
                _apply_model(cur, op)
            F.reboot()
            with sim.guard("recovery-raised", wit):
                db4 = reopen(d)
            inspect(db4, {k: {cur.get(k)} for k in universe}, wit, ctx + ", after further ops and reopen:")
            leftovers = [x for x in sorted(os.listdir(d)) if x.endswith(".new") or x.endswith(".rpl")]
            # (a reopen for reading only promises what is visible as data, not what is on disk)
            sim.check("no-temp-after-recovery", read_only or not leftovers, wit, "%s temporaries left after recovery: %r" % (ctx, leftovers))
            sim.step(1000000)
    kinds = set((o, k in [kk for oo, kk, vv in ops[:i]]) for i, (o, k, v) in enumerate(ops))
    sim.nontrivial = nested_done > 0 and any(o == "del" or seen for o, seen in kinds)
    sim.state((shelf, len(ops), npoints > 8))


def _d(x):
    if x is None:
        return "<absent>"
    if isinstance(x, tuple):
        return "(%r, <%d bytes>)" % (x[0], len(x[1]))
    return "<%d bytes %r>" % (len(x), bytes(x[:8]))


MUTANTS = [
    "seeded C51-r4b: dirdbm.open(file, 'r') skips the recovery in DirDBM.__init__ -> caught quick (get-raised:set@write, get-raised:set@rename) via the reopener knob",
    "dirdbm.open() builds the DirDBM without running __init__'s recovery (any flag) -> caught quick (get-raised:set@write / set@rename)",
    "dirdbm.open(file, 'w') returns a Shelf when a .new file is left behind (wrong class for a flag) -> caught quick (value-of-last-completed-op:set@write)",
    "earlier rounds (see DESIGN 12): .new value kept when empty; empty .rpl dropped; .rpl kept after delete; only-entry .rpl skips recovery -> all caught quick",
]
