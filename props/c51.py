"""C51 — DirDBM survives a crash at any point.

Engine E6 (fs).  A tape-drawn sequence of set / replace / delete operations on a
real DirDBM (or Shelf) runs in a scratch directory with every mutating call
interposed.  EVERY crash point of the sequence is enumerated (each interposed
call; several torn lengths for each kernel write).  After each crash the
database is reopened (recovery), with a NESTED crash at every crash point of the
recovery, then reopened again, inspected against an in-memory map, and used for
a few more operations.

How the database is opened is a per-run knob: the class constructor or the
module-level dbm-style ``dirdbm.open(file, flag, mode)`` - a writable flag for the
handle the history is written through, any contents-preserving flag (incl. "r")
for the reopens after the crash.  Nothing is written through a handle opened "r".

Two more families ride on the same enumeration.  REFUSED CALLS: each interposed call
of the history is, in turn, refused with an OSError (errno is a per-run knob) instead
of killing the process - the process lives on, so whatever the operation does on
failure (its exception handlers) really runs; the operation did not complete, the
process ends, and the reopened database must show old-or-new like after a crash.  In
some runs every call of the recovery is refused in the same way (the reopen may
fail; the next reopen is judged).  COPY: in some runs the database the history
produced is copied with the public copyTo() to a second database (absent, empty, or
holding entries under shared and other keys); every crash point / torn length /
refused call of the copy is enumerated and the DESTINATION is judged like any other
database ("cleared first", then filled: after recovery either every key holds what
the destination held before or nothing, or every key holds the source's value or
nothing); the source must be unchanged.

KEYS are drawn per run from a pool that covers every kind of character an entry's
file name can consist of (both non-alphanumeric base64 symbols, padded / unpadded,
multi-line, NUL and high bytes).  WHAT A REFUSED CALL RAISES is a per-run knob:
OSError(errno) or an interruption that is not an Exception (KeyboardInterrupt, an
application's own BaseException) arriving at that call.  LIVING ON: in half of the
runs the process whose operation failed does not end at once but performs 1-2
further operations through the same handle (mostly a delete of the failed
operation's key) and then ends; after the reopen every key must hold the value of
its last COMPLETED operation (the failed one counts as old-or-new).

FINDINGS (genuine defects these families exposed): (1) b"" as a key replaced the
database directory by a file - repaired in /repo 5a68187, the empty key is now one
of the run's keys in 15% of the runs; (2) a database directory with "[" in its name
was never recovered (glob pattern) - repaired in /repo 5a68187, such names are now
drawn in 15% of the runs; (3) KNOWN FINDING, not repaired: a set that fails at its
remove-old/rename step leaves a complete k.rpl behind, and a later completed delete
of k is undone by the next reopen (the deleted key is back, holding the failed
set's value).  Its precondition - a delete of the failed key issued on the live
handle after such a failure - is let in in 5% of the runs only (last draw of the
run), and every verdict after such a delete is reported under the dedicated clause
stale-replacement-after-failed-commit with the ordinary clause:witness as witness.
"""
import base64
import errno
import os

from twisted.persisted import dirdbm
from twisted.python import filepath

from detsim import fs as simfs

ID = "C51"
ENGINE = "fs"
LEVEL = "fault_enumeration"
TECHNIQUE = "deterministic simulation: crash at every interposed filesystem call (+ torn writes, nested crash during recovery; each call also refused with OSError in a process that lives on; copyTo() as one more operation) of seeded DirDBM histories vs in-memory map"
QUICK_RUNS = 1400
BATCH = 10
COMPONENTS = {"real": ["twisted.persisted.dirdbm.DirDBM/Shelf (__init__ recovery, __setitem__, __delitem__, __getitem__, keys, copyTo/clear)", "twisted.persisted.dirdbm.open (flag/mode variants)", "twisted.python.filepath.FilePath",
                       "the real filesystem under a scratch directory (reads)"],
              "stub": ["process/kernel boundary for mutating calls (detsim.fs interposer: crash points, torn writes, user-space buffer loss, one call refused with a drawn errno)"]}
RULE = ("run = one tape-drawn history of 1..7 set/replace/delete operations over <=4 keys (drawn from a pool of 10 that covers every class of file-name character the key encoding produces) with unique values (0 B..20 KiB) for which every crash point and torn-write "
        "length {0,1,len/2,len-1} is enumerated, each followed by reopen with a nested crash at every recovery crash point, a final reopen, comparison with the model map "
        "and 1-2 further operations; per run the handles are opened through the constructor or through dirdbm.open(file, flag in {-,c,w} for the writer / {-,r,w,c} "
        "for every reopen, mode in {-,666,600}) (after a read-only reopen the further operations go through one more, writable, reopen); every call of the history is also refused once with OSError (errno drawn per run "
        "from EIO/EACCES/ENOSPC/EBUSY) or, in 40% of the runs, interrupted by a non-Exception BaseException (KeyboardInterrupt / an own class) raised in place of the call "
        "(the process lives on, the failed operation's own clean-up runs, then reopen and the same old-or-new verdict; in 50% of the runs a second pass lets the process live on "
        "for 1-2 more operations through the same handle - delete/set of the failed key or another - before the reopen, judged by last-completed-operation), in 35% of the runs every "
        "call of each recovery too; in 15% of the runs one key is b'' and in 15% the directory name holds glob metacharacters; in 5% of the runs (last draw) a delete of the key of a set that "
        "failed after its value was written is issued on the live handle (known finding; verdicts after it carry the clause stale-replacement-after-failed-commit); in 30% of the runs the final database is copied with copyTo() to a second database (absent / empty / 1-3 entries under drawn keys) with every "
        "crash point, torn length and refused call of the copy enumerated, the destination judged after recovery (nested crashes included) against {clearing under way, filling "
        "under way} and the source against the model; non-trivial = history contains a replace or delete and at least one nested recovery crash was exercised")
ASSUMPTIONS = ["process crash (not power loss): data handed to write() and completed renames/removes survive; rename() is atomic",
               "a crash loses everything still in the process's user-space file buffer",
               "one process uses the directory at a time (DirDBM's documented restriction)",
               "dirdbm.open(file, flag, mode): flags None/'r'/'w'/'c' open an existing database keeping its contents (dbm convention; documented as ignored), so a reopen "
               "with any of them is a reopen in the sense of the statement - also 'r': what a read-only handle shows is data.  'n' (always a new database) is not used. "
               "A read-only handle is only read; leftover temporary files ON DISK are not judged after a read-only reopen (only what keys()/values/len() show)",
               "refused call: ONE interposed call raises OSError(errno) and has no effect; the process then ends normally after the failed operation (no further operations on "
               "the live handle, which is not judged - the statement speaks about what a reopen yields).  A refused call is at least as benign as a crash at the same call, so "
               "the crash verdict (old-or-new for the operation's key, nothing else touched, no partial value, no temporary after recovery) applies.  EXDEV is not drawn",
               "interruption: a BaseException that is not an Exception (KeyboardInterrupt, an application's own class) may surface at any interposed call, which then does not "
               "happen; the operation did not complete.  Same verdict as for a refused call",
               "living on: after an operation failed (raised), the process may go on using the handle.  Operations that return normally are completed operations in the sense of the "
               "statement (their key holds exactly their value after the reopen); operations that raise (a delete of a key the handle does not see raises KeyError) are not, and widen "
               "their key's acceptable set by their own outcome.  Nothing is demanded of what the live handle shows after a failure, and no continuation operation is required to succeed. "
               "The continuation itself is fault-free and the process then ends (equivalently: crashes between operations)",
               "b\"\" is a legal key and a directory name with glob metacharacters a legal database name (both drawn in 15% of the runs since the defects they exposed were repaired in /repo 5a68187)",
               "a delete of the failed key after a set that failed past its last write (at remove-old / rename) is issued in 5% of the runs only (known finding, not repaired: removing the "
               "temporary on a failed rename can delete the only copy, cf. seed C51-r5a); in the other runs that one continuation operation is skipped.  Verdicts after such a delete carry "
               "the clause stale-replacement-after-failed-commit",
               "copyTo(path) is documented as clearing an existing destination first and then copying the contents: it performs deletes, then sets, on the destination "
               "database, in an unspecified key order.  So after a crash during the copy the destination is acceptable iff it is a state of the clearing phase (every key: its "
               "previous value or absent) or of the filling phase (every key: the source's value or absent); nothing is demanded about how far the copy got"]
LEVEL_TEXT = ("Exhaustive enumeration of crash points (incl. torn writes and nested crashes during recovery) for each sampled operation history; histories are sampled by seed.  Likewise every single refused call of the history (and, in a share of runs, of the recovery) and every crash point / refused call of a copyTo() of the result.")

# keys: any bytes are legal.  The pool covers every kind of character an entry's file name can be made of (the names are
# derived from the key bytes by a base64-style encoding): plain letters/digits, padded and unpadded lengths, the two
# non-alphanumeric symbols of the base64 alphabet (value 62: b"\xfb\xef", b"~~~"; value 63: b"ab?", b"\xff\xff\xfe"), a
# name longer than one encoded line (70 bytes), NUL and high bytes.  Each run draws its 1-4 keys from the pool.
KEY_POOL = [b"a", b"b", b"key/with/slash\nand newline", b"K" * 70, b"ab?", b"\xfb\xef", b"abc", b"\xff\xff\xfe", b"\x00", b"~~~"]
ERRNOS = [errno.EIO, errno.EACCES, errno.ENOSPC, errno.EBUSY]   # (not EXDEV: a rename inside one directory never crosses devices)
COPY_P = 0.3


class Interrupted(BaseException):
    """an application's own asynchronous interruption (like KeyboardInterrupt: not an Exception)"""


# what a refused call raises: OSError(errno), or an interruption that is NOT an Exception (Ctrl-C / a signal handler's
# exception arriving at that call); the call does not happen
INTERRUPTS = [KeyboardInterrupt, Interrupted]
_FAILED = (Exception, KeyboardInterrupt, Interrupted)   # what a failed (not crashed) operation may raise
LIVE_ON_P = 0.5

# ---- families that exposed genuine defects (see FINDINGS in the docstring)
EMPTY_KEY_P = 0.15       # FINDING 1 (repaired in /repo 5a68187): b"" as one of the run's keys
GLOB_DIRNAME_P = 0.15    # FINDING 2 (repaired in /repo 5a68187): a database directory whose name holds glob metacharacters
# FINDING 3 (KNOWN FINDING, not repaired, listed in known_findings.json): a completed delete of the key of a set that failed AFTER its value was written
# (at remove-old / rename).  Its precondition is let in only in this share of the runs (last draw of the run; 0 = off);
# everything judged after such a delete is reported under STALE_CLAUSE, so that the known-finding prefix
# C51:stale-replacement-after-failed-commit:* covers the family and nothing else
STALE_DELETE_P = 0.05
STALE_CLAUSE = "stale-replacement-after-failed-commit"
GLOB_DIRNAMES = ["db[1]", "d*b", "db?", "[db]"]


def run(sim):
    shelf = sim.draw_bool(0.25, "shelf")
    # how the database is opened: the class constructor or the module-level dbm-style open(file, flag, mode).  The
    # handle the history is written through is opened with a writable flag; the reopen after the crash uses any flag
    # that, by dbm convention, opens an EXISTING database keeping its contents ("n" = "always a new, empty database"
    # is left out: the statement is about reopening, not about re-creating).
    writer = reopener = ("ctor", None, None)
    if not shelf:
        writer = _draw_opener(sim, [("ctor", 5), (None, 1), ("c", 1), ("w", 1)], "writer")
        reopener = _draw_opener(sim, [("ctor", 5), (None, 1), ("r", 2), ("w", 1), ("c", 1)], "reopener")
    nkeys = sim.draw_int(1, 4, "nkeys")
    KEYS = []   # this run's keys (all draws 0: the first nkeys of the pool)
    for _ in range(nkeys):
        i = sim.draw_int(0, len(KEY_POOL) - 1, "key_pick")
        while KEY_POOL[i] in KEYS:
            i = (i + 1) % len(KEY_POOL)
        KEYS.append(KEY_POOL[i])
    if EMPTY_KEY_P and sim.draw_bool(EMPTY_KEY_P, "empty_key"):
        KEYS[-1] = b""
    for k in KEYS:
        # which kinds of file-name characters the run's keys need (standard base64 of the key; independent of the code under test)
        e = base64.b64encode(k)
        for ch, name in ((b"/", "key_b64_63"), (b"+", "key_b64_62"), (b"=", "key_padded")):
            if ch in e:
                sim.probe(name)
        if len(k) > 57:
            sim.probe("key_multi_line")
    dbname = "db"
    if GLOB_DIRNAME_P and sim.draw_bool(GLOB_DIRNAME_P, "glob_dirname"):
        dbname = sim.draw_choice(GLOB_DIRNAMES, "dirname")
    nops = sim.draw_int(1, 7, "nops")
    nchunks = sim.draw_choice([1, 2, 3, 6], "nchunks")
    ops = []
    present = set()
    counter = 0
    maxlen = 0
    for _ in range(nops):
        k = KEYS[sim.draw_int(0, nkeys - 1, "key")]
        if k in present and sim.draw_bool(0.3, "delete"):
            ops.append(("del", k, None))
            present.discard(k)
        else:
            counter += 1
            size = sim.draw_choice([3, 0, 40, 700, 5000, 20000], "size")
            v = (b"v%d:" % counter) + sim.draw_blob(size)[:size]
            if shelf:
                v = (counter, v)
            elif sim.draw_bool(0.15, "empty_value"):
                v = b""   # a zero-length value is a legal value (and a zero-length file on disk)
            ops.append(("set", k, v))
            present.add(k)
            maxlen = max(maxlen, size)
    bufsize = 8192 if nchunks == 1 else max(8, -(-(maxlen + 100) // nchunks))
    extra = []
    for _ in range(sim.draw_int(1, 2, "nextra")):
        counter += 1
        k = KEYS[sim.draw_int(0, nkeys - 1, "key")]
        extra.append(("set", k, (counter, b"x%d" % counter) if shelf else b"x%d" % counter))
    # a refused call (OSError from one interposed call; the process lives on, the operation's failure path runs, then the
    # process ends and the database is reopened) is injected at every call of the history - with which errno is a knob;
    # in some runs also at every call of the recovery
    err = sim.draw_choice(ERRNOS, "errno")
    rec_errno = sim.draw_bool(0.35, "recovery_errno")
    # ... and what the refused call raises: OSError(errno) or an interruption that is not an Exception
    exc = None
    if sim.draw_weighted([("oserror", 3), ("interrupt", 2)], "refusal_kind") == "interrupt":
        exc = sim.draw_choice(INTERRUPTS, "interrupt_class")
    # LIVING ON: in some runs the process whose operation failed goes on using the same handle for 1-2 more operations
    # (on the failed operation's key or another one) before it ends and the database is reopened
    cont = []
    if sim.draw_bool(LIVE_ON_P, "live_on"):
        for _ in range(sim.draw_int(1, 2, "ncont")):
            what = sim.draw_weighted([("del-same", 3), ("set-same", 1), ("del-other", 1), ("set-other", 1)], "cont")
            counter += 1
            cont.append((what, KEYS[sim.draw_int(0, nkeys - 1, "key")], (counter, b"c%d" % counter) if shelf else b"c%d" % counter))
    # copyTo(): in some runs the database the history produced is copied to a second database (absent / empty / holding
    # entries under shared and other keys) with every crash point of the copy enumerated
    copy = None
    if sim.draw_bool(COPY_P, "copy"):
        dest_kind = sim.draw_weighted([("filled", 4), ("absent", 1), ("empty", 1)], "copy_dest")
        prepop = []
        if dest_kind == "filled":
            for k in sim.draw_perm(KEY_POOL[:4] + [k for k in KEYS if k not in KEY_POOL[:4]])[:sim.draw_int(1, 3, "copy_dest_keys")]:
                counter += 1
                size = sim.draw_choice([3, 40, 700, 5000], "copy_dest_size")
                v = (b"p%d:" % counter) + sim.draw_blob(size)[:size]
                prepop.append((k, (counter, v) if shelf else v))
        copy = (dest_kind, prepop)
    # (last draw; 0 = off) the share of runs in which the precondition of the KNOWN FINDING is let in
    stale = sim.draw_bool(STALE_DELETE_P, "delete_after_failed_commit")
    refusal = "oserror" if exc is None else exc.__name__
    sim.config = {"errno": err, "refusal": refusal, "recovery_errno": rec_errno, "live_on": [[w, _kid(k)] for w, k, v in cont], "keys": [_kid(k) for k in KEYS], "dbname": dbname, "delete_after_failed_commit": stale,
                  "copy": None if copy is None else [copy[0], [_kid(k) for k, v in copy[1]]], "shelf": shelf, "writer": _opener_name(writer), "reopener": _opener_name(reopener), "nkeys": nkeys, "ops": [(o, _kid(k), None if v is None else (len(v[1]) if shelf else len(v))) for o, k, v in ops], "bufsize": bufsize}
    sim.event("history", " ".join("%s%d" % (o, _kid(k)) for o, k, v in ops), "shelf" if shelf else "dirdbm", "buf", bufsize, "writer", _opener_name(writer), "reopener", _opener_name(reopener),
              "errno", err, "refusal", refusal, "rec_errno", int(rec_errno), "live_on", " ".join("%s%d" % (w, _kid(k)) for w, k, v in cont) or "-", "dir", dbname, "stale", int(stale),
              "copy", "-" if copy is None else copy[0] + "".join("%d" % _kid(k) for k, v in copy[1]))
    F = simfs.FS(sim, bufsize=bufsize)
    bindings = [(filepath, "os", "os"), (filepath, "open", "open"), (dirdbm, "os", "os"), (dirdbm, "_open", "open")]
    try:
        with simfs.Installed(F, bindings):
            _enumerate(sim, F, shelf, ops, extra, writer, reopener, err, rec_errno, copy, exc, cont, dbname, stale)
    finally:
        F.destroy()


def _kid(k):
    """abstract name of a key: its index in the pool (-1: the empty key)"""
    return KEY_POOL.index(k) if k in KEY_POOL else -1


MODES = [None, 0o666, 0o600]


def _draw_opener(sim, flags, label):
    flag = sim.draw_weighted(flags, label)
    if flag == "ctor":
        return ("ctor", None, None)
    return ("open", flag, sim.draw_choice(MODES, label + "_mode"))


def _opener_name(opener):
    how, flag, mode = opener
    if how == "ctor":
        return "ctor"
    return "open(%s,%s)" % (flag or "-", "-" if mode is None else "%o" % mode)


def _make_opener(sim, shelf, opener, role):
    """-> (callable(path) -> database, read_only)"""
    how, flag, mode = opener
    if how == "ctor":
        return (dirdbm.Shelf if shelf else dirdbm.DirDBM), False

    def via_open(path):
        sim.probe(role + "_via_open")
        if flag == "r":
            sim.probe(role + "_read_only")
        if flag is None and mode is None:
            return dirdbm.open(path)
        if mode is None:
            return dirdbm.open(path, flag)
        return dirdbm.open(path, flag, mode)
    return via_open, flag == "r"


def _apply_model(m, op):
    o, k, v = op
    if o == "set":
        m[k] = v
    else:
        m.pop(k, None)


def _enumerate(sim, F, shelf, ops, extra, writer, reopener, err, rec_errno, copy, exc=None, cont=(), dbname="db", stale=False):
    cls, _ = _make_opener(sim, shelf, writer, "writer")           # handles the history is written through
    reopen, read_only = _make_opener(sim, shelf, reopener, "reopen")  # every reopen after a crash
    d = os.path.join(F.root, dbname)
    d2 = os.path.join(F.root, dbname + "2")   # destination of copyTo()
    refused = "+refused" if exc is None else "+interrupted"      # witness suffix of the refused-call family
    rkind = "errno" if exc is None else "interrupt"              # fault counter prefix

    def wipe():
        F.reboot()
        for x in (d, d2):
            if os.path.isdir(x):
                for n in os.listdir(x):
                    os.remove(os.path.join(x, n))
                os.rmdir(x)

    def apply_real(db, op):
        o, k, v = op
        if o == "set":
            db[k] = v
        else:
            del db[k]

    def snapshot(x):
        """None = the directory does not exist"""
        return simfs.snapshot(x) if os.path.isdir(x) else None

    def restore(x, snap):
        F.reboot()
        if os.path.isdir(x):
            for n in os.listdir(x):
                os.remove(os.path.join(x, n))
            if snap is None:
                os.rmdir(x)
        elif snap is not None:
            os.mkdir(x)
        for n, content in (snap or {}).items():
            with open(os.path.join(x, n), "wb") as f:
                f.write(content)

    # KNOWN FINDING family (see FINDINGS in the docstring): while `tainted` is set - the aftermath of a process that issued a
    # delete of the key of a set that had failed AFTER its value was written - every verdict is reported under the
    # dedicated clause, with the ordinary clause and witness as its witness
    tainted = [False]

    def o_check(clause, cond, wit="", detail=""):
        if tainted[0]:
            sim.check(STALE_CLAUSE, cond, clause + ":" + wit, detail)
        else:
            sim.check(clause, cond, wit, detail)

    def o_fail(clause, wit="", detail=""):
        if tainted[0]:
            sim.fail(STALE_CLAUSE, clause + ":" + wit, detail)
        else:
            sim.fail(clause, wit, detail)

    def o_guard(clause, wit=""):
        if tainted[0]:
            return sim.guard(STALE_CLAUSE, clause + ":" + wit)
        return sim.guard(clause, wit)

    def inspect(db, x, alts, wit, ctx):
        """alts: list of acceptable states, each {key: set of acceptable values (None = absent)} over one key universe;
        the database must be in (at least) one of them"""
        try:
            keys = db.keys()
        except Exception as e:
            o_fail("keys-raised", wit, "%s keys() raised %s: %s" % (ctx, type(e).__name__, str(e)[:120]))
        o_check("keys-unique", len(keys) == len(set(keys)), wit, "%s keys() has duplicates" % ctx)
        stray = sorted(k for k in keys if k not in alts[0])
        o_check("no-stray-key", not stray, wit, lambda: "%s stray names visible as keys: %r; files=%r" % (ctx, stray[:3], sorted(os.listdir(x))))
        got = {}
        for k in sorted(alts[0]):
            if k in keys:
                try:
                    got[k] = db[k]
                except Exception as e:
                    o_fail("get-raised", wit, "%s db[%r] raised %s though listed in keys()" % (ctx, k[:8], type(e).__name__))
            else:
                got[k] = None
        if not any(all(got[k] in ok for k, ok in alt.items()) for alt in alts):
            # name the first key that fits none / not the best-fitting alternative
            best = max(alts, key=lambda alt: sum(got[k] in ok for k, ok in alt.items()))
            for k, ok in sorted(best.items()):
                o_check("value-of-last-completed-op", got[k] in ok, wit,
                          lambda: "%s key %r holds %s; acceptable: %s%s" % (ctx, k[:8], _d(got[k]), [_d(y) for y in ok],
                                                                             " (best of %d acceptable states)" % len(alts) if len(alts) > 1 else ""))
        o_check("len-matches", len(db) == len(keys), wit, "%s len()=%d keys=%d" % (ctx, len(db), len(keys)))

    counters = {"nested": 0}

    def aftermath(x, alts, wit, ctx):
        """The process is gone (crashed, or ended after an operation failed): the database in directory x is reopened
        (recovery), with a nested crash - and in some runs a refused call - at every point of the recovery, judged against
        the acceptable states, then used for a few more operations and reopened once more."""
        F.reboot()
        snap = snapshot(x)
        # recovery, crash-free first (counts the recovery's crash points)
        F.arm()
        with o_guard("recovery-raised", wit):
            db2 = reopen(x)
        rpoints = F.n
        rplan = list(F.log)
        inspect(db2, x, alts, wit, ctx + ", after recovery:")
        # nested crash at every crash point of the recovery
        for r in range(1, rpoints + 1):
            restore(x, snap)
            F.arm(crash_at=r)
            try:
                reopen(x)
                sim.fail("crash-fired", "", "nested crash point %d did not fire" % r)
            except simfs.SimCrash:
                pass
            sim.fault("nested_crash@" + rplan[r - 1][1])
            counters["nested"] += 1
            F.reboot()
            F.arm()
            with o_guard("recovery-raised", wit + "+nested"):
                db3 = reopen(x)
            inspect(db3, x, alts, wit + "+nested", ctx + ", nested crash at recovery point %d (%s), after 2nd recovery:" % (r, rplan[r - 1][1]))
            db2 = db3
        # a call of the recovery is refused (OSError): the reopen may fail, the process lives on and ends; the next reopen recovers
        if rec_errno:
            for r in range(1, rpoints + 1):
                restore(x, snap)
                F.arm(errno_at=r, err=err, exc=exc)
                try:
                    reopen(x)
                except simfs.SimCrash:
                    raise
                except _FAILED:
                    sim.probe("recovery_refused_raised")
                sim.check("errno-fired", F.crashed_op is not None, "", "refused recovery call %d did not fire" % r)
                sim.fault("recovery_%s@%s" % (rkind, rplan[r - 1][1]))
                F.reboot()
                F.arm()
                with o_guard("recovery-raised", wit + "+recovery-" + refused[1:]):
                    db3 = reopen(x)
                inspect(db3, x, alts, wit + "+recovery-" + refused[1:], ctx + ", recovery call %d (%s) refused (%s), after 2nd recovery:" % (r, rplan[r - 1][1], rkind))
                db2 = db3
        # life goes on: further operations on the recovered database behave like a map
        if read_only:
            # nothing is written through a handle that was opened for reading only
            with o_guard("recovery-raised", wit):
                db2 = cls(x)
            inspect(db2, x, alts, wit, ctx + ", writable reopen after the read-only one:")
        cur = {}
        for k in sorted(alts[0]):
            v = db2[k] if k in db2.keys() else None
            if v is not None:
                cur[k] = v
        for op in extra:
            with o_guard("post-recovery-op-raised", wit):
                apply_real(db2, op)
            _apply_model(cur, op)
        F.reboot()
        with o_guard("recovery-raised", wit):
            db4 = reopen(x)
        inspect(db4, x, [{k: {cur.get(k)} for k in alts[0]}], wit, ctx + ", after further ops and reopen:")
        leftovers = [y for y in sorted(os.listdir(x)) if y.endswith(".new") or y.endswith(".rpl")]
        # (a reopen for reading only promises what is visible as data, not what is on disk)
        o_check("no-temp-after-recovery", read_only or not leftovers, wit, "%s temporaries left after recovery: %r" % (ctx, leftovers))
        sim.step(1000000)

    def torn_lengths(opname, size):
        if opname == "write" and size:
            return [t for t in sorted(set([0, 1, size // 2, size - 1])) if 0 <= t < size]
        return [0]

    universe = sorted(set(k for _, k, _ in ops) | set(k for _, k, _ in extra) | set(k for _, k, _ in cont))

    # crash-free run: count crash points, remember which op each belongs to, check the model after every op
    wipe()
    F.arm()
    with sim.guard("crash-free-raised"):
        db = cls(d)
    base = F.n
    model = {}
    owner = []  # crash point index -> op index
    for j, op in enumerate(ops):
        before = F.n
        with sim.guard("crash-free-raised"):
            apply_real(db, op)
        _apply_model(model, op)
        owner.extend([j] * (F.n - before))
        inspect(db, d, [{k: {model.get(k)} for k in universe}], "crash-free", "after op %d" % j)
    plan = list(F.log)[base:]
    npoints = len(plan)
    sim.event("points", npoints, " ".join(p[1] for p in plan))
    sim.check("has-crash-points", npoints >= 1, "", "no mutating call seen")
    F.reboot()
    src_snap = snapshot(d)   # the database after the whole history (source of the copy below)
    for idx, (n, opname, rel, size) in enumerate(plan):
        j = owner[idx]
        m_old = {}
        for op in ops[:j]:
            _apply_model(m_old, op)
        m_new = dict(m_old)
        _apply_model(m_new, ops[j])
        ik = ops[j][1]
        allowed = {k: {m_old.get(k)} for k in universe}
        allowed[ik] = {m_old.get(ik), m_new.get(ik)}
        wit = "%s@%s" % ("replace" if (ops[j][0] == "set" and ik in m_old) else ops[j][0], opname)
        for torn in torn_lengths(opname, size):
            wipe()
            F.arm()
            db = cls(d)
            F.arm(crash_at=n - base, torn=torn)
            crashed = False
            try:
                for op in ops:
                    apply_real(db, op)
            except simfs.SimCrash:
                crashed = True
            sim.check("crash-fired", crashed, "", "crash point %d did not fire" % n)
            sim.fault("crash@" + opname)
            if torn:
                sim.fault("torn_write")
            aftermath(d, [allowed], wit, "crash at %d/%d (%s %s torn=%d) in op %d" % (n - base, npoints, opname, rel, torn, j))
        # the same call is REFUSED instead (OSError): the process lives on - whatever clean-up the operation does on
        # failure runs - and then ends; the operation did not complete, so its key holds old or new after the reopen
        def failing_process():
            """a fresh process performs the history up to op j, in which call n is refused -> the live handle"""
            wipe()
            F.arm()
            db = cls(d)
            F.arm(errno_at=n - base, err=err, exc=exc)
            raised = None
            for jj, op in enumerate(ops[:j + 1]):
                try:
                    apply_real(db, op)
                except simfs.SimCrash:
                    raise
                except _FAILED:
                    raised = jj
                    break
            sim.check("errno-fired", F.crashed_op is not None and raised in (None, j), "", "refused call %d did not fire in op %d (raised in %r)" % (n, j, raised))
            return db, raised

        db, raised = failing_process()
        sim.fault("%s@%s" % (rkind, opname))
        if raised is not None:
            sim.probe("refused_op_raised")
        rctx = "call %d/%d (%s %s) refused with %s in op %d" % (n - base, npoints, opname, rel, "errno %d" % err if exc is None else exc.__name__, j)
        aftermath(d, [allowed], wit + refused, rctx)
        if cont:
            # LIVING ON: the process whose operation failed keeps using the handle.  The failed operation's key holds old or
            # new; every further operation that completes decides its key; one that raises (a delete of a key that is not
            # there raises KeyError) did not complete and leaves old-or-new for its key.  Then the process ends.
            db, raised = failing_process()
            sim.probe("lived_on")
            acc = {k: set(ok) for k, ok in allowed.items()}
            taint = False
            # the failed set got as far as handing its whole value to the kernel (the refused call is one of its later ones)
            committed = ops[j][0] == "set" and not (opname.startswith("open") or opname == "write")
            for what, other, v in cont:
                k = ik if what.endswith("-same") else other
                o = what[:3]
                if o == "del" and k == ik and committed:
                    if not stale:
                        sim.probe("cont_delete_after_failed_commit_avoided")   # FINDING 3: precondition kept out of this run
                        continue
                    sim.probe("cont_delete_after_failed_commit_issued")
                    taint = True
                try:
                    apply_real(db, (o, k, v))
                except simfs.SimCrash:
                    raise
                except _FAILED:
                    # not completed: old-or-new
                    acc[k] = acc[k] | {v if o == "set" else None}
                    sim.probe("cont_%s_raised" % o)
                else:
                    acc[k] = {v if o == "set" else None}
                    sim.probe("cont_%s_completed%s" % (o, "_same_key" if k == ik else ""))
            tainted[0] = taint
            try:
                aftermath(d, [acc], wit + refused + "+lived-on", rctx + ", then " + " ".join("%s%d" % (w[:3], _kid(ik if w.endswith("-same") else kk)) for w, kk, vv in cont))
            finally:
                tainted[0] = False

    if copy is not None:
        _copy_campaign(sim, F, cls, reopen, d, d2, src_snap, model, universe, copy, err, snapshot, restore, inspect, aftermath, torn_lengths, apply_real, exc)
    kinds = set((o, k in [kk for oo, kk, vv in ops[:i]]) for i, (o, k, v) in enumerate(ops))
    sim.nontrivial = counters["nested"] > 0 and any(o == "del" or seen for o, seen in kinds)
    sim.state((shelf, len(ops), npoints > 8, copy is not None))


def _copy_campaign(sim, F, cls, reopen, d, d2, src_snap, model, universe, copy, err, snapshot, restore, inspect, aftermath, torn_lengths, apply_real, exc=None):
    """copyTo(path) as one more operation: documented as "copy the contents of this dirdbm to the dirdbm at path; if a
    dirdbm exists at the destination path, it is cleared first" - i.e. a series of deletes and then of sets performed on
    the destination database, which is a database like any other: after a crash (or a refused call) at any point of the
    copy and a reopen of the destination, either the clearing was still under way (every key holds what the destination
    held before, or nothing) or the filling was (every key holds the source's value, or nothing); never a partial value, a
    stray name or a leftover temporary.  The source is not changed by being copied."""
    dest_kind, prepop = copy
    sim.probe("copy_dest_" + dest_kind)
    # the destination as it is before the copy
    restore(d2, None)
    if dest_kind != "absent":
        F.arm()
        with sim.guard("crash-free-raised"):
            dst = cls(d2)
            for k, v in prepop:
                dst[k] = v
    F.reboot()
    dst_snap = snapshot(d2)
    before = dict(prepop)
    uni2 = sorted(set(universe) | set(before))
    clearing = {k: {before.get(k), None} for k in uni2}
    filling = {k: {model.get(k), None} for k in uni2}
    exact = {k: {model.get(k)} for k in uni2}
    src_exact = [{k: {model.get(k)} for k in uni2}]

    def fresh():
        restore(d, src_snap)
        restore(d2, dst_snap)
        F.arm()
        src = cls(d)
        return src

    # crash-free copy
    src = fresh()
    base = F.n
    with sim.guard("crash-free-raised"):
        dst = src.copyTo(d2)
    plan = list(F.log)[base:]
    inspect(dst, d2, [exact], "crash-free", "destination after copyTo:")
    inspect(src, d, src_exact, "crash-free", "source after copyTo:")
    sim.event("copy-points", len(plan), " ".join(p[1] for p in plan))
    for n, opname, rel, size in plan:
        wit = "copy@" + opname
        for torn in torn_lengths(opname, size):
            src = fresh()
            F.arm(crash_at=n - base, torn=torn)
            crashed = False
            try:
                src.copyTo(d2)
            except simfs.SimCrash:
                crashed = True
            sim.check("crash-fired", crashed, "", "crash point %d of the copy did not fire" % n)
            sim.fault("copy_crash@" + opname)
            ctx = "crash at %d/%d (%s %s torn=%d) in copyTo" % (n - base, len(plan), opname, rel, torn)
            F.reboot()
            with sim.guard("recovery-raised", wit):
                again = reopen(d)
            inspect(again, d, src_exact, wit, ctx + ", the SOURCE reopened:")
            aftermath(d2, [clearing, filling], wit, ctx + ", destination")
        src = fresh()
        F.arm(errno_at=n - base, err=err, exc=exc)
        try:
            src.copyTo(d2)
        except simfs.SimCrash:
            raise
        except _FAILED:
            sim.probe("refused_copy_raised")
        sim.check("errno-fired", F.crashed_op is not None, "", "refused call %d of the copy did not fire" % n)
        sim.fault("copy_%s@%s" % ("errno" if exc is None else "interrupt", opname))
        aftermath(d2, [clearing, filling], wit + ("+refused" if exc is None else "+interrupted"),
                  "call %d/%d (%s %s) of copyTo refused with %s, destination" % (n - base, len(plan), opname, rel, "errno %d" % err if exc is None else exc.__name__))


def _d(x):
    if x is None:
        return "<absent>"
    if isinstance(x, tuple):
        return "(%r, <%d bytes>)" % (x[0], len(x[1]))
    return "<%d bytes %r>" % (len(x), bytes(x[:8]))


MUTANTS = [
    "_encode without the empty-key name (pre-5a68187) -> caught quick (keys-raised:crash-free, recovery-raised:...:FileExistsError) via EMPTY_KEY_P",
    "recovery globbing the unescaped directory name (pre-5a68187) -> caught quick (keys-raised:set@write|rename, get-raised:set@write) via GLOB_DIRNAME_P",
    "seeded C51-r6a: recovery lists the directory and matches temporaries with a regex lacking '-' -> caught quick (keys-raised:set@rename, keys-raised:set@write) by the key pool (keys whose file name holds the base64 symbol 63)",
    "seeded C51-r6b: __setitem__ cleans up only on Exception -> caught quick (value-of-last-completed-op / get-raised :replace@write+interrupted+lived-on) by non-Exception interruptions + living on (interrupted replace, completed delete, reopen resurrects the key with a partial value)",
    "recovery regex lacking '+' ([\\w=-]+) -> caught quick (keys-raised:set@write) via keys b'\\xfb\\xef' / b'~~~'",
    "__setitem__: handler 'except OSError' instead of BaseException -> caught quick (value-of-last-completed-op:replace@write+interrupted+lived-on)",
    "seeded C51-r5a: __setitem__'s handler covers remove-old and rename too and deletes the temporary -> caught quick (value-of-last-completed-op:replace@rename+refused) by the refused-call family; invisible to crashes (a dead process runs no handler)",
    "seeded C51-r5b: copyTo() copies entry files straight to their final names -> caught quick (value-of-last-completed-op:copy@write, get-raised:copy@write for Shelf) by the copy family",
    "recovery: a refused rename of a lone .rpl is answered by removing it (try: os.rename(f, old) except OSError: os.remove(f)) -> caught quick (value-of-last-completed-op:replace@rename+recovery-refused)",
    "copyTo() without d.clear() -> caught quick (value-of-last-completed-op:crash-free: destination-only keys survive the copy)",
    "copyTo() writing each value with _writeFile straight to the entry's final name -> caught quick (value-of-last-completed-op:copy@write / get-raised:copy@write)",
    "seeded C51-r4b: dirdbm.open(file, 'r') skips the recovery in DirDBM.__init__ -> caught quick (get-raised:set@write, get-raised:set@rename) via the reopener knob",
    "dirdbm.open() builds the DirDBM without running __init__'s recovery (any flag) -> caught quick (get-raised:set@write / set@rename)",
    "dirdbm.open(file, 'w') returns a Shelf when a .new file is left behind (wrong class for a flag) -> caught quick (value-of-last-completed-op:set@write)",
    "earlier rounds (see DESIGN 12): .new value kept when empty; empty .rpl dropped; .rpl kept after delete; only-entry .rpl skips recovery -> all caught quick",
]
