"""C31 — AMP matches answers to questions and fails pending calls on disconnect.

Engine E3 (net): two real amp.AMP peers over detsim.net.Link.  Both issue
callRemote (three answered commands with different response shapes, one
requiresAnswer=False command, one command the peer has no responder for)
concurrently, also re-entrantly from result callbacks; responders answer at
once, later (a Deferred the tape fires at any later step, in any order, also
after the connection is gone), with a declared error, a declared fatal error,
an undeclared error, or never.  Faults: connection loss at a tape-chosen byte
boundary of either direction (deliver k bytes of what is in flight, then drop),
drop at any step, clean close and abort by either side, plus the closes AMP
itself performs after fatal/undeclared errors.  In about a fifth of the runs
one peer additionally issues, at a tape-chosen operation index and while other
calls of both peers may be outstanding, a ProtocolSwitchCommand subclass
(Switch); the other peer's responder accepts it (returns a silent inner
protocol; amp then locks both sides: no further boxes in either direction) or
refuses it with a declared error (the caller is unlocked again).  Answers that
responders produce after the switch are dropped by amp, so the calls that were
outstanding across the switch stay unanswered and must fail, exactly once, with
the loss reason when the fault machinery later takes the connection down.
Command set: besides commands deriving directly from amp.Command, two families of commands related by INHERITANCE (child,
grandchild, sibling of an error-declaring command; a child that adds an error, one that adds a fatal error, ones that declare a
different exception under a wire code a relative uses - codes are per command).  Every responder may fail with every exception
class of the scenario, so each command is also answered with exceptions that only a relative declares (undeclared for it).
Application-level flow control: amp.AMP is an IPushProducer (pauseProducing / resumeProducing of the string receiver it is built
on).  In half of the runs application code that runs inside responders and inside callRemote result callbacks pauses the own
protocol (the rest of the delivery being worked through - deliveries routinely carry several boxes - stays buffered inside the
protocol) or pauses / resumes the companion peer's protocol; the schedule also pauses between deliveries and resumes later, in any
order with everything else, including loss while paused.
Exception subclasses: responders also fail with instances of SUBCLASSES of the exception classes the commands declare (subclass of
a declared error, of a declared fatal error, of an error only some commands of the inheritance families declare) - at once, through
a late Deferred, and when refusing the Switch.
Callers that give up: in half of the runs callers abandon outstanding calls - cancel() on the callRemote Deferred between
deliveries or from inside another call's result callback (also one that runs because of the disconnect), or addTimeout(t, clock)
on the Deferred with the simulated clock advanced by the schedule.  AMP has no cancel message: the peer answers (or error-answers)
such a call like any other, at once or late, while other calls of both sides are outstanding, possibly in the same delivery as
their answers, or never (connection lost first).
Session-dependent responders: which responder (if any) handles a command name is decided by the peer's IResponderLocator - the
documented extension point - and may depend on the state of the session.  Two commands (Gated, Staged) are located through an
application locator (an AMP.locateResponder override, or in half of those runs a separate locator object given to AMP(locator=...))
that answers from what the peer's application offers for the name right now: nothing (unhandled for the time being), or the
responder of one of three stages (separate CommandLocator objects whose answers name their stage).  In half of the runs the offer
changes during the connection - from inside responders (login / logout / next stage), from inside result callbacks and between
deliveries - so the same name is asked again and again on one connection under changing offers, with questions in flight, buffered
in a paused protocol, or asked afterwards.
Synchronous pipe: in SYNC_LINK_P of the runs the link is detsim.net.SyncLink - write() hands the bytes to the peer protocol at
once - so a responder's answer is delivered, and the caller's result callback runs (re-entrant calls, cancels, flow control, session
changes included), while the answering peer is still inside its own dataReceived; the same protocol is never re-entered by the pipe.
The pipe is corked while callRemote itself runs (see ASSUMPTIONS).
Self-resume: SELF_RESUME_P of the pauses a callback applies to its OWN protocol are followed by resumeProducing() in the same
callback, i.e. from inside that protocol's dataReceived, with the rest of the delivery still unparsed.

Oracle = wire-level reference model, independent of amp.py: the byte streams
each peer wrote / was delivered are parsed with an own 20-line box parser.
After every operation, for each side S and each of its calls c:
  * c's answer/error box has been completely delivered to S  <=>  c's Deferred
    has fired, exactly once, with exactly that box's content (own n echoed,
    own command's response shape) / the declared error class carrying n /
    UnknownRemoteError for code UNKNOWN;
  * otherwise, if S's connectionLost has been called: fired exactly once with a
    failure wrapping the very exception S.connectionLost received;
  * otherwise still pending;
  * calls issued after S's connectionLost began have failed before callRemote
    returned;
and on the responder side: every reply box S wrote answers a question S was
really asked, at most once per question, with the outcome the responder chose;
a responder ran exactly once per completely delivered command box; _ask tags
are never reused.  At the end the link is dropped and no Deferred is pending.
Protocol switch: the Switch command carries n like every other command, so its
command box / acknowledgement / refusal are accounted for by the same
bookkeeping (acknowledgement delivered <=> Deferred fired with {}).  The bytes a
side is delivered after the box that completed its switch (accepted Switch
command on the responder side, acknowledgement on the calling side) are not AMP
traffic and are not interpreted as boxes (on the unchanged code there are none:
both sides are locked and the inner protocols are silent).  No verdict is given
on callRemote while a side is locked (the scenario issues none); a call made
after the loss of a switched connection may fail immediately or raise the
documented ProtocolSwitched.
Errors: the code a reply box must carry for what the responder raised, and the exception class the caller must see for a code,
come from a table written down from the commands' own (and, as documented, inherited) declarations - never from amp's tables;
where a command's declarations give one code to two classes no verdict on which of the two.
Paused protocol: boxes that were delivered to S after the box during which the application paused S (and before S is resumed) may
still sit in S's buffer: no verdict on whether S has acted on them yet (if it has, the usual content clauses apply).  As soon as
resumeProducing() has returned (and no callback paused S again meanwhile) the full equivalence above holds again: everything
delivered has been acted on.  If S loses the connection while paused, a call whose reply is among the buffered boxes must have
fired exactly once, with that reply or with the loss reason (the statement does not say which).
Session-dependent responders: the reference keeps the history of what each peer offered for each such name.  A responder of stage v
may run for a question only if v was offered at some moment between the question being asked and the responder running (no verdict
on when in that span the locator is consulted); a question may go without a responder only if nothing was offered at some moment of
that span, and is then answered UNHANDLED (the caller sees amp.UnhandledCommand); the caller's answer must name the stage whose
responder really ran.  All other clauses apply to these commands unchanged.
Exception subclasses: an instance of a subclass is an instance of the declared class, so the reply must carry the code the command
declares for that base (UNKNOWN where the command declares no base of it) and the caller sees the declared class.
Given-up calls: the statement does not say what a Deferred fires with that its own caller cancelled / timed out, so for such a call
only "at most once" (and "once" at the end of the run) is demanded, and nothing about its value.  The peer's reply to it is ordinary
traffic from a correct peer: every clause about all OTHER calls of both sides (own answer once the reply is delivered, pending
until then while the connection is up, loss reason at disconnect), about responders and about the protocol not raising out of
dataReceived / connectionLost / resumeProducing stays in force while and after that reply is delivered.
"""
from twisted.internet import defer, error, protocol
from twisted.protocols import amp
from twisted.python.failure import Failure
from detsim import net

ID = "C31"
ENGINE = "net"
LEVEL = "exploration"
TECHNIQUE = ("deterministic simulation: two real AMP peers over a simulated link, seeded call/answer interleaving, "
             "disconnects at byte boundaries; wire-level reference model compared after every step")
QUICK_RUNS = 20000
TWIN_P = 0.08   # this share of the runs drives two independent instances of the scenario one after the other (detsim.runner._run_scenario)
USES_DEPTH = True   # thorough tier: history length bound scales with sim.depth (1..3) beyond the quick tier\'s run indices
BATCH = 100
RUN_WALL_LIMIT_S = 120   # runs take milliseconds; generous so that an overloaded host is not mistaken for a hang
COMPONENTS = {"real": ["twisted.protocols.amp.AMP (BoxDispatcher, BinaryBoxProtocol, CommandLocator, Command)",
                       "twisted.protocols.basic.Int16StringReceiver"],
              "stub": ["TCP transport, segmentation, loss/close/abort (detsim.net.Link)", "responder bodies and callRemote callers (tape-driven)"]}
RULE = ("run = up to 60 tape-chosen operations (callRemote from either peer, fire a deferred responder result, network event, "
        "close/abort/drop/cut-at-byte-k) on two connected AMP peers, in 2 of 9 runs one ProtocolSwitchCommand from a tape-chosen peer at a "
        "tape-chosen operation index (accepted or refused by the responder), then a final drop; commands include two inheritance "
        "families with added / code-reusing error declarations and responders raising every exception class of the scenario; in half "
        "of the runs application-level pauseProducing/resumeProducing of either peer's protocol from responders, result callbacks and "
        "between deliveries; responders also raise subclasses of declared exception classes; in half of the runs callers give up on "
        "outstanding calls (cancel() between deliveries / inside result callbacks, addTimeout on the simulated clock) and the peer "
        "answers them anyway; in half of the runs two command names are located through a session-dependent IResponderLocator whose "
        "offer (nothing / stage 0-2) changes from responders, callbacks and between deliveries; SYNC_LINK_P of the runs use a synchronous "
        "pipe (nested deliveries); SELF_RESUME_P of the own-protocol pauses are undone in the same callback; non-trivial = at least one call was "
        "unanswered at disconnect AND at least one call was answered AND (a responder answered late or with an error)")
SELF_RESUME_P = 0.3   # share of the in-callback pauses of the OWN protocol that are followed by resumeProducing() in the very same
                      # callback (i.e. from inside that protocol's dataReceived); see ASSUMPTIONS
SYNC_LINK_P = 0.15    # share of the runs whose link is a synchronous in-memory pipe (detsim.net.SyncLink): write() hands the bytes to the
                      # peer protocol at once, so deliveries NEST (the answer is written, delivered and its callback run while the
                      # responder's peer is still inside its own dataReceived / responder / callback)
SYNC_UNCORKED_CALL_P = 0.0   # on such a pipe: share of the callRemote calls during which the pipe is NOT corked, i.e. the question is
                      # delivered, answered and the answer delivered back while the caller is still inside callRemote; see ASSUMPTIONS
ASSUMPTIONS = ["callers attach a callback that handles every result (no unhandledError path from user code)",
               "responders return well-formed responses; no TLS",
               "at most one protocol switch per run; the inner protocols write nothing; the scenario issues no callRemote on a side "
               "while amp has it locked for the switch (documented to raise ProtocolSwitched)",
               "the application resumes a paused protocol only while the connection is up; resumeProducing() from inside that same "
               "protocol's own dataReceived (SELF_RESUME_P) is exercised since IntNStringReceiver.dataReceived tolerates being "
               "re-entered (/repo 520a5fa; before that repair a nested call re-parsed the strings the outer loop had already handed "
               "out - responders ran twice, answers arrived twice) and is judged like every other resume: once it has returned, "
               "everything delivered has been acted on exactly once",
               "the session-dependent locator is consulted by amp at some moment between the question being asked and its responder "
               "running (no verdict on which); stages answer with well-formed responses; the locator object itself is not replaced "
               "during a connection",
               "synchronous pipe: the pipe never re-enters the protocol it is delivering to, and it is corked while callRemote runs "
               "(SYNC_UNCORKED_CALL_P = 0): a transport that delivers the ANSWER from inside the write() of the question - before "
               "callRemote has returned - is outside the statement's network (ITransport.write is documented as buffering) and amp's "
               "design presupposes it never happens (BoxDispatcher._sendBoxCommand registers the question after sending it: KeyError "
               "in _answerReceived, the answering side drops the connection; with that order repaired, _errorReceived's terminal "
               "unhandledError errback still runs before callRemote's own callbacks exist); reported as an observation",
               "no verdict on flow control applied to a companion protocol that is inside a delivery but in none of the scenario's "
               "responders / callbacks (synchronous pipe, command nobody handles): the scenario skips it",
               "no verdict on whether a paused protocol acts on boxes it already holds, nor on reply-or-loss-reason for such boxes at "
               "disconnect",
               "exception subclasses used by responders derive from exactly one declared class (no verdict would be given for an "
               "exception that is an instance of two declared classes with different codes)",
               "no verdict on the result of a call its own caller cancelled or timed out while it was outstanding (beyond firing once); "
               "the Switch call is never given up on; a result produced by the caller's own cancel/timeout is no occasion for "
               "application flow control"]


class DeclaredErr(Exception):
    pass


class FatalErr(Exception):
    pass


class Undeclared(Exception):
    pass


class ExtraErr(Exception):        # declared only by some commands of the inheritance families below
    pass


class AltErr(Exception):          # likewise; where declared, under a wire code another command uses for another exception
    pass


# What responders really raise is often not literally the class a command declares but a SUBCLASS of it (declare LookupError, a dict
# lookup raises KeyError; declare the application's base error, raise a specific one).  An instance of a subclass IS an instance of
# the declared class, so for the command it is a declared error - under the code, and with the fatality, of the class it derives from.
class DeclaredSub(DeclaredErr):
    pass


class FatalSub(FatalErr):
    pass


class ExtraSub(ExtraErr):         # declared (through its base) only where ExtraErr is; undeclared for every other command
    pass


class Echo(amp.Command):
    arguments = [(b"n", amp.Integer())]
    response = [(b"n", amp.Integer()), (b"who", amp.String())]
    errors = {DeclaredErr: b"DECL"}
    fatalErrors = {FatalErr: b"FATAL"}


class Twice(amp.Command):
    arguments = [(b"n", amp.Integer())]
    response = [(b"m", amp.Integer())]
    errors = {DeclaredErr: b"DECL"}
    fatalErrors = {FatalErr: b"FATAL"}


class Pad(amp.Command):
    arguments = [(b"n", amp.Integer()), (b"fill", amp.String())]
    response = [(b"n", amp.Integer()), (b"fill", amp.String())]
    errors = {DeclaredErr: b"DECL"}
    fatalErrors = {FatalErr: b"FATAL"}


class Note(amp.Command):
    arguments = [(b"n", amp.Integer())]
    response = []
    requiresAnswer = False


class Nope(amp.Command):          # nobody has a responder for this
    arguments = [(b"n", amp.Integer())]
    response = [(b"n", amp.Integer())]


class Switch(amp.ProtocolSwitchCommand):   # issued at most once per run, see do_switch
    arguments = [(b"n", amp.Integer())]
    response = []
    errors = {DeclaredErr: b"DECL"}


# Commands related by inheritance (amp documents Command.errors / fatalErrors as inherited): arguments and response of the
# parent, own command name, own additional error declarations.  Error codes are per command, so a subclass or a command of
# another family may use a code that a relative uses for a different exception.
class EchoPlus(Echo):             # adds a declared error
    errors = {ExtraErr: b"EXTRA"}


class EchoPlusFatal(EchoPlus):    # grandchild: adds a fatal error
    fatalErrors = {AltErr: b"ALTFATAL"}


class EchoAlt(Echo):              # declares another exception under the code its parent uses for DeclaredErr (defined last in its
    errors = {AltErr: b"DECL"}    # family, so that no later relative re-states the inherited meaning of the code)


class TwiceSub(Twice):            # second family: the same exception classes under other codes (EXTRA means AltErr here), and a
    errors = {AltErr: b"EXTRA"}   # fatal error under the code the parent uses for the non-fatal DeclaredErr
    fatalErrors = {ExtraErr: b"DECL"}


# Commands whose responder depends on the state of the peer's SESSION: the peer's IResponderLocator.locateResponder (the documented
# extension point) answers for these names according to what the application offers right now - nothing (the command is unhandled
# for the time being: not logged in yet, feature switched off), or the responder of one of several stages of the conversation.
class Gated(amp.Command):
    arguments = [(b"n", amp.Integer())]
    response = [(b"n", amp.Integer()), (b"via", amp.Integer())]
    errors = {DeclaredErr: b"DECL"}
    fatalErrors = {FatalErr: b"FATAL"}


class Staged(amp.Command):
    arguments = [(b"n", amp.Integer())]
    response = [(b"n", amp.Integer()), (b"via", amp.Integer())]
    errors = {DeclaredErr: b"DECL"}
    fatalErrors = {FatalErr: b"FATAL"}


CMDS = {"Echo": Echo, "Twice": Twice, "Pad": Pad, "Note": Note, "Nope": Nope,
        "EchoPlus": EchoPlus, "EchoAlt": EchoAlt, "EchoPlusFatal": EchoPlusFatal, "TwiceSub": TwiceSub,
        "Gated": Gated, "Staged": Staged}
SHAPE = {"EchoPlus": "Echo", "EchoAlt": "Echo", "EchoPlusFatal": "Echo", "TwiceSub": "Twice",   # response shape of the parent
         "Gated": "Via", "Staged": "Via"}
DYNAMIC = ("Gated", "Staged")           # session-dependent commands
STAGES = (0, 1, 2)                      # the responder sets a peer can offer for them (None = not offered at the moment)
OFFER_AT_START = {"Gated": None, "Staged": 0}

# Reference table, written down from the declarations above and the documented inheritance rule (not read from amp's own tables):
# command -> {exception class: wire code}, inherited declarations included.  Anything else a responder raises is undeclared.
_BASE = {DeclaredErr: b"DECL", FatalErr: b"FATAL"}
DECLARED = {
    "Echo": dict(_BASE), "Twice": dict(_BASE), "Pad": dict(_BASE), "Note": {}, "Nope": {},
    "Switch": {DeclaredErr: b"DECL"},
    "Gated": dict(_BASE), "Staged": dict(_BASE),
    "EchoPlus": dict(_BASE),
    "EchoAlt": dict(_BASE),
    "EchoPlusFatal": dict(_BASE),
    "TwiceSub": dict(_BASE),
}
DECLARED["EchoPlus"][ExtraErr] = b"EXTRA"
DECLARED["EchoAlt"][AltErr] = b"DECL"
DECLARED["EchoPlusFatal"][ExtraErr] = b"EXTRA"
DECLARED["EchoPlusFatal"][AltErr] = b"ALTFATAL"
DECLARED["TwiceSub"][AltErr] = b"EXTRA"
DECLARED["TwiceSub"][ExtraErr] = b"DECL"
RAISES = {"declared": DeclaredErr, "fatal": FatalErr, "undeclared": Undeclared, "extra": ExtraErr, "alt": AltErr,
          "declared_sub": DeclaredSub, "fatal_sub": FatalSub, "extra_sub": ExtraSub}
SUBCLASS_KINDS = ("declared_sub", "fatal_sub", "extra_sub")


def wire_code(cmd, kind):
    """The error code the responder side must put on the wire when a responder of `cmd` fails with RAISES[kind]: the code `cmd`
    declares for a class the raised exception is an instance of (the class itself or a base of it), else UNKNOWN.  None = no verdict
    (the exception is an instance of two declared classes with different codes; does not occur with the classes above)."""
    codes = sorted({code for klass, code in DECLARED[cmd].items() if issubclass(RAISES[kind], klass)})
    if not codes:
        return b"UNKNOWN"
    return codes[0] if len(codes) == 1 else None


def error_classes(cmd, code):
    """The exception classes `cmd` declares under `code` (more than one where a subclass re-uses an inherited code: no verdict
    on which of them the caller sees)."""
    return tuple(e for e, k in DECLARED[cmd].items() if k == code)


# ------------------------------------------------------------------ reference

def parse_boxes(data):
    """Independent AMP wire parser: list of complete boxes (dict bytes->bytes)."""
    boxes, cur, pos, n = [], {}, 0, len(data)
    while pos + 2 <= n:
        kl = (data[pos] << 8) | data[pos + 1]
        if kl == 0:
            boxes.append(cur)
            cur = {}
            pos += 2
            continue
        if pos + 2 + kl + 2 > n:
            break
        key = bytes(data[pos + 2:pos + 2 + kl])
        vp = pos + 2 + kl
        vl = (data[vp] << 8) | data[vp + 1]
        if vp + 2 + vl > n:
            break
        cur[key] = bytes(data[vp + 2:vp + 2 + vl])
        pos = vp + 2 + vl
    return boxes


def expected_response(cmd, n, who, fill, via=None):
    cmd = SHAPE.get(cmd, cmd)
    if cmd == "Via":
        return {"n": n, "via": via}
    if cmd == "Echo":
        return {"n": n, "who": who}
    if cmd == "Twice":
        return {"m": 2 * n}
    if cmd == "Pad":
        return {"n": n, "fill": fill}
    if cmd == "Switch":
        return {}
    return None


def show(x):
    """Address-free rendering of results for violation details."""
    if isinstance(x, list):
        return "[" + ", ".join(show(i) for i in x) + "]"
    if isinstance(x, Failure):
        return "Failure(%s: %s)" % (x.type.__name__, str(x.value)[:80])
    return repr(x)


class Call:
    def __init__(self, n, cmd, side, after_loss, fill):
        self.n, self.cmd, self.side, self.after_loss, self.fill = n, cmd, side, after_loss, fill
        self.results = []
        self.d = None
        self.gaveup = ""        # "cancel" / "timeout": the CALLER gave up on the call while it was outstanding
        self.seq0 = 0           # the answering peer's session-change counter when the question was asked
        self.late_seen = False


class Inner(protocol.Protocol):
    """What both sides switch to: silent, so each byte stream stays a sequence of boxes."""

    def __init__(self, h, name):
        self.h, self.name = h, name

    def dataReceived(self, data):
        self.h.inner_bytes[self.name] += len(data)      # observation only, no verdict

    def connectionLost(self, reason):
        self.h.sim.event("inner-lost", self.name, reason.type.__name__)


class InnerFactory(protocol.ClientFactory):
    def __init__(self, h, name):
        self.h, self.name = h, name

    def buildProtocol(self, addr):
        return Inner(self.h, self.name)


class Stage(amp.CommandLocator):
    """One of the responder sets peer `name` can offer for the session-dependent commands (a plain CommandLocator with
    Command.responder methods, as documented)."""

    def __init__(self, h, name, v):
        self.h, self.name, self.v = h, name, v

    @Gated.responder
    def gated(self, n):
        return self.h.respond(self.name, "Gated", n, None, via=self.v)

    @Staged.responder
    def staged(self, n):
        return self.h.respond(self.name, "Staged", n, None, via=self.v)


class AmpSyncLink(net.SyncLink):
    """The synchronous pipe, with the scheduler's 'deliver' event (bytes that queued up while the receiver was paused or busy) going
    through the same FIFO-keeping hand-over as the writes."""

    def do(self, kind, name, amount=None):
        if kind == "deliver":
            self.pump(name)
        else:
            net.SyncLink.do(self, kind, name, amount)

    def run(self, max_steps=100000, amounts=None):
        """Hand over what is in flight for as long as that makes progress (a paused or busy receiver keeps its bytes in flight)."""
        n = 0
        while n < max_steps and not self.frozen and not self.held:
            before = (len(self.flight["A"]), len(self.flight["B"]))
            if before == (0, 0):
                break
            self.pump("A")
            self.pump("B")
            if (len(self.flight["A"]), len(self.flight["B"])) == before:
                break
            n += 1
        return n


class SessionLocator:
    """An application-provided IResponderLocator handed to AMP(locator=...): session-dependent names are answered from the state of
    the session, everything else by the peer's own Command.responder table."""

    def __init__(self, h, name):
        self.h, self.name, self.peer = h, name, None

    def locateResponder(self, cmdname):
        return self.h.locate(self.name, cmdname, lambda: amp.AMP.locateResponder(self.peer, cmdname))


def make_peer(h, name, style=""):
    class Peer(amp.AMP):
        def locateResponder(self, cmdname):
            # the documented extension point: which responder (if any) handles a name is the application's decision, taken per
            # question from the state of the session
            return h.locate(name, cmdname, lambda: amp.AMP.locateResponder(self, cmdname))

        def connectionLost(self, reason):
            h.lost[name] = reason
            h.sim.event("lost", name, reason.type.__name__)
            if h.paused[name]:
                h.sim.fault("lost_while_app_paused")
            amp.AMP.connectionLost(self, reason)

        def dataReceived(self, data):
            h.indeliv[name] += 1        # workload control only: is a delivery to this peer on the stack?
            try:
                amp.AMP.dataReceived(self, data)
            finally:
                h.indeliv[name] -= 1

        def _r(self, cmd, n, fill=None):
            return h.respond(name, cmd, n, fill)

        @Echo.responder
        def echo(self, n):
            return self._r("Echo", n)

        @Twice.responder
        def twice(self, n):
            return self._r("Twice", n)

        @Pad.responder
        def pad(self, n, fill):
            return self._r("Pad", n, fill)

        @Note.responder
        def note(self, n):
            return self._r("Note", n)

        @EchoPlus.responder
        def echo_plus(self, n):
            return self._r("EchoPlus", n)

        @EchoAlt.responder
        def echo_alt(self, n):
            return self._r("EchoAlt", n)

        @EchoPlusFatal.responder
        def echo_plus_fatal(self, n):
            return self._r("EchoPlusFatal", n)

        @TwiceSub.responder
        def twice_sub(self, n):
            return self._r("TwiceSub", n)

        @Switch.responder
        def switch(self, n):
            return h.respond_switch(name, n)

    if style == "object":
        loc = SessionLocator(h, name)
        loc.peer = Peer(locator=loc)
        return loc.peer
    return Peer()


class Harness:
    def __init__(self, sim):
        self.sim = sim
        self.lost = {"A": None, "B": None}
        self.calls = {"A": [], "B": []}
        self.byn = {}
        self.next_n = 1
        self.invoked = {}       # (side, n) -> count
        self.decision = {}      # (side, n) -> "ok"|"declared"|"fatal"|"undeclared"|"pending"
        self.late = []          # (side, n, cmd, fill, Deferred)
        self.flags = {"late": 0, "err": 0}
        # protocol switch (workload control, not oracle): nocall[S] = amp has S locked, the scenario must not callRemote on S
        self.nocall = {"A": False, "B": False}
        self.sw_state = 0       # 0 none, 1 asked, 2 acknowledged, 3 refused / failed by loss
        self.sw_pending = 0     # calls of both sides outstanding when the acknowledgement arrived
        self.inner_bytes = {"A": 0, "B": 0}
        # application-level flow control of the peers' protocols (IPushProducer.pauseProducing / resumeProducing of amp.AMP)
        self.pause_p = 0.0
        self.paused = {"A": False, "B": False}
        self.hold = {"A": None, "B": None}      # paused side: number of leading complete delivered boxes it has certainly been through
        self.indeliv = {"A": 0, "B": 0}
        self.cur = {"A": [], "B": []}           # (kind, n) of the box whose responder / result callback is running, innermost last
        self.peers = self.link = self.trans = None
        # session-dependent responder location: what each peer's application offers for the DYNAMIC command names right now, and
        # the history of it ((seq, state) with a global change counter) for the oracle
        self.session_p = 0.0
        self.seq = 0
        self.offer = {s: dict(OFFER_AT_START) for s in "AB"}
        self.offer_hist = {s: {c: [(0, OFFER_AT_START[c])] for c in DYNAMIC} for s in "AB"}
        self.stages = {s: [Stage(self, s, v) for v in STAGES] for s in "AB"}
        self.via = {}           # (side, n) -> stage whose responder ran for question n
        self.unhandled_seen = set()
        self.last_state = {}    # (side, cmd) -> state under which the previous question with that name was handled

    # -- session-dependent responder location
    def locate(self, side, wirename, static):
        key = wirename.decode("ascii", "replace")
        if key not in DYNAMIC:
            return static()
        st = self.offer[side][key]
        prev = self.last_state.get((side, key), st)
        self.last_state[(side, key)] = st
        if prev != st:
            self.sim.probe("session_dependent_name_located_again_after_offer_changed")
        if st is None:
            self.sim.probe("session_dependent_name_not_offered")
            return None
        return self.stages[side][st].locateResponder(wirename)

    def reoffer(self, side, where):
        """The application of `side` changes what it offers for one of the session-dependent command names."""
        sim = self.sim
        cmd = sim.draw_choice(DYNAMIC, "reoffer_cmd")
        new = sim.draw_choice([st for st in STAGES + (None,) if st != self.offer[side][cmd]], "reoffer_state")
        self.seq += 1
        self.offer[side][cmd] = new
        self.offer_hist[side][cmd].append((self.seq, new))
        sim.event("reoffer", side, cmd, "none" if new is None else new, where)
        sim.probe("session_changed_offer_" + where)

    def offered(self, side, cmd, since):
        """Everything `side` has offered for `cmd` at some moment from change counter `since` until now."""
        hist = self.offer_hist[side][cmd]
        return {st for i, (_q, st) in enumerate(hist) if i + 1 == len(hist) or hist[i + 1][0] > since}

    # -- application-level pause / resume
    def _boxes(self, side):
        return parse_boxes(self.link.delivered[side])

    def _box_index(self, side, kind, n):
        boxes = self._boxes(side)
        if kind == "cmd":
            for i, b in enumerate(boxes):
                if b"_command" in b and b"n" in b and int(b[b"n"]) == n:
                    return i
        else:
            tags = {b[b"_ask"] for b in parse_boxes(self.trans[side].written)
                    if b"_command" in b and b"_ask" in b and int(b[b"n"]) == n}
            for i, b in enumerate(boxes):
                if b.get(b"_answer", b.get(b"_error")) in tags:
                    return i
        raise AssertionError("box being processed not found among the delivered ones: %s %s %d" % (side, kind, n))

    def pause(self, t, where):
        sim = self.sim
        self.paused[t] = True
        if self.indeliv[t]:
            # called while t is working through a delivery: what follows the box being processed stays in t's buffer
            kind, n = self.cur[t][-1]
            self.hold[t] = self._box_index(t, kind, n) + 1
            if len(self._boxes(t)) > self.hold[t]:
                sim.probe("app_paused_with_received_boxes_waiting")
        else:
            self.hold[t] = len(self._boxes(t))
        sim.event("app-pause", t, where, self.hold[t])
        sim.fault("app_pause_" + where)
        with sim.guard("protocol-raised", "pauseProducing"):
            self.peers[t].pauseProducing()

    def resume(self, t, where):
        sim = self.sim
        waiting = len(self._boxes(t)) - self.hold[t]
        self.paused[t] = False
        self.hold[t] = None                     # a pause issued while the buffer is drained sets it again
        sim.event("app-resume", t, where, waiting)
        sim.probe("app_resume_" + where)
        if waiting > 0:
            sim.probe("app_resume_with_received_boxes_waiting")
            if where == "inside_own_delivery":
                sim.probe("resumed_inside_own_delivery_with_received_boxes_waiting")    # the nested drain hands out the rest
        with sim.guard("protocol-raised", "resumeProducing"):
            self.peers[t].resumeProducing()

    def app_flow(self, side, where):
        """Back-pressure applied by application code that runs inside a responder / a callRemote result callback of `side`:
        pause or resume the own connection's protocol or the companion one."""
        sim = self.sim
        if not self.pause_p or not sim.draw_bool(self.pause_p, "flow"):
            return
        t = sim.draw_weighted([(side, 3), ("B" if side == "A" else "A", 1)], "flow_target")
        if self.lost[t] is not None:
            return
        if t != side:
            where = "companion"
            if self.indeliv[t] and not self.cur[t]:
                # (synchronous pipe only) the companion is inside a delivery but in none of the scenario's responders / callbacks -
                # amp itself answered a command nobody handles - so the scenario cannot tell which box it is working on: leave it alone
                sim.probe("companion_flow_control_skipped_inside_unhandled_command")
                return
        if not self.paused[t]:
            self.pause(t, where)
            if SELF_RESUME_P and self.indeliv[t] and sim.draw_bool(SELF_RESUME_P, "self_resume"):
                self.resume(t, "inside_own_delivery")
        elif not self.indeliv[t]:
            self.resume(t, where)

    # -- responder bodies (tape-driven)
    def outcome_value(self, side, cmd, n, fill, kind):
        if kind == "ok":
            return expected_response(cmd, n, side.encode(), fill, self.via.get((side, n))) if cmd != "Note" else {}
        if kind in ("extra", "alt"):
            self.sim.probe("raised_family_error_declared_by_this_command" if RAISES[kind] in DECLARED[cmd]
                           else "raised_family_error_declared_only_by_related_command")
        if kind in SUBCLASS_KINDS:
            self.sim.fault("responder_raised_subclass_of_declared_error" if wire_code(cmd, kind) != b"UNKNOWN"
                           else "responder_raised_subclass_of_error_this_command_does_not_declare")
        return Failure(RAISES[kind]("%s n=%d" % (kind, n)))

    def respond(self, side, cmd, n, fill, via=None):
        sim = self.sim
        self.invoked[(side, n)] = self.invoked.get((side, n), 0) + 1
        if via is not None:
            # a responder of stage `via` runs for question n: the application must have offered that stage for the name at some
            # moment since the question was asked (no verdict on WHEN in that span the implementation consults the locator)
            q = self.byn.get(n)
            span = self.offered(side, cmd, q.seq0) if q is not None else set(STAGES)
            sim.check("answered-by-offered-responder", via in span, cmd,
                      lambda: "side %s question n=%d (%s) handled by the responder of stage %r, but since the question was asked "
                              "the session offered only %r for that name" % (side, n, cmd, via, sorted(span, key=repr)))
            self.via[(side, n)] = via
            if len(span) > 1:
                sim.probe("session_changed_while_question_in_flight")
            elif len(self.offer_hist[side][cmd]) > 1:
                sim.probe("question_asked_after_session_changed_the_offer")
        self.cur[side].append(("cmd", n))
        try:
            self.app_flow(side, "responder")
        finally:
            self.cur[side].pop()
        if self.session_p and sim.draw_bool(self.session_p, "reoffer_in_responder"):
            self.reoffer(side, "in_responder")          # (login / logout / next stage: responders are what moves a session on)
        if cmd == "Note":
            kind = sim.draw_weighted([("ok", 8), ("undeclared", 1)], "note_resp")
            sim.event("respond", side, cmd, n, kind)
            if kind != "ok":
                sim.fault("note_responder_raises")
                raise Undeclared("note n=%d" % n)
            return {}
        kind = sim.draw_weighted([("ok", 18), ("later", 12), ("declared", 4), ("undeclared", 2), ("fatal", 2), ("extra", 1), ("alt", 1),
                                  ("declared_sub", 3), ("fatal_sub", 1), ("extra_sub", 1)], "resp")
        sim.event("respond", side, cmd, n, kind)
        if kind == "later":
            d = defer.Deferred()
            self.decision[(side, n)] = "pending"
            self.late.append((side, n, cmd, fill, d))
            self.flags["late"] += 1
            if sim.draw_bool(0.25, "called_but_pending"):
                # hand out a Deferred that has already been called back but whose callback chain waits on `d` (no result until `d` fires)
                sim.probe("responder_returned_called_but_pending_deferred")
                _outer = defer.succeed(None)
                _outer.addCallback(lambda _ignored, d=d: d)
                return _outer
            return d
        self.decision[(side, n)] = kind
        if kind != "ok":
            self.flags["err"] += 1
        v = self.outcome_value(side, cmd, n, fill, kind)
        if isinstance(v, Failure):
            v.raiseException()
        return v

    def respond_switch(self, side, n):
        sim = self.sim
        self.invoked[(side, n)] = self.invoked.get((side, n), 0) + 1
        kind = sim.draw_weighted([("ok", 5), ("declared", 1), ("declared_sub", 1)], "switch_resp")
        sim.event("respond", side, "Switch", n, kind)
        self.decision[(side, n)] = kind
        if kind != "ok":
            self.flags["err"] += 1
            if kind in SUBCLASS_KINDS:
                sim.fault("responder_raised_subclass_of_declared_error")
            raise RAISES[kind]("%s n=%d" % (kind, n))
        self.nocall[side] = True        # amp writes the acknowledgement, then locks and switches this side
        return Inner(self, side)

    def fire_late(self):
        sim = self.sim
        side, n, cmd, fill, d = self.late.pop(sim.draw_int(0, len(self.late) - 1, "which_late"))
        kind = sim.draw_weighted([("ok", 12), ("declared", 4), ("undeclared", 2), ("fatal", 2), ("extra", 1), ("alt", 1),
                                  ("declared_sub", 3), ("fatal_sub", 1), ("extra_sub", 1)], "late_resp")
        sim.event("fire_late", side, cmd, n, kind)
        self.decision[(side, n)] = kind
        if kind != "ok":
            self.flags["err"] += 1
        v = self.outcome_value(side, cmd, n, fill, kind)
        with sim.guard("protocol-raised", "late-response"):
            if isinstance(v, Failure):
                d.errback(v)
            else:
                d.callback(v)


def run(sim):
    nops = sim.draw_int(8, 60 * sim.depth, "nops")
    fault_rate = sim.draw_choice([0, 1, 2], "fault_rate")
    reent = sim.draw_choice([0.0, 0.0, 0.25], "reentrancy")
    sw_side = sim.draw_choice(["", "", "", "", "", "", "", "A", "B"], "switch_side")
    sw_at = sim.draw_int(1, max(1, (2 * nops) // 3), "switch_at") if sw_side else -1
    pause_p = sim.draw_choice([0.0, 0.0, 0.12, 0.35], "app_pause")
    giveup = sim.draw_choice([0.0, 0.0, 0.1, 0.3], "giveup")
    session_p = sim.draw_choice([0.0, 0.0, 0.1, 0.3], "session")
    loc_style = sim.draw_choice(["", "object"], "locator_style") if session_p else ""
    sim.config = {"nops": nops, "fault_rate": fault_rate, "reentrancy": reent, "switch": sw_side, "switch_at": sw_at,
                  "app_pause": pause_p, "giveup": giveup, "session": session_p, "locator": loc_style}
    h = Harness(sim)
    h.pause_p = pause_p
    h.session_p = session_p
    if session_p:
        for s in "AB":
            for cmd in DYNAMIC:
                st = sim.draw_choice((OFFER_AT_START[cmd],) + tuple(x for x in STAGES + (None,) if x != OFFER_AT_START[cmd]), "offer0")
                h.offer[s][cmd] = st
                h.offer_hist[s][cmd] = [(0, st)]
    peers = {"A": make_peer(h, "A", loc_style), "B": make_peer(h, "B", loc_style)}
    sync = bool(SYNC_LINK_P) and sim.draw_bool(SYNC_LINK_P, "sync_link")
    sim.config["sync_link"] = sync
    if sync:
        # the same protocol is never re-entered by the pipe (a piece may hold several boxes): bytes for a protocol that is inside
        # dataReceived wait until that call has returned
        link = AmpSyncLink(sim, peers["A"], peers["B"], pieces=sim.draw_choice(["whole", "mixed"], "pieces"), reenter=False)
        sim.probe("synchronous_link_run")
    else:
        link = net.Link(sim, peers["A"], peers["B"])
    trans = {"A": link.a, "B": link.b}
    h.peers, h.link, h.trans = peers, link, trans
    link.connect()
    depth = [0]

    def on_result(res, call):
        if call.gaveup:
            return on_result_1(res, call)       # produced by the caller's own cancel / timeout, not by a box being worked through
        h.cur[call.side].append(("res", call.n))
        try:
            return on_result_1(res, call)
        finally:
            h.cur[call.side].pop()

    def on_result_1(res, call):
        call.results.append(res)
        sim.event("result", call.side, call.n, "F:" + res.type.__name__ if isinstance(res, Failure) else "ok")
        if call.cmd == "Switch":
            if isinstance(res, Failure):
                h.nocall[call.side] = False      # refused, or failed by the loss: amp has unlocked the caller
                h.sw_state = 3
                sim.probe("switch_refused" if h.lost[call.side] is None else "switch_lost")
            else:
                h.sw_state = 2
                h.sw_pending = sum(1 for s in "AB" for c in h.calls[s] if c.d is not None and not c.results)
                sim.probe("switch_acked")
                if h.sw_pending:
                    sim.probe("outstanding_across_switch", h.sw_pending)
        if reent and depth[0] < 2 and sim.draw_bool(reent, "reenter"):
            depth[0] += 1
            sim.probe("reentrant_call")
            try:
                do_call(call.side)
            finally:
                depth[0] -= 1
        if giveup and depth[0] < 2 and outstanding() and sim.draw_bool(giveup / 2, "cancel_in_callback"):
            depth[0] += 1
            try:
                do_cancel("in_callback")
            finally:
                depth[0] -= 1
        if session_p and h.lost[call.side] is None and sim.draw_bool(session_p / 2, "reoffer_in_callback"):
            h.reoffer(call.side, "in_callback")     # what a peer learns from an answer may move its own session on
        if h.lost[call.side] is None and not call.gaveup:
            # (a result produced by the loss itself, or by the caller's own cancel / timeout, is no occasion for flow control)
            h.app_flow(call.side, "callback")
        return None

    def outstanding():
        """Calls the application may give up on: issued while the connection was up, not fired yet (the Switch call is left alone)."""
        return [c for s in "AB" for c in h.calls[s] if c.d is not None and not c.results and not c.gaveup and c.cmd != "Switch"]

    def others_outstanding(c):
        return any(x is not c and x.d is not None and not x.results and h.lost[x.side] is None for x in h.calls[c.side])

    def do_cancel(where):
        cands = outstanding()
        c = cands[sim.draw_int(0, len(cands) - 1, "which_cancel")]
        c.gaveup = "cancel"
        sim.event("cancel", c.side, c.cmd, c.n, where)
        sim.fault("caller_cancelled_outstanding_call_" + where)
        if h.lost[c.side] is None and others_outstanding(c):
            sim.probe("caller_gave_up_with_other_calls_outstanding")
        with sim.guard("cancel-raised", c.cmd):
            c.d.cancel()

    def on_timeout(res, timeout, c):
        # Deferred.addTimeout's hook: runs when the timeout (not anything else) has cancelled the call
        c.gaveup = "timeout"
        sim.event("timeout", c.side, c.cmd, c.n)
        sim.fault("caller_timed_out_outstanding_call")
        if h.lost[c.side] is None and others_outstanding(c):
            sim.probe("caller_gave_up_with_other_calls_outstanding")
        if isinstance(res, Failure) and res.check(defer.CancelledError):
            return Failure(defer.TimeoutError("n=%d timed out" % c.n))
        return res

    class corked:
        """On the synchronous pipe: what callRemote writes is handed over when callRemote has returned (the pipe is corked meanwhile),
        except in SYNC_UNCORKED_CALL_P of the calls."""

        def __enter__(self):
            self.mine = sync and not link.held and not (SYNC_UNCORKED_CALL_P and sim.draw_bool(SYNC_UNCORKED_CALL_P, "uncorked_call"))
            if sync and not self.mine and not link.held:
                sim.fault("question_handed_over_inside_callRemote")
            if self.mine:
                link.held = True

        def __exit__(self, *exc):
            if self.mine:
                link.held = False
            return False

    def uncork():
        if sync and not link.held and (link.flight["A"] or link.flight["B"]):
            with sim.guard("protocol-raised", "net"):
                link.release()

    def can_call(side):
        return not (h.nocall[side] and h.lost[side] is None)

    def do_call(side):
        if not can_call(side):
            sim.probe("call_blocked_by_switch")     # only reachable re-entrantly from a result callback
            return
        cmd = sim.draw_weighted([("Echo", 4), ("Twice", 3), ("Pad", 2), ("Note", 2), ("Nope", 1),
                                 ("EchoPlus", 2), ("EchoAlt", 2), ("EchoPlusFatal", 1), ("TwiceSub", 2),
                                 ("Staged", 4 if session_p else 1), ("Gated", 4 if session_p else 1)], "cmd")
        n = h.next_n
        h.next_n += 1
        fill = None
        kw = {"n": n}
        if cmd == "Pad":
            fill = sim.draw_bytes(sim.draw_choice([0, 1, 5, 40, 300], "filllen"), b"\x00ab\xff")
            kw["fill"] = fill
        after_loss = h.lost[side] is not None
        c = Call(n, cmd, side, after_loss, fill)
        c.seq0 = h.seq
        h.calls[side].append(c)
        h.byn[n] = c
        sim.event("call", side, cmd, n, "after-loss" if after_loss else "")
        d = missing = object()
        with sim.guard("callRemote-raised", cmd), corked():
            try:
                d = peers[side].callRemote(CMDS[cmd], **kw)
            except amp.ProtocolSwitched:
                # documented for a switched connection; after its loss either this or an immediately failed Deferred
                if not (after_loss and h.nocall[side]):
                    raise
                sim.probe("call_after_loss_raised_switched")
                return
        if d is missing:
            return                      # callRemote raised (reported by the guard)
        if cmd == "Note":
            sim.check("no-answer-returns-none", d is None, "Note", "callRemote returned a %s" % type(d).__name__)
            uncork()
            return
        sim.check("returns-deferred", isinstance(d, defer.Deferred), cmd, "callRemote returned a %s" % type(d).__name__)
        c.d = d
        if giveup and not after_loss and isinstance(d, defer.Deferred) and sim.draw_bool(giveup, "with_timeout"):
            # the realistic way of giving up: the caller bounds the wait
            d.addTimeout(sim.draw_choice([1, 2, 5], "timeout"), sim.clock,
                         onTimeoutCancel=lambda res, timeout, c=c: on_timeout(res, timeout, c))
        d.addBoth(on_result, c)
        if after_loss:
            sim.probe("call_after_loss")
            sim.check("after-loss-fails-immediately", len(c.results) == 1 and isinstance(c.results[0], Failure), cmd,
                      "call issued after connectionLost: results=%s" % show(c.results))
        uncork()

    def do_switch(side):
        n = h.next_n
        h.next_n += 1
        c = Call(n, "Switch", side, False, None)
        h.calls[side].append(c)
        h.byn[n] = c
        h.sw_state = 1
        h.nocall[side] = True       # amp locks the caller until the switch is refused
        sim.event("call", side, "Switch", n, "")
        sim.probe("switch_issued")
        with sim.guard("callRemote-raised", "Switch"), corked():
            d = peers[side].callRemote(Switch, InnerFactory(h, side), n=n)
        sim.check("returns-deferred", isinstance(d, defer.Deferred), "Switch", "callRemote returned a %s" % type(d).__name__)
        c.d = d
        d.addBoth(on_result, c)
        uncork()

    def amp_part(s, boxes, tags):
        """The boxes delivered to s up to and including the one that completed s's protocol switch."""
        for i, b in enumerate(boxes):
            if b.get(b"_command") == b"Switch" and h.decision.get((s, int(b[b"n"]))) == "ok":
                return boxes[:i + 1]
            if b.get(b"_answer") in tags and h.byn[tags[b[b"_answer"]]].cmd == "Switch":
                return boxes[:i + 1]
        return boxes

    def check_all():
        written = {s: parse_boxes(trans[s].written) for s in "AB"}
        tag2n = {}
        for s in "AB":
            m = {}
            for b in written[s]:
                if b"_command" in b and b"_ask" in b:
                    sim.check("ask-tag-unique", b[b"_ask"] not in m, "tag", "side %s reused tag %r" % (s, b[b"_ask"]))
                    m[b[b"_ask"]] = int(b[b"n"])
            tag2n[s] = m
        delivered = {s: amp_part(s, parse_boxes(link.delivered[s]), tag2n[s]) for s in "AB"}
        for s, o in (("A", "B"), ("B", "A")):
            # --- responder side: replies S wrote
            replied = set()
            for b in written[s]:
                tag = b.get(b"_answer", b.get(b"_error"))
                if tag is None:
                    continue
                sim.check("reply-to-real-question", tag in tag2n[o], "responder", "side %s replied to unknown tag %r" % (s, tag))
                n = tag2n[o][tag]
                sim.check("one-reply-per-question", n not in replied, "responder", "side %s replied twice to n=%d" % (s, n))
                replied.add(n)
                q = h.byn[n]
                dec = h.decision.get((s, n))
                if q.cmd == "Nope":
                    sim.check("reply-matches-responder", b.get(b"_error_code") == b"UNHANDLED", "unhandled", "box %r" % (b,))
                    continue
                if q.cmd in DYNAMIC and dec is None:
                    # no responder ran: right only if the session offered nothing for the name at some moment since the question
                    # was asked, and then the reply is "unhandled"
                    sim.check("reply-matches-responder", b.get(b"_error_code") == b"UNHANDLED" and None in h.offered(s, q.cmd, q.seq0),
                              "unhandled-session", lambda: "side %s n=%d (%s): no responder ran, box %r, offered since the question "
                              "was asked: %r" % (s, n, q.cmd, b, sorted(h.offered(s, q.cmd, q.seq0), key=repr)))
                    if b.get(b"_error_code") == b"UNHANDLED" and n not in h.unhandled_seen:
                        h.unhandled_seen.add(n)
                        sim.probe("session_dependent_command_answered_unhandled")
                    continue
                if b"_answer" in b:
                    good = dec == "ok"
                else:
                    # the code this command declares for what the responder raised (own and inherited declarations only), else UNKNOWN
                    good = dec in RAISES and wire_code(q.cmd, dec) in (None, b.get(b"_error_code"))
                sim.check("reply-matches-responder", good, "responder",
                          lambda: "side %s n=%d (%s) responder chose %r but box is %r" % (s, n, q.cmd, dec, b))
            # --- responder invocations
            # boxes from index `lim` on were received after the application paused s's protocol (and s has not been resumed
            # since): s may still hold them unprocessed, no verdict on whether it has acted on them yet
            lim = len(delivered[s]) if h.hold[s] is None else min(h.hold[s], len(delivered[s]))
            asked = [int(b[b"n"]) for b in delivered[s] if b"_command" in b and b[b"_command"] != b"Nope"]
            must = [int(b[b"n"]) for b in delivered[s][:lim] if b"_command" in b and b[b"_command"] != b"Nope"]
            for n in asked:
                ran = h.invoked.get((s, n), 0)
                notoffered = h.byn[n].cmd in DYNAMIC and None in h.offered(s, h.byn[n].cmd, h.byn[n].seq0)
                sim.check("responder-ran-once", ran == 1 or (ran == 0 and (n not in must or notoffered)), "responder",
                          "side %s command n=%d delivered, responder ran %d times" % (s, n, ran))
            sim.check("no-spurious-responder", set(k[1] for k in h.invoked if k[0] == s) <= set(asked), "responder",
                      lambda: "side %s responders ran for %r, commands delivered %r" % (s, sorted(k[1] for k in h.invoked if k[0] == s), asked))
            # --- caller side
            answered, waiting = {}, set()
            for i, b in enumerate(delivered[s]):
                tag = b.get(b"_answer", b.get(b"_error"))
                if tag is not None and tag in tag2n[s]:
                    answered[tag2n[s][tag]] = b
                    if i >= lim:
                        waiting.add(tag2n[s][tag])
            lost = h.lost[s]
            for c in h.calls[s]:
                if c.d is None:
                    continue
                sim.check("fires-at-most-once", len(c.results) <= 1, c.cmd, lambda: "call n=%d results %s" % (c.n, show(c.results)))
                if c.after_loss:
                    continue
                fired = bool(c.results)
                r = c.results[0] if fired else None
                if c.gaveup:
                    # the caller itself cancelled the call / let it time out while it was outstanding.  The statement does not speak
                    # about what such a Deferred fires with: only "exactly once" is demanded of it (at-most-once above, once at the end
                    # of the run).  The peer cannot know and answers anyway; that answer is ordinary traffic of the connection - every
                    # clause about the OTHER calls of both sides, the responders and the protocol not raising stays in force.
                    if c.n in answered and c.n not in waiting and not c.late_seen:
                        c.late_seen = True
                        sim.probe("reply_arrived_for_call_the_caller_gave_up_on")
                        if lost is None and others_outstanding(c):
                            sim.probe("reply_for_given_up_call_arrived_with_other_calls_outstanding")
                    continue
                if c.n in waiting:
                    # reply received while s's protocol is paused by the application: it must fire (with this reply) once s is
                    # resumed; if the connection is lost before that, either this reply or the loss reason
                    if lost is not None:
                        sim.check("unanswered-fails-at-disconnect", fired, c.cmd, "n=%d still pending after connectionLost "
                                  "(its reply was received while the protocol was paused)" % c.n)
                        if isinstance(r, Failure) and r.value is lost.value:
                            continue
                    elif not fired:
                        continue
                if c.n in answered:
                    b = answered[c.n]
                    sim.check("answered-call-fired", fired, c.cmd, lambda: "n=%d reply box %r delivered but Deferred pending" % (c.n, b))
                    if b"_answer" in b:
                        exp = expected_response(c.cmd, c.n, o.encode(), c.fill, h.via.get((o, c.n)))
                        sim.check("own-answer", r == exp, c.cmd, lambda: "n=%d got %s expected %r (box %r)" % (c.n, show(r), exp, b))
                    else:
                        code = b.get(b"_error_code")
                        sim.check("own-error", isinstance(r, Failure), c.cmd, lambda: "n=%d error box %r but result %s" % (c.n, b, show(r)))
                        if c.cmd == "Nope":
                            continue
                        if code == b"UNKNOWN":
                            ok = r.check(amp.UnknownRemoteError) is not None
                        elif code == b"UNHANDLED" and c.cmd in DYNAMIC:
                            ok = r.check(amp.UnhandledCommand) is not None
                        else:
                            # the exception class the CALLED command declares under this code
                            classes = error_classes(c.cmd, code)
                            ok = bool(classes) and r.check(*classes) is not None and ("n=%d" % c.n) in str(r.value)
                        sim.check("own-error", ok, c.cmd, lambda: "n=%d error box %r but result %s" % (c.n, b, show(r)))
                elif lost is not None:
                    sim.check("unanswered-fails-at-disconnect", fired, c.cmd, "n=%d still pending after connectionLost" % c.n)
                    sim.check("fails-with-loss-reason", isinstance(r, Failure) and r.value is lost.value, c.cmd,
                              lambda: "n=%d got %s, connectionLost reason was %s" % (c.n, show(r), type(lost.value).__name__))
                else:
                    sim.check("no-early-fire", not fired, c.cmd, lambda: "n=%d fired with %s before any reply was delivered (connection up)" % (c.n, show(r)))

    # ------------------------------------------------------------------ schedule
    after = 0
    for opi in range(nops):
        sim.step(400 * sim.depth)
        both_lost = h.lost["A"] is not None and h.lost["B"] is not None
        live = not both_lost
        if both_lost:
            after += 1
            if after > 2:
                break
        ops = [("net", 50 if live and link.enabled() else 0),
               ("callA", 10 if can_call("A") else 0), ("callB", 10 if can_call("B") else 0),
               ("late", 10 if h.late else 0),
               ("apppause", 2 if pause_p and any(h.lost[s] is None and not h.paused[s] for s in "AB") else 0),
               ("appresume", 12 if any(h.lost[s] is None and h.paused[s] for s in "AB") else 0),
               ("reoffer", 4 if session_p and live else 0),
               ("cancel", (2 if giveup < 0.2 else 5) if giveup and outstanding() else 0),
               ("tick", 5 if giveup and sim.clock.pending() else 0),
               ("cutdrop", fault_rate if live else 0),
               ("drop", fault_rate if live else 0),
               ("close", fault_rate if live else 0),
               ("abort", fault_rate if live else 0)]
        if opi == sw_at:
            op = "switch"
        elif not any(w for _o, w in ops):
            break                                   # both sides locked by the switch and nothing left to happen
        else:
            op = sim.draw_weighted(ops, "op")
        if op == "switch":
            if h.lost["A"] is None and h.lost["B"] is None:
                do_switch(sw_side)
            else:
                sim.event("switch-skipped")
        elif op == "net":
            with sim.guard("protocol-raised", "net"):
                for _k in range(sim.draw_int(1, 4, "nsteps")):
                    if not link.step():
                        break
                    check_all()
        elif op == "callA":
            do_call("A")
        elif op == "callB":
            do_call("B")
        elif op == "late":
            h.fire_late()
        elif op == "apppause":
            h.pause(sim.draw_choice([s for s in "AB" if h.lost[s] is None and not h.paused[s]], "pause_side"), "between_deliveries")
        elif op == "appresume":
            h.resume(sim.draw_choice([s for s in "AB" if h.lost[s] is None and h.paused[s]], "resume_side"), "later")
        elif op == "reoffer":
            h.reoffer(sim.draw_choice(["A", "B"], "reoffer_side"), "between_deliveries")
        elif op == "cancel":
            do_cancel("between_deliveries")
        elif op == "tick":
            # time passes: the earliest of the callers' timeouts expires
            sim.event("tick")
            with sim.guard("timeout-raised", "tick"):
                sim.clock.run_next()
        elif op == "cutdrop":
            # connection loss at an exact byte boundary of one direction
            to = sim.draw_choice(["A", "B"], "cut_dir")
            frm = "B" if to == "A" else "A"
            with sim.guard("protocol-raised", "net"):
                if trans[frm].out and not trans[frm].disconnected:
                    link.do("xmit", frm)
                nfl = len(link.flight[to])
                k = sim.draw_int(0, nfl, "cut_at")
                sim.event("cutdrop", to, k, nfl)
                if k and trans[to].reading and not trans[to].disconnected:
                    link.do("deliver", to, k)
                    check_all()
                if nfl:
                    sim.probe("cut_inside_flight" if 0 < k < nfl else "cut_at_edge")
                link.drop(sim.draw_choice(["A", "B"], "first"), clean=sim.draw_bool(0.3, "clean"))
        elif op == "drop":
            sim.event("drop")
            with sim.guard("protocol-raised", "net"):
                link.drop(sim.draw_choice(["A", "B"], "first"), clean=sim.draw_bool(0.3, "clean"))
        elif op in ("close", "abort"):
            s = sim.draw_choice(["A", "B"], "closer")
            sim.event(op, s)
            if not trans[s].disconnected:
                sim.fault("local_" + op)
                if op == "close":
                    trans[s].loseConnection()
                else:
                    trans[s].abortConnection()
        check_all()
        sim.state((min(len(h.late), 3), h.lost["A"] is not None, h.lost["B"] is not None, h.sw_state,
                   min(sum(1 for c in h.calls["A"] if c.d is not None and not c.results), 3),
                   min(sum(1 for c in h.calls["B"] if c.d is not None and not c.results), 3)))

    # ------------------------------------------------------------------ end of run
    for s in "AB":
        if h.paused[s] and h.lost[s] is None and sim.draw_bool(0.6, "final_resume"):
            h.resume(s, "later")
            check_all()
    if h.lost["A"] is None or h.lost["B"] is None:
        sim.event("final-drop")
        with sim.guard("protocol-raised", "net"):
            link.drop(sim.draw_choice(["A", "B"], "first"))
        check_all()
    while h.late:                      # answers produced after the connection is gone
        h.fire_late()
        check_all()
    for s in "AB":
        do_call(s)                     # calls after loss
    check_all()
    for s in "AB":
        for c in h.calls[s]:
            if c.d is not None:
                sim.check("fires-exactly-once", len(c.results) == 1, c.cmd, lambda: "n=%d results %s at end of run" % (c.n, show(c.results)))
    allc = [c for s in "AB" for c in h.calls[s] if c.d is not None and not c.after_loss]
    n_lossfail = sum(1 for c in allc if c.results and isinstance(c.results[0], Failure)
                     and c.results[0].check(error.ConnectionLost, error.ConnectionDone, error.ConnectionAborted))
    n_answered = sum(1 for c in allc if c.results and not isinstance(c.results[0], Failure))
    if n_lossfail:
        sim.probe("failed_at_disconnect", n_lossfail)
    if n_answered:
        sim.probe("answered", n_answered)
    n_err = sum(1 for c in allc if c.results and isinstance(c.results[0], Failure)
                and c.results[0].check(DeclaredErr, FatalErr, amp.UnknownRemoteError))
    if n_err:
        sim.probe("remote_error_result", n_err)
    if h.sw_state == 2 and h.sw_pending:
        n_sw = sum(1 for c in allc if c.cmd != "Switch" and c.results and isinstance(c.results[0], Failure)
                   and c.results[0].check(error.ConnectionLost, error.ConnectionDone, error.ConnectionAborted))
        if n_sw:
            sim.probe("failed_at_disconnect_after_switch", n_sw)
    sim.nontrivial = bool(n_lossfail and n_answered and (h.flags["late"] or h.flags["err"]))


MUTANTS = [
    "amp.py _nextTag: tag = counter % 4 (tag reuse) -> caught (ask-tag-unique)",
    "amp.py failAllOutgoing: errback skipped -> caught (unanswered-fails-at-disconnect)",
    "amp.py failAllOutgoing: only every other outstanding request failed -> caught (unanswered-fails-at-disconnect)",
    "amp.py _sendBoxCommand: _failAllReason check removed (call after loss) -> caught (callRemote-raised:*:ConnectionLost)",
    "amp.py _answerReceived: request not popped (fires again at disconnect) -> caught (protocol-raised:net:AlreadyCalledError)",
    "amp.py _doCommand._massageError: every remote error mapped to UnknownRemoteError -> caught (own-error)",
    "amp.py BinaryBoxProtocol.connectionLost: reason replaced by a fresh ConnectionLost -> caught (fails-with-loss-reason)",
    "amp.py _commandReceived: dispatchCommand called twice -> caught (responder-ran-once)",
    "amp.py _errorReceived: pops the lowest outstanding tag instead of the box's -> caught (no-early-fire)",
    "seeded/C31-r2-switch-skips-failall (BinaryBoxProtocol.connectionLost returns after notifying the inner protocol, "
    "stopReceivingBoxes skipped once switched) -> missed before the Switch workload existed; now caught (unanswered-fails-at-disconnect)",
    "amp.py BinaryBoxProtocol._switchTo: errbacks and clears all outstanding requests with ProtocolSwitched at switch time "
    "-> caught (no-early-fire)",
    "amp.py BinaryBoxProtocol.connectionLost: reason replaced by a fresh ConnectionLost only when an inner protocol exists "
    "-> caught (fails-with-loss-reason)",
    "amp.py ProtocolSwitchCommand._doCommand.handle: _unlockFromSwitch skipped after a refused switch "
    "-> caught (callRemote-raised:*:ProtocolSwitched)",
    "amp.py ProtocolSwitchCommand._doCommand.switchNow: result dropped (Deferred fires with None) -> caught (own-answer:Switch)",
    "amp.py _SwitchBox._sendTo: responder side not locked (late answers written after the acknowledgement reach the caller's inner "
    "protocol) -> survives by design: the statement gives no verdict on bytes after the switch; the affected calls are unanswered and "
    "still fail at disconnect",
    "seeded/C31-r4a (_CommandMeta: a Command subclass writes its error declarations into its parent's reverseErrors/allErrors) -> "
    "missed while every command derived directly from amp.Command; now caught (reply-matches-responder, own-error)",
    "amp.py _CommandMeta: only reverseErrors shared with the parent (caller-side mapping) -> caught (own-error:Echo, own-error:Twice); "
    "survived until the code-reusing subclass was defined LAST in its family (a later relative re-stated the inherited code)",
    "amp.py _CommandMeta: errors not inherited (own declarations only) -> caught (reply-matches-responder)",
    "amp.py _CommandMeta: subclass's allErrors merged into every base's allErrors -> caught (reply-matches-responder)",
    "seeded/C31-r4b (BinaryBoxProtocol.dataReceived ignores empty deliveries, so resumeProducing() drains nothing) -> missed while no "
    "peer was ever paused; now caught (answered-call-fired, responder-ran-once)",
    "basic.py _PauseableMixin.resumeProducing: dataReceived(b'') dropped -> caught (answered-call-fired, responder-ran-once)",
    "basic.py IntNStringReceiver.dataReceived: buffered rest discarded when the loop stops because of a pause -> caught "
    "(responder-ran-once, answered-call-fired)",
    "basic.py IntNStringReceiver.dataReceived: a pause issued while resumeProducing() drains the buffer is ignored -> survives by design "
    "(no verdict on a paused protocol acting on boxes it already holds)",
    "seeded/C31-r5b (checkKnownErrors looks the failure's exact class up in allErrors) -> missed while responders raised only the "
    "literally declared classes; now caught (reply-matches-responder) with responders raising subclasses of declared classes",
    "seeded/C31-r5a (_sendBoxCommand: canceller that forgets the tag; the late answer then raises KeyError) -> missed while no caller "
    "ever gave up on a call; now caught (protocol-raised:net:KeyError, protocol-raised:resumeProducing:KeyError, and "
    "protocol-raised:net:AlreadyCalledError when a result callback running inside failAllOutgoing cancels another outstanding call)",
    "seeded/C31-r6b (BoxDispatcher.dispatchCommand keeps the responder it located for a command name and reuses it for later boxes) "
    "-> missed while every name was handled by the static Command.responder table; now caught (answered-by-offered-responder:Gated/"
    "Staged) with session-dependent locators whose offer changes during the connection",
    "amp.py dispatchCommand: a name once found unhandled is answered UNHANDLED for the rest of the connection -> caught "
    "(reply-matches-responder:unhandled-session)",
    "amp.py _sendBoxCommand on the synchronous pipe with SYNC_UNCORKED_CALL_P = 0.3 (unchanged tree!) -> answered-call-fired (answer "
    "delivered inside callRemote, KeyError in _answerReceived swallowed by the answering side's unhandledError); knob kept at 0, see "
    "ASSUMPTIONS",
    "re-run with the Switch workload: failAllOutgoing errback skipped, _nextTag % 4, fresh loss reason, dispatchCommand twice, "
    "_answerReceived without pop -> all still caught with the clauses listed above",
]
