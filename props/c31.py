"""C31 — AMP matches answers to questions and fails pending calls on disconnect.

Engine E3 (net): two real amp.AMP peers over detsim.net.Link.  Both issue
callRemote (three answered commands with different response shapes, one
requiresAnswer=False command, one command the peer has no responder for)
concurrently, also re-entrantly from result callbacks; responders answer at
once, later (a Deferred the tape fires at any later step, in any order, also
after the connection is gone), with a declared error, a declared fatal error,
an undeclared error, or never.  Faults: connection loss at a tape-chosen byte
boundary of either direction (deliver k bytes of what is in flight, then drop),
drop at any step, clean close and abort by either side, plus the closes AMP
itself performs after fatal/undeclared errors.

Oracle = wire-level reference model, independent of amp.py: the byte streams
each peer wrote / was delivered are parsed with an own 20-line box parser.
After every operation, for each side S and each of its calls c:
  * c's answer/error box has been completely delivered to S  <=>  c's Deferred
    has fired, exactly once, with exactly that box's content (own n echoed,
    own command's response shape) / the declared error class carrying n /
    UnknownRemoteError for code UNKNOWN;
  * otherwise, if S's connectionLost has been called: fired exactly once with a
    failure wrapping the very exception S.connectionLost received;
  * otherwise still pending;
  * calls issued after S's connectionLost began have failed before callRemote
    returned;
and on the responder side: every reply box S wrote answers a question S was
really asked, at most once per question, with the outcome the responder chose;
a responder ran exactly once per completely delivered command box; _ask tags
are never reused.  At the end the link is dropped and no Deferred is pending.
"""
from twisted.internet import defer, error
from twisted.protocols import amp
from twisted.python.failure import Failure
from detsim import net

ID = "C31"
ENGINE = "net"
LEVEL = "exploration"
TECHNIQUE = ("deterministic simulation: two real AMP peers over a simulated link, seeded call/answer interleaving, "
             "disconnects at byte boundaries; wire-level reference model compared after every step")
QUICK_RUNS = 24000
BATCH = 100
RUN_WALL_LIMIT_S = 120   # runs take milliseconds; generous so that an overloaded host is not mistaken for a hang
COMPONENTS = {"real": ["twisted.protocols.amp.AMP (BoxDispatcher, BinaryBoxProtocol, CommandLocator, Command)",
                       "twisted.protocols.basic.Int16StringReceiver"],
              "stub": ["TCP transport, segmentation, loss/close/abort (detsim.net.Link)", "responder bodies and callRemote callers (tape-driven)"]}
RULE = ("run = up to 60 tape-chosen operations (callRemote from either peer, fire a deferred responder result, network event, "
        "close/abort/drop/cut-at-byte-k) on two connected AMP peers, then a final drop; non-trivial = at least one call was unanswered "
        "at disconnect AND at least one call was answered AND (a responder answered late or with an error)")
ASSUMPTIONS = ["callers attach a callback that handles every result (no unhandledError path from user code)",
               "responders return well-formed responses; no TLS / protocol switching"]


class DeclaredErr(Exception):
    pass


class FatalErr(Exception):
    pass


class Undeclared(Exception):
    pass


class Echo(amp.Command):
    arguments = [(b"n", amp.Integer())]
    response = [(b"n", amp.Integer()), (b"who", amp.String())]
    errors = {DeclaredErr: b"DECL"}
    fatalErrors = {FatalErr: b"FATAL"}


class Twice(amp.Command):
    arguments = [(b"n", amp.Integer())]
    response = [(b"m", amp.Integer())]
    errors = {DeclaredErr: b"DECL"}
    fatalErrors = {FatalErr: b"FATAL"}


class Pad(amp.Command):
    arguments = [(b"n", amp.Integer()), (b"fill", amp.String())]
    response = [(b"n", amp.Integer()), (b"fill", amp.String())]
    errors = {DeclaredErr: b"DECL"}
    fatalErrors = {FatalErr: b"FATAL"}


class Note(amp.Command):
    arguments = [(b"n", amp.Integer())]
    response = []
    requiresAnswer = False


class Nope(amp.Command):          # nobody has a responder for this
    arguments = [(b"n", amp.Integer())]
    response = [(b"n", amp.Integer())]


CMDS = {"Echo": Echo, "Twice": Twice, "Pad": Pad, "Note": Note, "Nope": Nope}


# ------------------------------------------------------------------ reference

def parse_boxes(data):
    """Independent AMP wire parser: list of complete boxes (dict bytes->bytes)."""
    boxes, cur, pos, n = [], {}, 0, len(data)
    while pos + 2 <= n:
        kl = (data[pos] << 8) | data[pos + 1]
        if kl == 0:
            boxes.append(cur)
            cur = {}
            pos += 2
            continue
        if pos + 2 + kl + 2 > n:
            break
        key = bytes(data[pos + 2:pos + 2 + kl])
        vp = pos + 2 + kl
        vl = (data[vp] << 8) | data[vp + 1]
        if vp + 2 + vl > n:
            break
        cur[key] = bytes(data[vp + 2:vp + 2 + vl])
        pos = vp + 2 + vl
    return boxes


def expected_response(cmd, n, who, fill):
    if cmd == "Echo":
        return {"n": n, "who": who}
    if cmd == "Twice":
        return {"m": 2 * n}
    if cmd == "Pad":
        return {"n": n, "fill": fill}
    return None


def show(x):
    """Address-free rendering of results for violation details."""
    if isinstance(x, list):
        return "[" + ", ".join(show(i) for i in x) + "]"
    if isinstance(x, Failure):
        return "Failure(%s: %s)" % (x.type.__name__, str(x.value)[:80])
    return repr(x)


class Call:
    def __init__(self, n, cmd, side, after_loss, fill):
        self.n, self.cmd, self.side, self.after_loss, self.fill = n, cmd, side, after_loss, fill
        self.results = []
        self.d = None


def make_peer(h, name):
    class Peer(amp.AMP):
        def connectionLost(self, reason):
            h.lost[name] = reason
            h.sim.event("lost", name, reason.type.__name__)
            amp.AMP.connectionLost(self, reason)

        def _r(self, cmd, n, fill=None):
            return h.respond(name, cmd, n, fill)

        @Echo.responder
        def echo(self, n):
            return self._r("Echo", n)

        @Twice.responder
        def twice(self, n):
            return self._r("Twice", n)

        @Pad.responder
        def pad(self, n, fill):
            return self._r("Pad", n, fill)

        @Note.responder
        def note(self, n):
            return self._r("Note", n)

    return Peer()


class Harness:
    def __init__(self, sim):
        self.sim = sim
        self.lost = {"A": None, "B": None}
        self.calls = {"A": [], "B": []}
        self.byn = {}
        self.next_n = 1
        self.invoked = {}       # (side, n) -> count
        self.decision = {}      # (side, n) -> "ok"|"declared"|"fatal"|"undeclared"|"pending"
        self.late = []          # (side, n, cmd, fill, Deferred)
        self.flags = {"late": 0, "err": 0}

    # -- responder bodies (tape-driven)
    def outcome_value(self, side, cmd, n, fill, kind):
        if kind == "ok":
            return expected_response(cmd, n, side.encode(), fill) if cmd != "Note" else {}
        if kind == "declared":
            return Failure(DeclaredErr("declared n=%d" % n))
        if kind == "fatal":
            return Failure(FatalErr("fatal n=%d" % n))
        return Failure(Undeclared("undeclared n=%d" % n))

    def respond(self, side, cmd, n, fill):
        sim = self.sim
        self.invoked[(side, n)] = self.invoked.get((side, n), 0) + 1
        if cmd == "Note":
            kind = sim.draw_weighted([("ok", 8), ("undeclared", 1)], "note_resp")
            sim.event("respond", side, cmd, n, kind)
            if kind != "ok":
                sim.fault("note_responder_raises")
                raise Undeclared("note n=%d" % n)
            return {}
        kind = sim.draw_weighted([("ok", 9), ("later", 6), ("declared", 2), ("undeclared", 1), ("fatal", 1)], "resp")
        sim.event("respond", side, cmd, n, kind)
        if kind == "later":
            d = defer.Deferred()
            self.decision[(side, n)] = "pending"
            self.late.append((side, n, cmd, fill, d))
            self.flags["late"] += 1
            return d
        self.decision[(side, n)] = kind
        if kind != "ok":
            self.flags["err"] += 1
        v = self.outcome_value(side, cmd, n, fill, kind)
        if isinstance(v, Failure):
            v.raiseException()
        return v

    def fire_late(self):
        sim = self.sim
        side, n, cmd, fill, d = self.late.pop(sim.draw_int(0, len(self.late) - 1, "which_late"))
        kind = sim.draw_weighted([("ok", 6), ("declared", 2), ("undeclared", 1), ("fatal", 1)], "late_resp")
        sim.event("fire_late", side, cmd, n, kind)
        self.decision[(side, n)] = kind
        if kind != "ok":
            self.flags["err"] += 1
        v = self.outcome_value(side, cmd, n, fill, kind)
        with sim.guard("protocol-raised", "late-response"):
            if isinstance(v, Failure):
                d.errback(v)
            else:
                d.callback(v)


def run(sim):
    nops = sim.draw_int(8, 60, "nops")
    fault_rate = sim.draw_choice([0, 1, 2], "fault_rate")
    reent = sim.draw_choice([0.0, 0.0, 0.25], "reentrancy")
    sim.config = {"nops": nops, "fault_rate": fault_rate, "reentrancy": reent}
    h = Harness(sim)
    peers = {"A": make_peer(h, "A"), "B": make_peer(h, "B")}
    link = net.Link(sim, peers["A"], peers["B"])
    trans = {"A": link.a, "B": link.b}
    link.connect()
    depth = [0]

    def on_result(res, call):
        call.results.append(res)
        sim.event("result", call.side, call.n, "F:" + res.type.__name__ if isinstance(res, Failure) else "ok")
        if reent and depth[0] < 2 and sim.draw_bool(reent, "reenter"):
            depth[0] += 1
            sim.probe("reentrant_call")
            try:
                do_call(call.side)
            finally:
                depth[0] -= 1
        return None

    def do_call(side):
        cmd = sim.draw_weighted([("Echo", 4), ("Twice", 3), ("Pad", 2), ("Note", 2), ("Nope", 1)], "cmd")
        n = h.next_n
        h.next_n += 1
        fill = None
        kw = {"n": n}
        if cmd == "Pad":
            fill = sim.draw_bytes(sim.draw_choice([0, 1, 5, 40, 300], "filllen"), b"\x00ab\xff")
            kw["fill"] = fill
        after_loss = h.lost[side] is not None
        c = Call(n, cmd, side, after_loss, fill)
        h.calls[side].append(c)
        h.byn[n] = c
        sim.event("call", side, cmd, n, "after-loss" if after_loss else "")
        with sim.guard("callRemote-raised", cmd):
            d = peers[side].callRemote(CMDS[cmd], **kw)
        if cmd == "Note":
            sim.check("no-answer-returns-none", d is None, "Note", "callRemote returned a %s" % type(d).__name__)
            return
        sim.check("returns-deferred", isinstance(d, defer.Deferred), cmd, "callRemote returned a %s" % type(d).__name__)
        c.d = d
        d.addBoth(on_result, c)
        if after_loss:
            sim.probe("call_after_loss")
            sim.check("after-loss-fails-immediately", len(c.results) == 1 and isinstance(c.results[0], Failure), cmd,
                      "call issued after connectionLost: results=%s" % show(c.results))

    def check_all():
        written = {s: parse_boxes(trans[s].written) for s in "AB"}
        delivered = {s: parse_boxes(link.delivered[s]) for s in "AB"}
        tag2n = {}
        for s in "AB":
            m = {}
            for b in written[s]:
                if b"_command" in b and b"_ask" in b:
                    sim.check("ask-tag-unique", b[b"_ask"] not in m, "tag", "side %s reused tag %r" % (s, b[b"_ask"]))
                    m[b[b"_ask"]] = int(b[b"n"])
            tag2n[s] = m
        for s, o in (("A", "B"), ("B", "A")):
            # --- responder side: replies S wrote
            replied = set()
            for b in written[s]:
                tag = b.get(b"_answer", b.get(b"_error"))
                if tag is None:
                    continue
                sim.check("reply-to-real-question", tag in tag2n[o], "responder", "side %s replied to unknown tag %r" % (s, tag))
                n = tag2n[o][tag]
                sim.check("one-reply-per-question", n not in replied, "responder", "side %s replied twice to n=%d" % (s, n))
                replied.add(n)
                q = h.byn[n]
                dec = h.decision.get((s, n))
                if q.cmd == "Nope":
                    sim.check("reply-matches-responder", b.get(b"_error_code") == b"UNHANDLED", "unhandled", "box %r" % (b,))
                    continue
                if b"_answer" in b:
                    want = "ok"
                else:
                    want = {b"DECL": "declared", b"FATAL": "fatal", b"UNKNOWN": "undeclared"}.get(b.get(b"_error_code"), "?")
                sim.check("reply-matches-responder", dec == want, "responder",
                          lambda: "side %s n=%d responder chose %r but box is %r" % (s, n, dec, b))
            # --- responder invocations
            asked = [int(b[b"n"]) for b in delivered[s] if b"_command" in b and b[b"_command"] != b"Nope"]
            for n in asked:
                sim.check("responder-ran-once", h.invoked.get((s, n), 0) == 1, "responder",
                          "side %s command n=%d delivered, responder ran %d times" % (s, n, h.invoked.get((s, n), 0)))
            sim.check("no-spurious-responder", sum(1 for k in h.invoked if k[0] == s) == len(set(asked)), "responder",
                      lambda: "side %s responders ran for %r, commands delivered %r" % (s, sorted(k[1] for k in h.invoked if k[0] == s), asked))
            # --- caller side
            answered = {}
            for b in delivered[s]:
                tag = b.get(b"_answer", b.get(b"_error"))
                if tag is not None and tag in tag2n[s]:
                    answered[tag2n[s][tag]] = b
            lost = h.lost[s]
            for c in h.calls[s]:
                if c.d is None:
                    continue
                sim.check("fires-at-most-once", len(c.results) <= 1, c.cmd, lambda: "call n=%d results %s" % (c.n, show(c.results)))
                if c.after_loss:
                    continue
                r = c.results[0] if c.results else None
                if c.n in answered:
                    b = answered[c.n]
                    sim.check("answered-call-fired", r is not None, c.cmd, lambda: "n=%d reply box %r delivered but Deferred pending" % (c.n, b))
                    if b"_answer" in b:
                        exp = expected_response(c.cmd, c.n, o.encode(), c.fill)
                        sim.check("own-answer", r == exp, c.cmd, lambda: "n=%d got %s expected %r (box %r)" % (c.n, show(r), exp, b))
                    else:
                        code = b.get(b"_error_code")
                        sim.check("own-error", isinstance(r, Failure), c.cmd, lambda: "n=%d error box %r but result %s" % (c.n, b, show(r)))
                        if c.cmd == "Nope":
                            continue
                        if code == b"UNKNOWN":
                            ok = r.check(amp.UnknownRemoteError) is not None
                        elif code == b"DECL":
                            ok = r.check(DeclaredErr) is not None and ("n=%d" % c.n) in str(r.value)
                        elif code == b"FATAL":
                            ok = r.check(FatalErr) is not None and ("n=%d" % c.n) in str(r.value)
                        else:
                            ok = False
                        sim.check("own-error", ok, c.cmd, lambda: "n=%d error box %r but result %s" % (c.n, b, show(r)))
                elif lost is not None:
                    sim.check("unanswered-fails-at-disconnect", r is not None, c.cmd, "n=%d still pending after connectionLost" % c.n)
                    sim.check("fails-with-loss-reason", isinstance(r, Failure) and r.value is lost.value, c.cmd,
                              lambda: "n=%d got %s, connectionLost reason was %s" % (c.n, show(r), type(lost.value).__name__))
                else:
                    sim.check("no-early-fire", r is None, c.cmd, lambda: "n=%d fired with %s before any reply was delivered (connection up)" % (c.n, show(r)))

    # ------------------------------------------------------------------ schedule
    after = 0
    for _ in range(nops):
        sim.step(400)
        both_lost = h.lost["A"] is not None and h.lost["B"] is not None
        live = not both_lost
        if both_lost:
            after += 1
            if after > 2:
                break
        ops = [("net", 50 if live and link.enabled() else 0),
               ("callA", 10), ("callB", 10),
               ("late", 10 if h.late else 0),
               ("cutdrop", fault_rate if live else 0),
               ("drop", fault_rate if live else 0),
               ("close", fault_rate if live else 0),
               ("abort", fault_rate if live else 0)]
        op = sim.draw_weighted(ops, "op")
        if op == "net":
            with sim.guard("protocol-raised", "net"):
                for _k in range(sim.draw_int(1, 4, "nsteps")):
                    if not link.step():
                        break
                    check_all()
        elif op == "callA":
            do_call("A")
        elif op == "callB":
            do_call("B")
        elif op == "late":
            h.fire_late()
        elif op == "cutdrop":
            # connection loss at an exact byte boundary of one direction
            to = sim.draw_choice(["A", "B"], "cut_dir")
            frm = "B" if to == "A" else "A"
            with sim.guard("protocol-raised", "net"):
                if trans[frm].out and not trans[frm].disconnected:
                    link.do("xmit", frm)
                nfl = len(link.flight[to])
                k = sim.draw_int(0, nfl, "cut_at")
                sim.event("cutdrop", to, k, nfl)
                if k and trans[to].reading and not trans[to].disconnected:
                    link.do("deliver", to, k)
                    check_all()
                if nfl:
                    sim.probe("cut_inside_flight" if 0 < k < nfl else "cut_at_edge")
                link.drop(sim.draw_choice(["A", "B"], "first"), clean=sim.draw_bool(0.3, "clean"))
        elif op == "drop":
            sim.event("drop")
            with sim.guard("protocol-raised", "net"):
                link.drop(sim.draw_choice(["A", "B"], "first"), clean=sim.draw_bool(0.3, "clean"))
        elif op in ("close", "abort"):
            s = sim.draw_choice(["A", "B"], "closer")
            sim.event(op, s)
            if not trans[s].disconnected:
                sim.fault("local_" + op)
                if op == "close":
                    trans[s].loseConnection()
                else:
                    trans[s].abortConnection()
        check_all()
        sim.state((min(len(h.late), 3), h.lost["A"] is not None, h.lost["B"] is not None,
                   min(sum(1 for c in h.calls["A"] if c.d is not None and not c.results), 3),
                   min(sum(1 for c in h.calls["B"] if c.d is not None and not c.results), 3)))

    # ------------------------------------------------------------------ end of run
    if h.lost["A"] is None or h.lost["B"] is None:
        sim.event("final-drop")
        with sim.guard("protocol-raised", "net"):
            link.drop(sim.draw_choice(["A", "B"], "first"))
        check_all()
    while h.late:                      # answers produced after the connection is gone
        h.fire_late()
        check_all()
    for s in "AB":
        do_call(s)                     # calls after loss
    check_all()
    for s in "AB":
        for c in h.calls[s]:
            if c.d is not None:
                sim.check("fires-exactly-once", len(c.results) == 1, c.cmd, lambda: "n=%d results %s at end of run" % (c.n, show(c.results)))
    allc = [c for s in "AB" for c in h.calls[s] if c.d is not None and not c.after_loss]
    n_lossfail = sum(1 for c in allc if c.results and isinstance(c.results[0], Failure)
                     and c.results[0].check(error.ConnectionLost, error.ConnectionDone, error.ConnectionAborted))
    n_answered = sum(1 for c in allc if c.results and not isinstance(c.results[0], Failure))
    if n_lossfail:
        sim.probe("failed_at_disconnect", n_lossfail)
    if n_answered:
        sim.probe("answered", n_answered)
    n_err = sum(1 for c in allc if c.results and isinstance(c.results[0], Failure)
                and c.results[0].check(DeclaredErr, FatalErr, amp.UnknownRemoteError))
    if n_err:
        sim.probe("remote_error_result", n_err)
    sim.nontrivial = bool(n_lossfail and n_answered and (h.flags["late"] or h.flags["err"]))


MUTANTS = [
    "amp.py _nextTag: tag = counter % 4 (tag reuse) -> caught (ask-tag-unique)",
    "amp.py failAllOutgoing: errback skipped -> caught (unanswered-fails-at-disconnect)",
    "amp.py failAllOutgoing: only every other outstanding request failed -> caught (unanswered-fails-at-disconnect)",
    "amp.py _sendBoxCommand: _failAllReason check removed (call after loss) -> caught (callRemote-raised:*:ConnectionLost)",
    "amp.py _answerReceived: request not popped (fires again at disconnect) -> caught (protocol-raised:net:AlreadyCalledError)",
    "amp.py _doCommand._massageError: every remote error mapped to UnknownRemoteError -> caught (own-error)",
    "amp.py BinaryBoxProtocol.connectionLost: reason replaced by a fresh ConnectionLost -> caught (fails-with-loss-reason)",
    "amp.py _commandReceived: dispatchCommand called twice -> caught (responder-ran-once)",
    "amp.py _errorReceived: pops the lowest outstanding tag instead of the box's -> caught (no-early-fire)",
]
