"""C57 — log observers receive every event; level filters honour the namespace hierarchy; limited history.

Engine E1 (tasks) with fault injection at the observer seam: a real LogPublisher
with up to 6 recording observers.  The tape decides, per delivery, whether an
observer raises and whether it re-entrantly emits another event (from inside the
delivery of an ordinary event or of a failure report); between emissions observers
are added / removed, and in some runs also from inside a delivery.  Each observer is
named to the publisher either as the callable object itself or as a bound method of
it that is evaluated anew for every addObserver / removeObserver (an equal, not
identical, object: registering it again must change nothing, removing it must take
the registered one out).  Up to three real FilteringLogObserver(LogLevelFilterPredicate)
pairs are alive at once (built at the start or in mid-run), each fed by one observer,
each with its own default and namespace levels which the tape reconfigures and
queries interleaved; one observer forwards to a real LimitedHistoryLogObserver that
is replayed.
Oracles: (1) per event (original, re-entrant, or failure report) the list of
observers that received it equals the expected list, exactly once each, in
registration order; a failure report goes to every observer of the failed
delivery except the one that raised; an observer added or removed while a dispatch
is under way gets no verdict for the events in flight, every other observer does; (2) per filter, decision == longest configured
dotted prefix rule computed independently from that filter's own configuration; (3) replay == last N events given
to the history observer.
"""
from twisted.logger import (FilteringLogObserver, LimitedHistoryLogObserver, Logger, LogLevel,
                            LogLevelFilterPredicate, LogPublisher)
from twisted.python.failure import Failure

ID = "C57"
ENGINE = "tasks"
LEVEL = "exploration"
TECHNIQUE = "deterministic simulation: seeded event streams with raising / re-entrant observers (fault injection at the observer seam) vs fan-out, prefix-rule and ring-buffer reference models"
QUICK_RUNS = 32000
TWIN_P = 0.08   # this share of the runs drives two independent instances of the scenario one after the other (detsim.runner._run_scenario)
USES_DEPTH = True   # thorough tier: history length bound scales with sim.depth (1..3) beyond the quick tier\'s run indices
BATCH = 150
RUN_WALL_LIMIT_S = 120   # runs take milliseconds; generous because whole-machine stalls >20 s were seen under load
COMPONENTS = {"real": ["twisted.logger.LogPublisher", "twisted.logger.Logger.emit/failure", "twisted.logger.LogLevelFilterPredicate",
                       "twisted.logger.FilteringLogObserver", "twisted.logger.LimitedHistoryLogObserver"],
              "stub": ["observers (recording; raise / re-emit on tape's decision)"]}
RULE = ("run = 5..40 operations on one LogPublisher with <=6 observers: emit (raw dict or through Logger, namespace of 1-4 dotted segments from "
        "{a,b,ab,c}, any level), add/re-add/remove observer between emissions (per observer the run fixes how it is named to the publisher: "
        "the callable object, or a bound method evaluated anew for every call - equal to but not the same object as the one registered), "
        "in a quarter of the runs also from inside a delivery (15% of the deliveries: register an absent observer, or remove one that the running "
        "dispatches have not reached yet; with UNSAFE_REMOVE_P > 0 also the handling observer itself or an earlier one), "
        "set / clear namespace levels of one of the 1..3 live level filters (each with its own default; further filters are built in mid-run, after "
        "the earlier ones were configured), query a filter's predicate, replay the history; "
        "per delivery the tape decides raise (observers are never / sometimes / always raising) and re-entrant emit (depth<=2), the latter both "
        "while an ordinary event and while the failure report of another observer is being delivered (there with half the probability; <=4 nested emits per top-level emission); "
        "non-trivial = at least one observer raised while >=2 observers were registered and at least one namespace level was configured")
ASSUMPTIONS = ["an observer added or removed while a dispatch is under way gets no verdict for the events in flight at that moment (the statement "
               "does not say whether it is still / already one of the publisher's observers for them), nor for the failure reports that stem from "
               "them; every other observer stays 'one of its observers' throughout and is judged as usual",
               "an observer is the thing the application registered: naming it again by an equal callable (a bound method obtained a second "
               "time) is registering the same observer again, and removing by an equal callable removes it - that is how addObserver / "
               "removeObserver are used with methods, and the only way a method can be removed at all",
               "removals from inside a delivery take out only observers behind the cursors of the running dispatches unless drawn with UNSAFE_REMOVE_P (0.5 of "
               "such removals; precondition of the genuine defect listed in MUTANTS, REPAIRED in /repo 5128ccf; 0 only for dev-time comparison)",
               "an ordinary event logged into the publisher from inside an observer is an event like any other, whatever the observer was handed "
               "(event or failure report): every registered observer, the one whose failure is being reported included, receives it once",
               "level filters are independent objects: what is configured on one says nothing about another (each judged against its own model)",
               "events carry a non-empty namespace and a level (the predicate documents dropping events without them; the statement is silent)",
               "a failure report is recognised by carrying the raised exception in log_failure"]

# Knob (module-level constant, precondition of a genuine defect of the tree as first examined, REPAIRED in /repo 5128ccf - see MUTANTS
# "GENUINE DEFECT"; the knob lets it into half of such removals, 0 is only for dev-time comparison): share of the
# removals issued from INSIDE a delivery that may take out an observer standing at or before the running delivery in registration
# order (the handling observer itself included).  0.0 = such removals are never generated: only observers that the running
# dispatches have not reached yet are removed from inside a delivery.  Verdicts of emissions in which such a removal fired carry
# the witness suffix '@removed-at-or-before-cursor'.
UNSAFE_REMOVE_P = 0.5

RANK = {"debug": 0, "info": 1, "warn": 2, "error": 3, "critical": 4}
LEVELS = [LogLevel.debug, LogLevel.info, LogLevel.warn, LogLevel.error, LogLevel.critical]
SEGS = ["a", "b", "ab", "c"]


class Boom(Exception):
    def __init__(self, serial):
        Exception.__init__(self, serial)
        self.serial = serial


def model_level(cfg, default, ns):
    """Level name for ns: the most specific configured dotted prefix, else the default."""
    best = None
    for c in cfg:
        if c and (ns == c or ns.startswith(c + ".")):
            if best is None or len(c) > len(best):
                best = c
    if best is not None:
        return cfg[best]
    return cfg.get("", default)


def run(sim):
    nobs = sim.draw_int(1, 6, "nobs")
    nops = sim.draw_int(5, 40 * sim.depth, "nops")
    hist_n = sim.draw_choice([3, 1, 2, 5, None, 0], "history_size")
    default_level = sim.draw_choice(["info", "debug", "warn", "error", "critical"], "default_level")
    obs_cfg = []
    for i in range(nobs):
        rp = sim.draw_choice([0.0, 0.0, 0.3, 1.0], "raise_p")
        if rp >= 1.0 and sum(1 for c in obs_cfg if c[0] >= 1.0) >= 2:
            rp = 0.3           # at most two always-raising observers (report cascades grow factorially)
        obs_cfg.append((rp, sim.draw_choice([0.0, 0.0, 0.3], "reemit_p")))
    filt_at = sim.draw_int(0, nobs - 1, "filter_at")
    hist_at = sim.draw_int(0, nobs - 1, "history_at")
    report_reemit = sim.draw_choice([True, False], "report_reemit")   # observers may log while handling a failure report
    nfilt_init = sim.draw_choice([1, 2, 1, 3], "nfilters_init")
    # how the application names an observer to the publisher: the callable object itself, or a bound method of it that is
    # evaluated anew for every addObserver / removeObserver (equal to, but not the same object as, the one registered before)
    shapes = [sim.draw_choice(["object", "method", "object"], "shape") for _ in range(nobs)]
    # observers that add / remove observers of the publisher from inside a delivery (share per delivery)
    mutate_p = sim.draw_choice([0.0, 0.0, 0.15, 0.0], "mid_dispatch_p")
    sim.config = {"observers": nobs, "ops": nops, "history": hist_n, "default": default_level,
                  "raise_p": [c[0] for c in obs_cfg], "reemit_p": [c[1] for c in obs_cfg], "filter_at": filt_at, "history_at": hist_at,
                  "report_reemit": report_reemit, "filters_init": nfilt_init,
                  "shapes": shapes, "mid_dispatch_p": mutate_p}

    class Filt:
        """One live level filter: real predicate + FilteringLogObserver, and the model of its own configuration."""
        def __init__(self, n, default, at):
            self.n = n
            self.default = default
            self.at = at               # index of the observer that forwards to this filter
            self.cfg = {}              # model of the configured namespace levels
            self.passed = []           # events the real filter let through
            with sim.guard("filter-construct-raised"):
                self.predicate = LogLevelFilterPredicate(defaultLogLevel=LogLevel.lookupByName(default))
                self.flt = FilteringLogObserver(self.passed.append, [self.predicate])

    filters = [Filt(0, default_level, filt_at)]
    fed_by = {filt_at: [filters[0]]}    # observer index -> the filters it forwards to

    def new_filter():
        n = len(filters)
        d = sim.draw_choice(["info", "debug", "warn", "error", "critical"], "default_level")
        at = sim.draw_int(0, nobs - 1, "filter_at")
        sim.event("newfilter", n, d, at)
        filters.append(Filt(n, d, at))
        fed_by.setdefault(at, []).append(filters[-1])

    for _ in range(nfilt_init - 1):
        new_filter()

    def pick_filter():
        return filters[sim.draw_int(0, len(filters) - 1, "which_filter")] if len(filters) > 1 else filters[0]

    history = LimitedHistoryLogObserver(hist_n)
    hist_model = []                # events handed to the history observer, in order

    st = {"eid": 0, "serial": 0, "depth": 0, "raised_multi": 0, "emits": 0, "configured": 0, "nested": 0, "unsafe": False}
    expect = {}                    # key -> [observer index] that must receive it, in order
    got = {}                       # key -> [observer index] that did, in order
    raised_by = {}                 # serial -> observer index
    created = []                   # keys created during the current top-level emission
    open_keys = []                 # keys whose dispatch has not finished yet (a key closes, with everything created inside, when its emit returns)
    unjudged = {}                  # key -> observer indexes added / removed while the key was open: no verdict about them for this key
    inflight = []                  # (kind, observer index) of the deliveries that are running now, outermost first

    def key_of(event):
        if "eid" in event:
            return ("e", event["eid"])
        f = event.get("log_failure")
        if isinstance(f, Failure) and isinstance(f.value, Boom):
            return ("report", f.value.serial)
        return None

    def new_event():
        st["eid"] += 1
        eid = st["eid"]
        ns = ".".join(sim.draw_choice(SEGS, "seg") for _ in range(sim.draw_int(1, 4, "nseg")))
        level = sim.draw_choice(LEVELS, "level")
        return eid, ns, level

    def emit(reentrant_from=None):
        """Emit one fresh event into the publisher (top level or from inside an observer)."""
        eid, ns, level = new_event()
        key = ("e", eid)
        expect[key] = list(reg)
        got[key] = []
        unjudged[key] = set()
        created.append(key)
        mark = len(open_keys)
        open_keys.append(key)
        try:
            _publish(eid, ns, level, reentrant_from)
        finally:
            del open_keys[mark:]

    def _publish(eid, ns, level, reentrant_from):
        raw = sim.draw_bool(0.5, "raw")
        sim.event("emit", eid, ns, level.name, "raw" if raw else "logger", "from%s" % reentrant_from if reentrant_from is not None else "")
        with sim.guard("publish-raised", "reentrant" if reentrant_from is not None else "top"):
            if raw:
                ev = {"log_level": level, "log_namespace": ns, "log_format": "event {eid}", "eid": eid}
                if sim.draw_bool(0.3, "trace"):
                    ev["log_trace"] = []
                pub(ev)
            else:
                Logger(namespace=ns, observer=pub).emit(level, "event {eid}", eid=eid)

    class Obs:
        def __init__(self, idx):
            self.idx = idx
            self.raise_p, self.reemit_p = obs_cfg[idx]

        def __call__(self, event):
            return self.observe(event)

        def observe(self, event):
            idx = self.idx
            key = key_of(event)
            if key is None or sim.violation is not None:
                return            # noise after a violation (e.g. the report of the Violation exception itself)
            inflight.append((key[0], idx))
            try:
                self._handle(event, key)
            finally:
                inflight.pop()

        def _handle(self, event, key):
            idx = self.idx
            sim.event("deliver", idx, key[0], key[1])
            sim.check("known-event", key in expect, key[0], "observer %d received %r which nobody emitted" % (idx, key))
            if key[0] == "report" and idx not in unjudged[key]:
                sim.check("report-not-to-raiser", raised_by.get(key[1]) != idx, "report",
                          "observer %d received the report of its own failure #%d" % (idx, key[1]))
            if idx not in unjudged[key]:
                sim.check("delivered-to-registered", idx in expect[key], wit(key),
                          lambda: "observer %d received %r but expected receivers are %r" % (idx, key, expect[key]))
                sim.check("delivered-once", idx not in got[key], wit(key), "observer %d received %r twice" % (idx, key))
            got[key].append(idx)
            # sinks
            if key[0] == "e":
                for f in fed_by.get(idx, ()):
                    ns, level = event["log_namespace"], event["log_level"]
                    want = RANK[level.name] >= RANK[model_level(f.cfg, f.default, ns)]
                    before = len(f.passed)
                    with sim.guard("filter-raised"):
                        f.flt(event)
                    did = len(f.passed) > before
                    sim.check("filter-decision", did == want, "pass" if want else "drop",
                              lambda: "filter %d of %d: namespace %r level %s config %r default %s: filter %s, rule says %s" % (
                                  f.n, len(filters), ns, level.name, f.cfg, f.cfg.get("", f.default), "passed" if did else "dropped",
                                  "pass" if want else "drop"))
                    sim.probe("filter_pass" if want else "filter_drop")
                    if f.n:
                        sim.probe("later_filter_decided")
            if idx == hist_at:
                hist_model.append(event)
                history(event)
            # fault: the observer set of the publisher changes while this delivery runs
            if mutate_p and sim.draw_bool(mutate_p, "mutate"):
                mutate_inside(idx)
            # faults: re-entrant emission, raising
            # (an observer may log an ordinary event whatever it is handling: an event or the report of another observer's failure)
            if ((key[0] == "e" or report_reemit) and self.reemit_p and st["depth"] < 2 and st["nested"] < 4
                    and sim.draw_bool(self.reemit_p if key[0] == "e" else self.reemit_p / 2, "reemit")):
                st["depth"] += 1
                st["nested"] += 1
                sim.fault("reentrant_emit" if key[0] == "e" else "reentrant_emit_in_report")
                try:
                    emit(reentrant_from=idx)
                finally:
                    st["depth"] -= 1
            if self.raise_p >= 1.0 or (self.raise_p and sim.draw_bool(self.raise_p, "raise")):
                st["serial"] += 1
                x = st["serial"]
                raised_by[x] = idx
                rkey = ("report", x)
                expect[rkey] = [i for i in expect[key] if i != idx]
                got[rkey] = []
                unjudged[rkey] = set(unjudged[key])    # the report goes out after the loop: to the observer set as changed meanwhile
                created.append(rkey)
                open_keys.append(rkey)
                sim.fault("observer_raised")
                if len(expect[key]) >= 2:
                    st["raised_multi"] += 1
                sim.event("raise", idx, x)
                raise Boom(x)

    observers = [Obs(i) for i in range(nobs)]

    def handle(i):
        """What the application passes to the publisher to name observer i (a bound method is a new, equal object each time)."""
        return observers[i].observe if shapes[i] == "method" else observers[i]

    ninit = sim.draw_int(0, nobs, "ninit")
    reg = list(range(ninit))       # model: registered observer indexes in registration order
    pub = LogPublisher(*[handle(i) for i in range(ninit)])

    def wit(key):
        return key[0] + ("@removed-at-or-before-cursor" if st["unsafe"] else "")

    def mutate_inside(idx):
        """From inside a delivery to observer idx: register one more observer, or remove a registered one.  The observer added or
        removed gets no verdict for the events whose dispatch is under way; every other observer does."""
        absent = [j for j in range(nobs) if j not in reg]
        if absent and (not reg or sim.draw_bool(0.5, "mutate_add")):
            j = sim.draw_choice(absent, "which")
            sim.event("add-inside", idx, j)
            sim.fault("add_inside_delivery")
            for k in open_keys:
                unjudged[k].add(j)
            reg.append(j)
            with sim.guard("add-raised", "inside"):
                pub.addObserver(handle(j))
            return
        # the dispatches of ordinary events walk the publisher's own observers; their cursors stand at the handling observers
        cursors = [i for kind, i in inflight if kind == "e"]
        if all(i in reg for i in cursors):
            edge = max([reg.index(i) for i in cursors] + [-1])
            ahead = reg[edge + 1:]
        else:
            ahead = []
        unsafe = bool(UNSAFE_REMOVE_P) and sim.draw_bool(UNSAFE_REMOVE_P, "unsafe_remove")
        cands = list(reg) if unsafe else ahead
        if not cands:
            return
        j = sim.draw_choice(cands, "which")
        if j not in ahead:
            st["unsafe"] = True
            sim.fault("remove_inside_delivery_at_or_before_cursor")
        else:
            sim.fault("remove_inside_delivery_ahead")
        sim.event("remove-inside", idx, j)
        for k in open_keys:
            unjudged[k].add(j)
        reg.remove(j)
        with sim.guard("remove-raised", "inside"):
            pub.removeObserver(handle(j))

    def verify_created():
        for key in created:
            skip = unjudged[key]
            if skip:
                sim.probe("verdict_beside_unjudged_observer")
            g = [i for i in got[key] if i not in skip]
            e = [i for i in expect[key] if i not in skip]
            sim.check("delivered-to-all-in-order", g == e, wit(key),
                      lambda: "%r: received by %r, expected %r (registration order; no verdict about %r, added/removed during the dispatch)" % (
                          key, g, e, sorted(skip)))
        del created[:]

    for _ in range(nops):
        sim.step(200 * sim.depth)
        op = sim.draw_weighted([("emit", 8), ("add", 3), ("remove", 2), ("setlevel", 3), ("clear", 1), ("query", 2), ("replay", 1),
                                ("newfilter", 1)], "op")
        if op == "emit":
            st["emits"] += 1
            st["nested"] = 0
            st["unsafe"] = False
            emit()
            verify_created()
        elif op == "add":
            i = sim.draw_int(0, nobs - 1, "which")
            sim.event("add", i, "present" if i in reg else "new")
            if i in reg and shapes[i] == "method":
                sim.probe("equal_bound_method_registered_again")
            if i not in reg:
                reg.append(i)
            with sim.guard("add-raised"):
                pub.addObserver(handle(i))
        elif op == "remove":
            if reg:
                i = sim.draw_choice(reg, "which")
                sim.event("remove", i)
                reg.remove(i)
                if shapes[i] == "method":
                    sim.probe("removed_by_equal_bound_method")
                with sim.guard("remove-raised"):
                    pub.removeObserver(handle(i))
        elif op == "setlevel":
            if sim.draw_bool(0.15, "default_ns"):
                ns = ""
            else:
                ns = ".".join(sim.draw_choice(SEGS, "seg") for _ in range(sim.draw_int(1, 3, "nseg")))
            lv = sim.draw_choice(LEVELS, "level")
            f = pick_filter()
            sim.event("setlevel", f.n, ns or "<default>", lv.name)
            f.cfg[ns] = lv.name
            st["configured"] += 1
            if f.n:
                sim.probe("later_filter_configured")
            with sim.guard("setlevel-raised"):
                f.predicate.setLogLevelForNamespace(ns, lv)
        elif op == "clear":
            f = pick_filter()
            sim.event("clear", f.n)
            f.cfg.clear()
            with sim.guard("clear-raised"):
                f.predicate.clearLogLevels()
        elif op == "query":
            ns = ".".join(sim.draw_choice(SEGS, "seg") for _ in range(sim.draw_int(1, 4, "nseg")))
            f = pick_filter()
            with sim.guard("query-raised"):
                real = f.predicate.logLevelForNamespace(ns)
            want = model_level(f.cfg, f.default, ns)
            sim.event("query", f.n, ns, want)
            sim.check("level-for-namespace", real.name == want, "query",
                      lambda: "filter %d of %d: namespace %r config %r default %s: real %s, rule %s" % (
                          f.n, len(filters), ns, f.cfg, f.default, real.name, want))
        elif op == "newfilter":
            # a further level filter comes to life while the earlier ones stay in use (their configuration must be unaffected)
            if len(filters) < 3:
                if any(g.cfg for g in filters):
                    sim.probe("filter_built_beside_configured_one")
                new_filter()
        else:
            out = []
            want = list(hist_model) if hist_n is None else (hist_model[max(0, len(hist_model) - hist_n):] if hist_n else [])
            if want and sim.draw_bool(0.3, "replay_target_raises"):
                # fault: the observer the history is replayed to raises on its k-th event.  Whether replayTo() lets the
                # exception out is not stated; what it delivered before must be a prefix of the history, in order, and the
                # history itself must be unharmed (the following replays and appends are checked as usual)
                k = sim.draw_int(0, len(want) - 1, "raise_at")
                sim.fault("replay_target_raised")

                def flaky(ev):
                    if len(out) == k:
                        raise Boom("replay-target")
                    out.append(ev)
                try:
                    history.replayTo(flaky)
                except Boom:
                    pass
                sim.event("replay-interrupted", k, len(out))
                sim.check("history-replay", len(out) <= len(want) and all(a is b for a, b in zip(out, want)), "interrupted",
                          lambda: "replay interrupted at #%d delivered %r, history is %r" % (k, [key_of(e) for e in out], [key_of(e) for e in want]))
                out = []
            with sim.guard("replay-raised"):
                history.replayTo(out.append)
            if hist_n is not None and len(hist_model) > hist_n:
                sim.probe("history_wrapped")
            sim.event("replay", len(out))
            sim.check("history-replay", len(out) == len(want) and all(a is b for a, b in zip(out, want)), "replay",
                      lambda: "size %r: replayed %r, expected %r (of %d seen)" % (
                          hist_n, [key_of(e) for e in out], [key_of(e) for e in want], len(hist_model)))
        sim.state((len(reg), min(len(filters[0].cfg), 3), op))
    sim.nontrivial = st["raised_multi"] > 0 and st["configured"] > 0


MUTANTS = [
    "_observer.py LogPublisher.__call__: break after the first failing observer: CAUGHT (delivered-to-all-in-order)",
    "_observer.py _errorLoggerForObserver: failure report also sent to the failing observer: CAUGHT (report-not-to-raiser), run terminates",
    "_filter.py logLevelForNamespace: prefix match by str.startswith without the dot: CAUGHT (filter-decision / level-for-namespace)",
    "_filter.py logLevelForNamespace: 'while index > 0' -> 'index > 1' (single-segment prefixes ignored): CAUGHT",
    "_filter.py __call__: eventLevel < namespaceLevel -> <= (level equal to the configured one dropped): CAUGHT (filter-decision)",
    "_filter.py logLevelForNamespace: shortest configured prefix wins instead of the longest: CAUGHT",
    "_buffer.py LimitedHistoryLogObserver: append -> appendleft: CAUGHT (history-replay)",
    "_buffer.py LimitedHistoryLogObserver: maxlen size+1: CAUGHT (history-replay)",
    "_observer.py LogPublisher.__call__: only the first broken observer is reported: CAUGHT (delivered-to-all-in-order:report)",
    "_filter.py clearLogLevels: does not clear: CAUGHT",
    "_observer.py LogPublisher.__call__: observers iterated in reverse registration order: CAUGHT",
    "round 4 (re-entrant emit from inside the delivery of a failure report; several live level filters):",
    "_observer.py LogPublisher: broken observer kept on a 'disabled' list while its failure is reported through the publisher itself "
    "(misses events logged by another observer while it handles the report): CAUGHT (delivered-to-all-in-order:e, ~500 runs)",
    "_observer.py LogPublisher.__call__: events logged while the publisher is reporting a failure are dropped (re-entrancy flag): CAUGHT (delivered-to-all-in-order:e)",
    "_observer.py LogPublisher.__call__: broken observer taken out of _observers while its report is delivered, put back afterwards: CAUGHT (delivered-to-all-in-order:e)",
    "_filter.py LogLevelFilterPredicate: level table is a class attribute shared by all predicates: CAUGHT (level-for-namespace / filter-decision, ~120 runs)",
    "_filter.py LogLevelFilterPredicate.__init__: level table shared through a module global: CAUGHT",
    "_filter.py LogLevelFilterPredicate.__init__: default level stored on the class (last constructed filter's default wins after clearLogLevels): CAUGHT",
    "round 6 (observers named by equal bound methods; observers added / removed from inside a delivery):",
    "_observer.py addObserver: membership by identity instead of equality (an equal bound method registered twice): CAUGHT (delivered-once:e, "
    "delivered-to-registered:e after one removal, ~200 runs)",
    "_observer.py removeObserver: removes by identity (a bound method obtained again is never found): CAUGHT (delivered-to-registered:e)",
    "_observer.py addObserver: no membership test at all: CAUGHT (delivered-once:e)",
    "GENUINE DEFECT of the tree as first examined, REPAIRED in /repo 5128ccf (precondition generated with UNSAFE_REMOVE_P = 0.5; 0 only for dev-time comparison): "
    "LogPublisher.__call__ walked the live list "
    "`for observer in self._observers:` (_observer.py line 76); removeObserver() from inside a delivery of the handling observer itself or of an "
    "earlier one shifted the list under the loop and the NEXT observer - untouched, registered before, during and after - never received the event: "
    "observers a, b, c with a removing itself -> a, c; b removing a -> a, b (c skipped).  Signature "
    "C57:delivered-to-all-in-order:e@removed-at-or-before-cursor (minimal: two observers, the first removes itself, one emit).  Repair: "
    "`for observer in list(self._observers):` - with it the check is clean at UNSAFE_REMOVE_P = 0.5 (32000 runs).",
    "NO VERDICT (outside the statement): LimitedHistoryLogObserver.replayTo() to a target that feeds an event back into the same history raises "
    "RuntimeError('deque mutated during iteration') after the first event (unchanged tree).  'the last N events' is not defined for a history that "
    "changes under its own replay (snapshot and live readings disagree) and the tree's own caller (LogBeginner.beginLoggingTo) detaches the buffer "
    "before replaying into the publisher; the family is not generated.",
]
