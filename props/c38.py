"""C38 — telnet carries application bytes transparently.

Engine E3 (net): a real TelnetTransport writes application bytes (write /
writeSequence groupings chosen by the tape) onto a simulated link; a second real
TelnetTransport receives the wire stream under tape-chosen segmentation.  In
part of the runs the two applications accept a tape-chosen set of options
(TRANSMIT-BINARY = 0 among them) and either side negotiates before / between the
writes, the second application writes too, and a receiving application raises
for a tape-chosen delivery (the link logs the error and carries on, as a layer
that calls the protocol under log.callWithLogger does).
Oracle: each application received exactly the bytes its peer's application wrote
(once, in order), whatever was negotiated and whichever deliveries raised; LF
went onto the wire as CR LF; no command/subnegotiation callback fires and no
option callback about an option nobody requested.
"""
from zope.interface import implementer

from twisted.conch import telnet
from detsim import net

ID = "C38"
ENGINE = "net"
LEVEL = "exploration"
TECHNIQUE = "deterministic simulation: seeded write grouping + option negotiation + raising receiver + wire segmentation between two real TelnetTransports"
QUICK_RUNS = 36000
TWIN_P = 0.08   # this share of the runs drives two independent instances of the scenario one after the other (detsim.runner._run_scenario)
BATCH = 200
COMPONENTS = {"real": ["twisted.conch.telnet.TelnetTransport.write/writeSequence", "twisted.conch.telnet.Telnet.dataReceived",
                       "twisted.conch.telnet.Telnet.will/wont/do/dont and the option state maps (as far as they touch the data path)"],
              "stub": ["TCP transport and delivery segmentation (detsim.net.Link); the layer below the receiver catches and logs an "
                       "exception escaping from dataReceived and keeps the connection (log.callWithLogger behaviour)",
                       "applications: record what they are given, accept a tape-chosen option set, raise on tape-chosen deliveries"]}
RULE = ("run = 1..8 application writes (write or writeSequence, bytes from an alphabet rich in 0xFF, LF, NUL and telnet command bytes, no CR) "
        "through a sender TelnetTransport (30%: the other side writes as well), wire delivered in tape-chosen pieces; in half of the runs will/wont/do/dont "
        "requests about 1-2 options (TRANSMIT-BINARY 0, ECHO, SGA, LINEMODE, 255, CR, LF, TERMINAL-TYPE) accepted by a tape-chosen policy are issued by either "
        "side before/between the writes; in half of the runs the receiving application raises on tape-chosen deliveries and the link logs it and carries on; "
        "non-trivial = payload contains 0xFF or LF and the wire was cut at least once")
ASSUMPTIONS = ["application data contains no CR (per the statement)",
               "an application exception aborts the processing of the wire chunk being delivered (it propagates out of dataReceived); what becomes of the rest "
               "of THAT chunk is not judged: when a raising delivery happened in a chunk in which a negotiation command ended (the only place where application bytes are handed "
               "over before the end of a chunk; the command itself and what follows it go unprocessed, so the two option state machines no longer agree) the "
               "run only checks that nothing was duplicated so far and stops",
               "LF -> CR LF on the wire is judged while TRANSMIT-BINARY is not in effect for the writer (RFC 856 changes the wire form; the statement's "
               "end-to-end clause - the peer receives exactly the bytes written - is judged in every option state, both ends being the same implementation)",
               "an endpoint requests will(o)/do(o) only for options its own application accepts"]

ALPHABET = bytes([0xFF, 0xFF, 0xFF, 0x0A, 0x0A, 0x00, 0xF0, 0xFA, 0xFB, 0xFC, 0xFD, 0xFE, 0xF1, 0x41, 0x42, 0x20, 0x7F, 0x80])
# option codes negotiated: TRANSMIT-BINARY first (the one option whose meaning is about the data path), the usual ones, and codes equal to stream-special bytes
OPTIONS = [b"\x00", b"\x01", b"\x03", b"\x22", b"\xff", b"\x0d", b"\x0a", b"\x18"]
BINARY = b"\x00"
AMOUNTS = (1, 2, 3, 5, 8, 17, 64, 1000, None)
NEG_CALLBACKS = ("enableLocal", "enableRemote", "disableLocal", "disableRemote")


class AppError(Exception):
    """What a receiving application raises for one delivery."""


@implementer(telnet.ITelnetProtocol)
class App:
    def __init__(self, rec, local_ok=(), remote_ok=()):
        self.rec = rec
        self.local_ok = local_ok
        self.remote_ok = remote_ok
        self.armed = False      # raise on the next delivery
        self.raised = 0

    def makeConnection(self, t):
        self.transport = t

    def dataReceived(self, data):
        self.rec.append(("data", data))
        if self.armed:
            self.armed = False
            self.raised += 1
            raise AppError("application failed while handling %d bytes" % len(data))

    def connectionLost(self, reason):
        self.rec.append(("lost",))

    def unhandledCommand(self, command, argument):
        self.rec.append(("command", command, argument))

    def unhandledSubnegotiation(self, command, data):
        self.rec.append(("subneg", command, data))

    def enableLocal(self, option):
        self.rec.append(("enableLocal", option))
        return option in self.local_ok

    def enableRemote(self, option):
        self.rec.append(("enableRemote", option))
        return option in self.remote_ok

    def disableLocal(self, option):
        self.rec.append(("disableLocal", option))

    def disableRemote(self, option):
        self.rec.append(("disableRemote", option))


def run(sim):
    nwrites = sim.draw_int(1, 8, "nwrites")
    interleave = sim.draw_bool(0.5, "interleave")
    neg_w = sim.draw_choice([0, 0, 1, 2], "negotiation_weight")       # up to this many requests before each write
    raise_w = sim.draw_choice([0, 0, 1, 3], "raise_weight")           # tenths: chance that a delivery makes the application raise
    duplex = sim.draw_bool(0.3, "duplex")                             # the second application writes too
    opts = []
    policy = {"A": (set(), set()), "B": (set(), set())}
    if neg_w:
        for _ in range(sim.draw_int(1, 2, "nopts")):
            o = sim.draw_choice(OPTIONS, "option")
            if o not in opts:
                opts.append(o)
        for name in ("A", "B"):
            for o in opts:
                if not sim.draw_bool(0.3, "refuse_local"):
                    policy[name][0].add(o)
                if not sim.draw_bool(0.3, "refuse_remote"):
                    policy[name][1].add(o)
    sim.config = {"nwrites": nwrites, "interleave": interleave, "negotiation_weight": neg_w, "raise_weight": raise_w, "duplex": duplex,
                  "options": [o.hex() for o in opts],
                  "policy": {n: {"local_ok": sorted(o.hex() for o in policy[n][0]), "remote_ok": sorted(o.hex() for o in policy[n][1])} for n in ("A", "B")}}
    rec = {"A": [], "B": []}
    tt = {"A": telnet.TelnetTransport(App, rec["A"], policy["A"][0], policy["A"][1]),
          "B": telnet.TelnetTransport(App, rec["B"], policy["B"][0], policy["B"][1])}
    a, b = tt["A"], tt["B"]
    link = net.Link(sim, a, b)
    link.connect()
    trans = {"A": link.a, "B": link.b}
    peer = {"A": "B", "B": "A"}
    sent = {"A": bytearray(), "B": bytearray()}        # application bytes written by that side
    mark = {"A": 0, "B": 0}                            # how much of that side's output has been attributed
    cmd_ends = {"A": [], "B": []}                      # offsets (in that side's output stream) just past each negotiation command it wrote
    requested = set()
    flags = {"unjudged": None}

    def attribute(app_side=None):
        """Attribute what each side wrote since the last call: the application's bytes (returned), or negotiation commands (3 bytes each)."""
        grown = b""
        for name in ("A", "B"):
            cur = len(trans[name].written)
            if cur == mark[name]:
                continue
            if name == app_side:
                grown = bytes(trans[name].written[mark[name]:cur])
            else:
                cmd_ends[name].extend(range(mark[name] + 3, cur + 1, 3))
            mark[name] = cur
        return grown

    def got(name):
        return b"".join(e[1] for e in rec[name] if e[0] == "data")

    def net_step():
        """One tape-chosen network event (as Link.step); a delivery may make the receiving application raise, which the link logs."""
        ev = link.enabled()
        if not ev:
            return False
        kind, name = sim.draw_choice(ev, "net")
        amount = None
        if kind in ("xmit", "deliver"):
            amount = sim.draw_choice(list(AMOUNTS)[::-1], "amount")  # index 0 = everything
            if amount is not None:
                sim.fault("segmentation")
        if kind != "deliver":
            link.do(kind, name, amount)
            return True
        app = tt[name].protocol
        start = len(link.delivered[name])
        app.armed = bool(raise_w) and sim.draw_int(0, 9, "app_raises") < raise_w
        before = app.raised
        with sim.guard("receiver-raised"):
            try:
                link.do(kind, name, amount)
            except AppError:
                # the layer below logs the application's error and keeps the connection (log.callWithLogger)
                pass
        app.armed = False
        attribute()
        if app.raised > before:
            end = len(link.delivered[name])
            sim.fault("app_raised")
            sim.event("app-raised", name, end - start)
            if any(start < p <= end for p in cmd_ends[peer[name]]):
                # bytes were handed over in the middle of the chunk, in front of a negotiation command, and the exception cut the
                # processing of the command and of the rest of the chunk short
                sim.probe("raise_mid_chunk_rest_unjudged")
                flags["unjudged"] = name
                return False
            if got(name):
                sim.probe("raise_then_more_judged")
        return True

    def negotiate():
        name = sim.draw_choice(["A", "B"], "neg_side")
        o = sim.draw_choice(opts, "neg_opt")
        kinds = [(k, w) for k, w in (("will", 3), ("do", 3), ("wont", 1), ("dont", 1))
                 if not (k == "will" and o not in policy[name][0]) and not (k == "do" and o not in policy[name][1])]
        k = sim.draw_weighted(kinds, "neg_kind")
        sim.event("negotiate", name, k, o)
        requested.add(o)
        with sim.guard("sender-raised", k):
            d = getattr(tt[name], k)(o)
        d.addErrback(lambda f: None)      # OptionRefused / AlreadyEnabled / AlreadyDisabled / AlreadyNegotiating: not this property's business
        attribute()
        sim.probe("negotiation_request")

    def write_one():
        name = "B" if duplex and sim.draw_bool(0.4, "writer") else "A"
        t = tt[name]
        if sim.draw_bool(0.4, "use_seq"):
            parts = [sim.draw_bytes(sim.draw_int(0, 6, "len"), ALPHABET) for _ in range(sim.draw_int(1, 4, "nparts"))]
            # ITransport.writeSequence takes any iterable of bytes: a list, a tuple, or a one-shot iterator / generator
            kind = sim.draw_choice(["list", "tuple", "iter", "generator"], "iovec")
            sim.event("writeSequence", name, kind, *parts)
            arg = parts if kind == "list" else tuple(parts) if kind == "tuple" else iter(parts) if kind == "iter" else (p for p in parts)
            with sim.guard("sender-raised", "writeSequence"):
                t.writeSequence(arg)
            sim.probe("writeSequence")
            if kind in ("iter", "generator"):
                sim.probe("writeSequence_one_shot_iterable")
            data = b"".join(parts)
        else:
            data = sim.draw_bytes(sim.draw_int(0, 10, "len"), ALPHABET)
            sim.event("write", name, data)
            t.write(data)
        sent[name] += data
        wire = attribute(name)
        st = t.options.get(BINARY)
        if st is not None and (st.us.state == "yes" or st.us.negotiating):
            sim.probe("write_in_binary_mode")
        else:
            # "line feeds sent as CR LF": every LF written is a CR LF pair on the wire and there is no other CR
            n = data.count(b"\n")
            sim.check("lf-as-crlf", wire.count(b"\r\n") == n and wire.count(b"\n") == n and wire.count(b"\r") == n, "wire",
                      lambda: "%s wrote %r, wire %r" % (name, data, wire))
        pst = tt[peer[name]].options.get(BINARY)
        if b"\n" in data and pst is not None and pst.him.state == "yes":
            sim.probe("lf_written_to_binary_receiver")

    def finish():
        lossy = flags["unjudged"]
        for name in ("A", "B"):
            w = peer[name]
            g = got(name)
            sim.event("received", name, g)
            stray = [e for e in rec[name] if e[0] != "data" and not (e[0] in NEG_CALLBACKS and e[1] in requested)]
            sim.check("no-command-fired", not stray, "receiver" if name == "B" else "sender",
                      lambda: "%s callbacks fired: %r (peer sent %r)" % (name, stray[:3], bytes(sent[w])))
            if lossy is not None:
                # the run stopped early: nothing may have been delivered twice or out of order so far
                sim.check("bytes-equal", bytes(sent[w]).startswith(g), "prefix",
                          lambda: "%s received %r which is not a prefix of %r; wire %r" % (name, g, bytes(sent[w]), bytes(trans[w].written)))
            else:
                sim.check("bytes-equal", g == bytes(sent[w]), "receiver" if name == "B" else "sender-side",
                          lambda: "%s: peer sent %r got %r wire %r (%d raising deliveries)" % (name, bytes(sent[w]), g, bytes(trans[w].written), tt[name].protocol.raised))
        if not duplex:
            sim.check("sender-quiet", not [e for e in rec["A"] if e[0] == "data"], "sender", "sender app saw %r" % (rec["A"][:3],))
        allsent = bytes(sent["A"] + sent["B"])
        sim.nontrivial = (b"\xff" in allsent or b"\n" in allsent) and sim.faults.get("segmentation", 0) > 0

    for i in range(nwrites):
        if neg_w:
            for _ in range(sim.draw_int(0, neg_w, "nrequests")):
                negotiate()
                for _ in range(sim.draw_int(0, 4, "neg_netsteps")):
                    if not net_step():
                        break
                if flags["unjudged"]:
                    return finish()
        write_one()
        if interleave:
            for _ in range(sim.draw_int(0, 3, "netsteps")):
                if not net_step():
                    break
            if flags["unjudged"]:
                return finish()
    n = 0
    while n < 100000 and net_step():
        n += 1
    return finish()


MUTANTS = [
    "telnet.py TelnetTransport.writeSequence bypassing IAC escaping / LF->CRLF -> caught (receiver-raised:ValueError; bytes-equal:receiver) [seeds C38-bulk-fastpath-odd-iac, C38-r2, C38-r3]",
    "telnet.py dataReceived: application-data buffer kept on the instance and cleared only after a successful applicationDataReceived (bytes of a raising delivery "
    "handed over again with the next chunk) -> caught (bytes-equal:receiver) [raising receiver family]",
    "telnet.py dataReceived: CR handled as ordinary data once the peer's TRANSMIT-BINARY is enabled while write() keeps sending CR LF -> caught (bytes-equal:receiver) "
    "[option negotiation family]",
    "telnet.py ProtocolTransportMixin.write: LF no longer translated to CR LF -> caught ONLY by lf-as-crlf:wire (a bare LF passes the receiver unchanged, so the end-to-end clause holds)",
    "telnet.py dataReceived, flush in front of a negotiation command: `del appDataBuffer[:]` dropped -> caught (bytes-equal:receiver/sender-side/prefix) [negotiation between writes]",
]
