"""C38 — telnet carries application bytes transparently.

Engine E3 (net): a real TelnetTransport writes application bytes (write /
writeSequence groupings chosen by the tape) onto a simulated link; a second real
TelnetTransport receives the wire stream under tape-chosen segmentation.  In
part of the runs the two applications accept a tape-chosen set of options
(TRANSMIT-BINARY = 0 among them) and either side negotiates before / between the
writes, the second application writes too, and a receiving application raises
for a tape-chosen delivery (the link logs the error and carries on, as a layer
that calls the protocol under log.callWithLogger does).  The applications may
also REACT from inside their callbacks (echo / answer a delivery, write from
inside an option callback), B's application may relay what it receives over a
second telnet connection C -> D, and in part of the runs the link is a
synchronous in-memory pipe (detsim.net.SyncLink: write() hands the bytes to the
peer at once), so that deliveries nest: one Telnet's dataReceived runs while
another one - or the same one - is inside an application / option callback.
In part of the runs endpoints are the module's stock server stack
TelnetTransport(TelnetBootstrapProtocol, application): the application writes
through the bootstrap protocol (its transport), which negotiates on its own when
the connection is made and follows an accepted LINEMODE with a subnegotiation.
Oracle: each application received exactly the bytes its peer's application wrote
(once, in order), whatever was negotiated and whichever deliveries raised; LF
went onto the wire as CR LF; no command/subnegotiation callback fires and no
option callback about an option nobody requested.
"""
from zope.interface import implementer

from twisted.conch import telnet
from detsim import net

ID = "C38"
ENGINE = "net"
LEVEL = "exploration"
TECHNIQUE = ("deterministic simulation: seeded write grouping + option negotiation + raising receiver + reacting/relaying applications + wire segmentation "
             "between real TelnetTransports (bare, or the stock stack with a TelnetBootstrapProtocol in front of the application) over an asynchronous or a "
             "synchronous (nesting) in-memory link")
QUICK_RUNS = 24000
TWIN_P = 0.08   # this share of the runs drives two independent instances of the scenario one after the other (detsim.runner._run_scenario)
BATCH = 200
COMPONENTS = {"real": ["twisted.conch.telnet.TelnetTransport.write/writeSequence", "twisted.conch.telnet.Telnet.dataReceived",
                       "twisted.conch.telnet.Telnet.will/wont/do/dont and the option state maps (as far as they touch the data path)",
                       "twisted.conch.telnet.TelnetBootstrapProtocol / ProtocolTransportMixin (the transport of the application in the stock stack; "
                       "its connection-time negotiation and LINEMODE subnegotiation)"],
              "stub": ["TCP transport and delivery segmentation (detsim.net.Link); the layer below the receiver catches and logs an "
                       "exception escaping from dataReceived and keeps the connection (log.callWithLogger behaviour)",
                       "synchronous in-memory pipe (detsim.net.SyncLink): write() hands the bytes to the peer protocol at once, per-direction FIFO kept",
                       "applications: record what they are given, accept a tape-chosen option set, raise on tape-chosen deliveries, echo / answer deliveries and "
                       "write from inside option callbacks, relay deliveries over a second connection"]}
RULE = ("run = 1..8 application writes (write or writeSequence, bytes from an alphabet rich in 0xFF, LF, NUL and telnet command bytes, no CR) "
        "through a sender TelnetTransport (30%: the other side writes as well), wire delivered in tape-chosen pieces; in half of the runs will/wont/do/dont "
        "requests about 1-2 options (TRANSMIT-BINARY 0, ECHO, SGA, LINEMODE, 255, CR, LF, TERMINAL-TYPE) accepted by a tape-chosen policy are issued by either "
        "side before/between the writes; in half of the runs the receiving application raises on tape-chosen deliveries and the link logs it and carries on; "
        "the applications may react from inside their callbacks, bounded by a per-run budget (0/2/4/8 reactive writes): echo or answer a delivery "
        "(write/writeSequence from inside dataReceived), write from inside enableLocal/enableRemote/disableLocal/disableRemote; in 25% of the runs B's application "
        "relays every delivery over a second pair of TelnetTransports C -> D (judged like the first); in 40% of the runs the links are synchronous "
        "in-memory pipes (pieces: whole / single bytes / tape-chosen sizes) - a write is handed to the peer inside write(), so the peer's dataReceived, its "
        "application's reaction and the answer nest inside the writer's callback, and an answer re-enters dataReceived of the protocol that is "
        "calling out when the piece it was given is known to be consumed; the synchronous link can be corked across requests and writes so that one "
        "piece holds data and commands; "
        "in STACK_P of the runs endpoints (each 1/2, at least one) are TelnetTransport(TelnetBootstrapProtocol, application): the application writes through "
        "the bootstrap protocol, whose own requests (DO LINEMODE/NAWS/SGA, WILL ECHO) and - when the peer's application accepts LINEMODE - subnegotiation "
        "IAC SB ... IAC SE travel in front of / between the data; the facing application accepts a tape-chosen part of what the bootstrap asks "
        "(line feeds behind a bootstrap protocol only in the STACK_LF_P share of those runs: see the constant); "
        "non-trivial = payload contains 0xFF or LF and the wire was cut at least once or a delivery ran nested inside another")
ASSUMPTIONS = ["application data contains no CR (per the statement)",
               "an application exception aborts the processing of the wire chunk being delivered (it propagates out of dataReceived); what becomes of the rest "
               "of THAT chunk is not judged: when a raising delivery happened in a chunk in which a negotiation command ended (the only place where application bytes are handed "
               "over before the end of a chunk; the command itself and what follows it go unprocessed, so the two option state machines no longer agree) the "
               "run only checks that nothing was duplicated so far and stops",
               "LF -> CR LF on the wire is judged while TRANSMIT-BINARY is not in effect for the writer (RFC 856 changes the wire form; the statement's "
               "end-to-end clause - the peer receives exactly the bytes written - is judged in every option state, both ends being the same implementation)",
               "an endpoint requests will(o)/do(o) only for options its own application accepts",
               "the synchronous link keeps each direction a FIFO: bytes written towards a protocol that is inside dataReceived are queued behind the running "
               "delivery, unless nothing of the piece being worked on can be left unconsumed (it is a single byte, or: all application bytes the wire held so far "
               "have been given to the application and no negotiation command ends strictly inside the piece, judged by an independent reading of the wire) - "
               "only then is the protocol re-entered, as a pipe calling peer.dataReceived from write() would do; a protocol that is re-entered while it calls out "
               "about the LAST byte it was given must have taken that byte into account (parser state updated before the call-out)",
               "an application that raises does so before reacting; reactive writes stop once the run stops judging",
               "the bootstrap protocol of the stock stack counts as a telnet transport: it is what the module hands to the application as its transport, and its "
               "write/writeSequence are the same ProtocolTransportMixin that translates for TelnetTransport; option callbacks about what a bootstrap protocol asked "
               "for, and its LINEMODE subnegotiation at a peer that accepted LINEMODE, are expected; a stacked endpoint's policy is the bootstrap's own",
               "an application that is handed a CR (none was written: bytes-equal judges it) does not echo / forward that delivery",
               "STACK_LF_P: see the constant (precondition of an observation put aside as outside the statement - not a defect under it, not repaired; "
               "deliberately 0.0)"]

ALPHABET = bytes([0xFF, 0xFF, 0xFF, 0x0A, 0x0A, 0x00, 0xF0, 0xFA, 0xFB, 0xFC, 0xFD, 0xFE, 0xF1, 0x41, 0x42, 0x20, 0x7F, 0x80])
# option codes negotiated: TRANSMIT-BINARY first (the one option whose meaning is about the data path), the usual ones, and codes equal to stream-special bytes
OPTIONS = [b"\x00", b"\x01", b"\x03", b"\x22", b"\xff", b"\x0d", b"\x0a", b"\x18"]
BINARY = b"\x00"
AMOUNTS = (1, 2, 3, 5, 8, 17, 64, 1000, None)
NEG_CALLBACKS = ("enableLocal", "enableRemote", "disableLocal", "disableRemote")
# what a TelnetBootstrapProtocol asks of its peer when the connection is made, and what it accepts itself (a stacked endpoint's own policy: the
# application behind it is not consulted) - workload configuration only, so that a stacked endpoint requests will/do only for what it accepts
BOOT_ASKS = (telnet.LINEMODE, telnet.NAWS, telnet.SGA, telnet.ECHO)
BOOT_LOCAL_OK = (telnet.ECHO, telnet.SGA)
BOOT_REMOTE_OK = (telnet.LINEMODE, telnet.NAWS, telnet.SGA)
# Share of the runs in which endpoints (each with probability 1/2, at least one) are the module's stock server stack
# TelnetTransport(TelnetBootstrapProtocol, application): the application's transport is then the bootstrap protocol, a protocol that acts as the
# transport of the layer above it (ProtocolTransportMixin), and its bytes pass through both layers.
STACK_P = 0.15
# Share of THOSE runs in which the applications write line feeds.  A line feed written by an application behind a TelnetBootstrapProtocol is the
# precondition of a reported behaviour of the tree as found (see MUTANTS, "FINDING": LF translated twice, CR CR LF on the wire, the peer
# application receives CR CR LF; signature C38:lf-as-crlf:wire-behind-bootstrap).  It was examined and put aside as an OBSERVATION outside
# the statement (DESIGN 12.7, remarks put aside: stacked bootstrap protocols) - not a defect under the statement, NOT repaired in /repo.  The
# knob is deliberately 0.0: it keeps the precondition out (the alphabet of such a run has no LF) so that everything else about the stack -
# IAC escaping through both layers, the bootstrap's own negotiation and subnegotiation in front of / between the data - is exercised;
# 0.3 reproduces the observation (dev-time only).
STACK_LF_P = 0.0
ALL_NAMES = ("A", "B", "C", "D")      # A <-> B: the connection under test; C -> D: the second connection B's application relays over (part of the runs)
PEER = {"A": "B", "B": "A", "C": "D", "D": "C"}
BYTES_WITNESS = {"A": "sender-side", "B": "receiver", "C": "relay-sender-side", "D": "relay-receiver"}
CMD_WITNESS = {"A": "sender", "B": "receiver", "C": "relay-sender", "D": "relay-receiver"}


class AppError(Exception):
    """What a receiving application raises for one delivery."""


@implementer(telnet.ITelnetProtocol)
class App:
    def __init__(self, rec, local_ok=(), remote_ok=()):
        self.rec = rec
        self.local_ok = local_ok
        self.remote_ok = remote_ok
        self.armed = False      # raise on the next delivery
        self.raised = 0
        self.nbytes = 0         # application bytes given so far
        self.react = None       # react(kind, payload): what the application does - from inside the callback - about what it was just given

    def makeConnection(self, t):
        self.transport = t

    def dataReceived(self, data):
        self.rec.append(("data", data))
        self.nbytes += len(data)
        if self.armed:
            self.armed = False
            self.raised += 1
            raise AppError("application failed while handling %d bytes" % len(data))
        if self.react is not None:
            self.react("data", data)

    def connectionLost(self, reason):
        self.rec.append(("lost",))

    def unhandledCommand(self, command, argument):
        self.rec.append(("command", command, argument))

    def unhandledSubnegotiation(self, command, data):
        self.rec.append(("subneg", command, data))

    def _option(self, kind, option):
        self.rec.append((kind, option))
        if self.react is not None:
            self.react(kind, option)

    def enableLocal(self, option):
        self._option("enableLocal", option)
        return option in self.local_ok

    def enableRemote(self, option):
        self._option("enableRemote", option)
        return option in self.remote_ok

    def disableLocal(self, option):
        self._option("disableLocal", option)

    def disableRemote(self, option):
        self._option("disableRemote", option)


class WireScan:
    """Reference reading of a telnet wire stream as far as this scenario produces it (RFC 854: IAC IAC is one data byte 255, IAC WILL/WONT/DO/DONT x
    is a command, IAC SB ... IAC SE a subnegotiation in which IAC IAC is one payload byte, CR LF / CR NUL one data byte): how many application
    bytes it holds and where its negotiation commands / subnegotiations end."""

    def __init__(self):
        self.pos = 0
        self.state = "data"
        self.napp = 0
        self.cmd_ends = []      # offsets just past each negotiation command

    def upto(self, stream):
        i, st = self.pos, self.state
        while i < len(stream):
            c = stream[i]
            i += 1
            if st == "data":
                if c == 0xFF:
                    st = "iac"
                elif c == 0x0D:
                    st = "cr"
                else:
                    self.napp += 1
            elif st == "iac":
                if c == 0xFF:
                    self.napp += 1
                    st = "data"
                else:
                    st = "verb" if 0xFB <= c <= 0xFE else "sb" if c == 0xFA else "data"
            elif st == "verb":
                self.cmd_ends.append(i)
                st = "data"
            elif st == "sb":
                if c == 0xFF:
                    st = "sb-iac"
            elif st == "sb-iac":
                if c == 0xF0:
                    self.cmd_ends.append(i)
                    st = "data"
                else:
                    st = "sb"
            else:   # after CR: CR LF is a line feed, CR NUL a carriage return; anything else leaves the CR as it is
                self.napp += 1 if c in (0x0A, 0x00, 0xFF) else 2
                st = "iac" if c == 0xFF else "data"
        self.pos, self.state = i, st
        return self


class HookedSyncLink(net.SyncLink):
    """Synchronous link whose deliveries go through the scenario (which arms the application, logs what it raises and carries on)."""
    hook = None

    def _deliver(self, t, chunk):
        self.hook(self, t, chunk)


def run(sim):
    nwrites = sim.draw_int(1, 8, "nwrites")
    interleave = sim.draw_bool(0.5, "interleave")
    neg_w = sim.draw_choice([0, 0, 1, 2], "negotiation_weight")       # up to this many requests before each write
    raise_w = sim.draw_choice([0, 0, 1, 3], "raise_weight")           # tenths: chance that a delivery makes the application raise
    duplex = sim.draw_bool(0.3, "duplex")                             # the second application writes too
    opts = []
    policy = {n: (set(), set()) for n in ALL_NAMES}
    if neg_w:
        for _ in range(sim.draw_int(1, 2, "nopts")):
            o = sim.draw_choice(OPTIONS, "option")
            if o not in opts:
                opts.append(o)
        for name in ("A", "B"):
            for o in opts:
                if not sim.draw_bool(0.3, "refuse_local"):
                    policy[name][0].add(o)
                if not sim.draw_bool(0.3, "refuse_remote"):
                    policy[name][1].add(o)
    # how the link hands bytes over: later, when the scheduler says so (as a network does), or at once from inside write() (in-memory pipe)
    sync = sim.draw_bool(0.4, "sync_link")
    pieces = sim.draw_choice(["mixed", "bytewise", "whole"], "sync_pieces") if sync else None
    # what the applications do, from inside their callbacks, about what they are given
    react_budget = sim.draw_choice([0, 0, 2, 4, 8], "react_budget")  # at most this many reactive writes in the run (bounds ping-pong)
    on_data = {n: "quiet" for n in ALL_NAMES}
    on_option = {n: False for n in ALL_NAMES}
    if react_budget:
        for name in ("A", "B"):
            on_data[name] = sim.draw_choice(["quiet", "answer", "echo"], "on_data")
            on_option[name] = bool(neg_w) and sim.draw_bool(0.6, "on_option")
    relay = sim.draw_bool(0.25, "relay")                              # B's application forwards what it receives over a second connection C -> D
    names = ALL_NAMES if relay else ALL_NAMES[:2]
    # which endpoints are the stock stack TelnetTransport(TelnetBootstrapProtocol, application) rather than TelnetTransport(application)
    stacked = {n: False for n in ALL_NAMES}
    alphabet = ALPHABET
    if sim.draw_bool(STACK_P, "stack_run"):
        for n in names:
            stacked[n] = sim.draw_bool(0.5, "stacked")
        if not any(stacked.values()):
            stacked["A"] = True
        if not sim.draw_bool(STACK_LF_P, "stack_lf"):
            alphabet = bytes(c for c in ALPHABET if c != 0x0A)
        for n in names:
            if stacked[n]:
                policy[n] = (set(BOOT_LOCAL_OK), set(BOOT_REMOTE_OK))
            elif stacked[PEER[n]]:
                # what the application facing a bootstrap protocol makes of the bootstrap's requests
                for o in BOOT_ASKS:
                    if sim.draw_bool(0.5, "accept_boot_local"):
                        policy[n][0].add(o)
                    if sim.draw_bool(0.5, "accept_boot_remote"):
                        policy[n][1].add(o)
    sim.config = {"nwrites": nwrites, "interleave": interleave, "negotiation_weight": neg_w, "raise_weight": raise_w, "duplex": duplex,
                  "options": [o.hex() for o in opts],
                  "policy": {n: {"local_ok": sorted(o.hex() for o in policy[n][0]), "remote_ok": sorted(o.hex() for o in policy[n][1])} for n in ("A", "B")},
                  "link": "sync-" + pieces if sync else "async", "react_budget": react_budget,
                  "on_data": {n: on_data[n] for n in ("A", "B")}, "on_option": {n: on_option[n] for n in ("A", "B")}, "relay": relay,
                  "stacked": [n for n in names if stacked[n]], "lf": alphabet is ALPHABET}
    rec = {n: [] for n in names}
    tt = {n: telnet.TelnetTransport(telnet.TelnetBootstrapProtocol, App, rec[n], policy[n][0], policy[n][1]) if stacked[n]
          else telnet.TelnetTransport(App, rec[n], policy[n][0], policy[n][1]) for n in names}
    apps = {}                                          # name -> the application of that endpoint (known once the connection is made)
    peer = PEER
    links = []
    where = {}                                         # name -> (link, the link's own name of that side)
    trans = {}
    for x, y in (("A", "B"), ("C", "D"))[:2 if relay else 1]:
        link = HookedSyncLink(sim, tt[x], tt[y], pieces=pieces, amounts=AMOUNTS, reenter=None) if sync else net.Link(sim, tt[x], tt[y])
        links.append(link)
        where[x], where[y] = (link, "A"), (link, "B")
        trans[x], trans[y] = link.a, link.b
    gname = {(link, lname): n for n, (link, lname) in where.items()}
    sent = {n: bytearray() for n in names}             # application bytes written by that side
    wire_in = {n: WireScan() for n in names}           # reference reading of the wire stream handed to that side so far
    writing = {n: None for n in names}                 # the wire pieces of the application write that side is inside (None: whatever it writes is negotiation)
    requested = set()
    flags = {"unjudged": None}
    budget = [react_budget]

    def delivered(name):
        link, lname = where[name]
        return link.delivered[lname]

    def tagger(name, pass_on):
        """on_write hook of `name`'s transport: note the transport writes that belong to the application write in progress (the others are negotiation)."""
        def on_write(t, data):
            cur = writing[name]
            if cur is not None:
                cur.append(data)
            if pass_on is not None:
                writing[name] = None        # whatever `name` writes while the link hands these bytes over is not part of this application write
                try:
                    pass_on(t, data)
                finally:
                    writing[name] = cur
        return on_write

    def got(name):
        return b"".join(e[1] for e in rec[name] if e[0] == "data")

    def hand_over(name, start, end, call):
        """One delivery (wire offsets start..end of the stream towards `name`): the receiving application may raise, which the link logs.
        Returns False when the run must stop judging (see ASSUMPTIONS)."""
        app = apps[name]
        app.armed = bool(raise_w) and sim.draw_int(0, 9, "app_raises") < raise_w
        before = app.raised
        with sim.guard("receiver-raised"):
            try:
                call()
            except AppError:
                # the layer below logs the application's error and keeps the connection (log.callWithLogger)
                pass
        app.armed = False
        if app.raised > before:
            sim.fault("app_raised")
            sim.event("app-raised", name, end - start)
            if any(start < p <= end for p in wire_in[name].upto(delivered(name)).cmd_ends):
                # bytes were handed over in the middle of the chunk, in front of a negotiation command, and the exception cut the
                # processing of the command and of the rest of the chunk short
                sim.probe("raise_mid_chunk_rest_unjudged")
                flags["unjudged"] = name
                for l in links:
                    if sync:
                        l.frozen = True
                return False
            if got(name):
                sim.probe("raise_then_more_judged")
        return True

    def may_reenter(link, lname, start, end):
        """A write towards a protocol that is inside dataReceived with the piece start..end: may the link hand it over at once (re-entering that
        protocol) without disturbing the stream order?  Yes when nothing of the piece can be left unconsumed: every application byte the wire
        held up to `end` has been given to the application and no negotiation command ends inside the piece (a command that ends exactly at `end`, or
        is cut by it, is fine: the protocol is calling out about the last byte it was given)."""
        name = gname[(link, lname)]
        w = wire_in[name].upto(link.delivered[lname])
        ok = end == len(link.delivered[lname]) and apps[name].nbytes == w.napp and not any(start < p < end for p in w.cmd_ends)
        if ok and end - start > 1:
            sim.probe("reentered_after_a_longer_piece")
            if w.cmd_ends and w.cmd_ends[-1] == end and end - start > 3:
                sim.probe("reentered_at_command_end_after_data_in_the_same_piece")
        return ok

    def sync_deliver(link, t, chunk):
        name = gname[(link, t.name)]
        end = len(link.delivered[t.name])
        hand_over(name, end - len(chunk), end, lambda: t.protocol.dataReceived(chunk))

    for link in links:
        for t in (link.a, link.b):
            t.on_write = tagger(gname[(link, t.name)], link._on_write if sync else None)
        if sync:
            link.hook = sync_deliver
            link.reenter = lambda lname, start, end, link=link: may_reenter(link, lname, start, end)
            link.held = True        # what a protocol writes from connectionMade is handed over once every endpoint is set up
        link.connect()

    def observe(name, kind):
        return lambda command, arg: rec[name].append((kind, command, arg))

    for name in names:
        if stacked[name]:
            sim.probe("endpoint_is_bootstrap_stack")
            boot = tt[name].protocol
            apps[name] = boot.protocol
            # the bootstrap protocol keeps stray commands / subnegotiations to itself: observe them there
            boot.unhandledCommand = observe(name, "command")
            boot.unhandledSubnegotiation = observe(name, "subneg")
        else:
            apps[name] = tt[name].protocol

    def net_step():
        """One tape-chosen network event (as Link.step) of the asynchronous link; the synchronous one has nothing left to do between operations."""
        if sync:
            return False
        ev = [(link, kind, lname) for link in links for kind, lname in link.enabled()]
        if not ev:
            return False
        link, kind, lname = ev[sim.draw_int(0, len(ev) - 1, "net")]
        amount = None
        if kind in ("xmit", "deliver"):
            amount = sim.draw_choice(list(AMOUNTS)[::-1], "amount")  # index 0 = everything
            if amount is not None:
                sim.fault("segmentation")
        if kind != "deliver":
            link.do(kind, lname, amount)
            return True
        start = len(link.delivered[lname])
        n = len(link.flight[lname]) if amount is None else max(1, min(amount, len(link.flight[lname])))
        return hand_over(gname[(link, lname)], start, start + n, lambda: link.do(kind, lname, amount))

    def negotiate():
        name = sim.draw_choice(["A", "B"], "neg_side")
        o = sim.draw_choice(opts, "neg_opt")
        kinds = [(k, w) for k, w in (("will", 3), ("do", 3), ("wont", 1), ("dont", 1))
                 if not (k == "will" and o not in policy[name][0]) and not (k == "do" and o not in policy[name][1])]
        k = sim.draw_weighted(kinds, "neg_kind")
        sim.event("negotiate", name, k, o)
        requested.add(o)
        with sim.guard("sender-raised", k):
            d = getattr(tt[name], k)(o)
        d.addErrback(lambda f: None)      # OptionRefused / AlreadyEnabled / AlreadyDisabled / AlreadyNegotiating: not this property's business
        sim.probe("negotiation_request")

    def app_write(name, data=None):
        """The application of `name` writes through its transport (the TelnetTransport, or the bootstrap protocol in front of it): `data` (an echo /
        a forwarded delivery), or fresh tape-chosen bytes."""
        t = apps[name].transport
        if sim.draw_bool(0.4, "use_seq"):
            if data is None:
                parts = [sim.draw_bytes(sim.draw_int(0, 6, "len"), alphabet) for _ in range(sim.draw_int(1, 4, "nparts"))]
            else:
                k = sim.draw_int(0, len(data), "split")
                parts = [data[:k], data[k:]]
            # ITransport.writeSequence takes any iterable of bytes: a list, a tuple, or a one-shot iterator / generator
            kind = sim.draw_choice(["list", "tuple", "iter", "generator"], "iovec")
            sim.event("writeSequence", name, kind, *parts)
            arg = parts if kind == "list" else tuple(parts) if kind == "tuple" else iter(parts) if kind == "iter" else (p for p in parts)
            label, call = "writeSequence", lambda: t.writeSequence(arg)
            sim.probe("writeSequence")
            if kind in ("iter", "generator"):
                sim.probe("writeSequence_one_shot_iterable")
            data = b"".join(parts)
        else:
            if data is None:
                data = sim.draw_bytes(sim.draw_int(0, 10, "len"), alphabet)
            sim.event("write", name, data)
            label, call = "write", lambda: t.write(data)
        sent[name] += data
        if stacked[name]:
            sim.probe("write_through_bootstrap")
            if b"\xff" in data:
                sim.probe("iac_written_through_bootstrap")
            if b"\n" in data:
                sim.probe("lf_written_through_bootstrap")
        st = tt[name].options.get(BINARY)
        binary = st is not None and (st.us.state == "yes" or st.us.negotiating)
        pst = tt[peer[name]].options.get(BINARY)
        if b"\n" in data and pst is not None and pst.him.state == "yes":
            sim.probe("lf_written_to_binary_receiver")
        outer = writing[name]
        pieces_written = writing[name] = []
        try:
            with sim.guard("sender-raised", label):
                call()
        finally:
            writing[name] = outer
        wire = b"".join(pieces_written)
        if binary:
            sim.probe("write_in_binary_mode")
        else:
            # "line feeds sent as CR LF": every LF written is a CR LF pair on the wire and there is no other CR
            n = data.count(b"\n")
            sim.check("lf-as-crlf", wire.count(b"\r\n") == n and wire.count(b"\n") == n and wire.count(b"\r") == n,
                      "wire-behind-bootstrap" if stacked[name] else "wire",
                      lambda: "%s wrote %r, wire %r" % (name, data, wire))

    def reaction(name):
        def react(kind, payload):
            if flags["unjudged"]:
                return
            if kind == "data" and b"\r" in payload:
                return      # no application writes a CR (per the statement): one that was handed a CR - judged by bytes-equal - does not pass it on
            if kind == "data" and name == "B" and relay:
                sim.probe("relay_forward_inside_dataReceived")
                app_write("C", payload)
            if budget[0] <= 0:
                return
            if kind == "data":
                if on_data[name] == "quiet" or not sim.draw_bool(0.6, "reacts"):
                    return
                budget[0] -= 1
                sim.probe("write_inside_dataReceived_%s" % on_data[name])
                app_write(name, payload if on_data[name] == "echo" else None)
            else:
                if not on_option[name] or not sim.draw_bool(0.7, "reacts"):
                    return
                budget[0] -= 1
                sim.probe("write_inside_option_callback")
                app_write(name)
        return react

    for name in ("A", "B"):
        if relay or on_data[name] != "quiet" or on_option[name]:
            apps[name].react = reaction(name)

    if sync:
        for link in links:
            link.release()          # (only a bootstrap protocol has written anything so far)

    def finish():
        lossy = flags["unjudged"]
        for name in names:
            w = peer[name]
            g = got(name)
            sim.event("received", name, g)
            # a bootstrap protocol asks for its options when the connection is made, and follows an accepted LINEMODE with a subnegotiation
            asked = requested | set(BOOT_ASKS) if stacked[w] else requested
            if stacked[w] and any(e[0] == "subneg" and e[1] == telnet.LINEMODE for e in rec[name]):
                sim.probe("bootstrap_subnegotiation_received")
            stray = [e for e in rec[name] if e[0] != "data" and not (e[0] in NEG_CALLBACKS and e[1] in asked)
                     and not (e[0] == "subneg" and e[1] == telnet.LINEMODE and stacked[w] and telnet.LINEMODE in policy[name][0])]
            sim.check("no-command-fired", not stray, CMD_WITNESS[name],
                      lambda: "%s callbacks fired: %r (peer sent %r)" % (name, stray[:3], bytes(sent[w])))
            if lossy is not None:
                # the run stopped early: nothing may have been delivered twice or out of order so far
                sim.check("bytes-equal", bytes(sent[w]).startswith(g), "prefix",
                          lambda: "%s received %r which is not a prefix of %r; wire %r" % (name, g, bytes(sent[w]), bytes(trans[w].written)))
            else:
                sim.check("bytes-equal", g == bytes(sent[w]), BYTES_WITNESS[name],
                          lambda: "%s: peer sent %r got %r wire %r (%d raising deliveries)" % (name, bytes(sent[w]), g, bytes(trans[w].written), apps[name].raised))
            if not sent[w] and name in ("A", "C"):
                sim.check("sender-quiet", not [e for e in rec[name] if e[0] == "data"], CMD_WITNESS[name], "%s app saw %r" % (name, rec[name][:3]))
        allsent = b"".join(bytes(sent[n]) for n in names)
        sim.nontrivial = ((b"\xff" in allsent or b"\n" in allsent)
                          and (sim.faults.get("segmentation", 0) > 0 or sim.probes.get("sync_delivery_nested_in_peer_delivery", 0) > 0))

    def cork(hold):
        """Synchronous link: cork it (what is written queues up) or uncork it (everything queued is handed over at once, so that one piece can hold
        what several writes and requests produced)."""
        for link in links:
            if hold and not link.held:
                sim.probe("link_corked")
                link.held = True
            elif not hold and link.held:
                link.release()

    for i in range(nwrites):
        if sync:
            cork(sim.draw_bool(0.3, "corked"))
        if neg_w:
            for _ in range(sim.draw_int(0, neg_w, "nrequests")):
                negotiate()
                for _ in range(sim.draw_int(0, 4, "neg_netsteps")):
                    if not net_step():
                        break
                if flags["unjudged"]:
                    return finish()
        if sync:
            cork(sim.draw_bool(0.3, "corked"))
        app_write("B" if duplex and sim.draw_bool(0.4, "writer") else "A")
        if interleave:
            for _ in range(sim.draw_int(0, 3, "netsteps")):
                if not net_step():
                    break
        if flags["unjudged"]:
            return finish()
    if sync:
        cork(False)
    n = 0
    while n < 100000 and net_step():
        n += 1
    return finish()


MUTANTS = [
    "telnet.py TelnetTransport.writeSequence bypassing IAC escaping / LF->CRLF -> caught (receiver-raised:ValueError; bytes-equal:receiver) [seeds C38-bulk-fastpath-odd-iac, C38-r2, C38-r3]",
    "telnet.py dataReceived: application-data buffer kept on the instance and cleared only after a successful applicationDataReceived (bytes of a raising delivery "
    "handed over again with the next chunk) -> caught (bytes-equal:receiver) [raising receiver family]",
    "telnet.py dataReceived: CR handled as ordinary data once the peer's TRANSMIT-BINARY is enabled while write() keeps sending CR LF -> caught (bytes-equal:receiver) "
    "[option negotiation family]",
    "telnet.py ProtocolTransportMixin.write: LF no longer translated to CR LF -> caught ONLY by lf-as-crlf:wire (a bare LF passes the receiver unchanged, so the end-to-end clause holds)",
    "telnet.py dataReceived, flush in front of a negotiation command: `del appDataBuffer[:]` dropped -> caught (bytes-equal:receiver/sender-side/prefix) [negotiation between writes]",
    "telnet.py Telnet: the list dataReceived collects application bytes in made a class attribute shared by all instances (cleared after each hand-over) -> caught "
    "(bytes-equal:relay-receiver / receiver / sender-side) [synchronous link: echoing peer, relay C -> D; seed C38-r5a]",
    "telnet.py Telnet.dataReceived: the collecting list kept per instance and cleared after the hand-over (same-instance re-entrancy hands bytes over twice) -> caught "
    "(bytes-equal:receiver/sender-side/prefix) [synchronous link, answer re-enters the protocol that is calling out]",
    "telnet.py dataReceived 'command' branch: self.state = 'data' only after the call-outs -> caught (no-command-fired:sender, receiver-raised:ValueError/RecursionError) "
    "[synchronous link + write inside option callback + answering peer; seed C38-r5b]",
    "telnet.py dataReceived 'command' branch: self.state = 'data' after the flush of pending data but before commandReceived -> caught (receiver-raised:AttributeError) "
    "[corked synchronous link: data and command in one piece, both applications reacting]",
    "telnet.py dataReceived, flush in front of a subnegotiation (IAC SE): `del appDataBuffer[:]` dropped -> caught (bytes-equal:receiver/sender-side/relay-receiver) "
    "[stack family: only a bootstrap protocol puts a subnegotiation on the wire]",
    "telnet.py TelnetBootstrapProtocol.dataReceived passing on data.rstrip(NUL) -> caught (bytes-equal:receiver/sender-side/relay-receiver) [stack family]",
    "FINDING put aside as an OBSERVATION outside the statement (tree as found, not repaired; precondition kept out, STACK_LF_P deliberately 0.0): through TelnetTransport(TelnetBootstrapProtocol, app) LF is translated twice - "
    "TelnetBootstrapProtocol.write (ProtocolTransportMixin.write: LF -> CR LF) hands b'a\\r\\nb' to TelnetTransport.write, which runs the same mixin again: "
    "app.transport.write(b'a\\nb') / writeSequence([b'a\\nb']) put b'a\\r\\r\\nb' on the wire and the peer application receives b'a\\r\\r\\nb'.  With STACK_LF_P = 0.3: "
    "C38:lf-as-crlf:wire-behind-bootstrap in the first batches of quick (witness replays/C38_80565942_8.json: A stacked, one write(b'\\n'), wire CR CR LF); candidate "
    "fix - TelnetBootstrapProtocol.write(data) = self.transport.write(data), its transport being a telnet transport that translates and escapes - makes quick pass "
    "(24000 runs, 2135 LF writes through a bootstrap protocol) with STACK_LF_P = 0.3",
]
