"""C38 — telnet carries application bytes transparently.

Engine E3 (net): a real TelnetTransport writes application bytes (write /
writeSequence groupings chosen by the tape) onto a simulated link; a second real
TelnetTransport receives the wire stream under tape-chosen segmentation.
Oracle: receiver's application data == bytes written; no command/negotiation
callback ever fires.
"""
from zope.interface import implementer

from twisted.conch import telnet
from detsim import net

ID = "C38"
ENGINE = "net"
LEVEL = "exploration"
TECHNIQUE = "deterministic simulation: seeded write grouping + wire segmentation between two real TelnetTransports"
QUICK_RUNS = 60000
TWIN_P = 0.08   # this share of the runs drives two independent instances of the scenario one after the other (detsim.runner._run_scenario)
BATCH = 200
COMPONENTS = {"real": ["twisted.conch.telnet.TelnetTransport.write/writeSequence", "twisted.conch.telnet.Telnet.dataReceived"],
              "stub": ["TCP transport and delivery segmentation (detsim.net.Link)"]}
RULE = ("run = 1..8 application writes (write or writeSequence, bytes from an alphabet rich in 0xFF, LF, NUL and telnet command bytes, no CR) "
        "through a sender TelnetTransport, wire delivered in tape-chosen pieces; non-trivial = payload contains 0xFF or LF and the wire was cut at least once")
ASSUMPTIONS = ["application data contains no CR (per the statement)"]

ALPHABET = bytes([0xFF, 0xFF, 0xFF, 0x0A, 0x0A, 0x00, 0xF0, 0xFA, 0xFB, 0xFC, 0xFD, 0xFE, 0xF1, 0x41, 0x42, 0x20, 0x7F, 0x80])


@implementer(telnet.ITelnetProtocol)
class App:
    def __init__(self, rec):
        self.rec = rec

    def makeConnection(self, t):
        self.transport = t

    def dataReceived(self, data):
        self.rec.append(("data", data))

    def connectionLost(self, reason):
        self.rec.append(("lost",))

    def unhandledCommand(self, command, argument):
        self.rec.append(("command", command, argument))

    def unhandledSubnegotiation(self, command, data):
        self.rec.append(("subneg", command, data))

    def enableLocal(self, option):
        self.rec.append(("enableLocal", option))
        return False

    def enableRemote(self, option):
        self.rec.append(("enableRemote", option))
        return False

    def disableLocal(self, option):
        self.rec.append(("disableLocal", option))

    def disableRemote(self, option):
        self.rec.append(("disableRemote", option))


def run(sim):
    nwrites = sim.draw_int(1, 8, "nwrites")
    rec_a, rec_b = [], []
    a = telnet.TelnetTransport(App, rec_a)
    b = telnet.TelnetTransport(App, rec_b)
    link = net.Link(sim, a, b)
    link.connect()
    sent = bytearray()
    interleave = sim.draw_bool(0.5, "interleave")
    for i in range(nwrites):
        if sim.draw_bool(0.4, "use_seq"):
            parts = [sim.draw_bytes(sim.draw_int(0, 6, "len"), ALPHABET) for _ in range(sim.draw_int(1, 4, "nparts"))]
            # ITransport.writeSequence takes any iterable of bytes: a list, a tuple, or a one-shot iterator / generator
            kind = sim.draw_choice(["list", "tuple", "iter", "generator"], "iovec")
            sim.event("writeSequence", kind, *parts)
            arg = parts if kind == "list" else tuple(parts) if kind == "tuple" else iter(parts) if kind == "iter" else (p for p in parts)
            with sim.guard("sender-raised", "writeSequence"):
                a.writeSequence(arg)
            sim.probe("writeSequence")
            if kind in ("iter", "generator"):
                sim.probe("writeSequence_one_shot_iterable")
            for p in parts:
                sent += p
        else:
            data = sim.draw_bytes(sim.draw_int(0, 10, "len"), ALPHABET)
            sim.event("write", data)
            a.write(data)
            sent += data
        if interleave:
            with sim.guard("receiver-raised"):
                for _ in range(sim.draw_int(0, 3, "netsteps")):
                    link.step()
    with sim.guard("receiver-raised"):
        link.run()
    got = b"".join(e[1] for e in rec_b if e[0] == "data")
    other = [e for e in rec_b if e[0] not in ("data",)]
    sim.event("received", got)
    sim.check("no-command-fired", not other, "receiver", "callbacks fired: %r (sent %r)" % (other[:3], bytes(sent)))
    sim.check("bytes-equal", got == bytes(sent), "receiver", "sent %r got %r wire %r" % (bytes(sent), got, bytes(link.a.written)))
    sim.check("sender-quiet", not rec_a, "sender", "sender app saw %r" % (rec_a[:3],))
    sim.nontrivial = (b"\xff" in sent or b"\n" in sent) and sim.faults.get("segmentation", 0) > 0
