"""C12 — system event triggers run once each, in phase and registration order.

Engine E1 (tasks): a minimal real ReactorBase subclass (never started; only
addSystemEventTrigger / removeSystemEventTrigger / fireSystemEvent are used, i.e.
the real _ThreePhaseEvent).  The tape registers up to 20 triggers over the three
phases of one or two event types, removes some (before firing, while the event
waits for before-Deferreds, and from inside running triggers), makes triggers
raise, makes before-triggers return Deferreds (unfired / already fired /
failing) which the tape fires later in any order, and lets triggers register
further triggers.  An event is fired up to four times per run with registrations and
removals in between; per event a tape-chosen subset of the phases is used at all
(events with only before-triggers, without before-triggers, ...), and in some runs
no trigger returns a Deferred.  A hook (callable + arguments) whose earlier
registration has run or was removed may be registered AGAIN with identical
arguments, so that its handle compares equal to the earlier one; the model treats
that as a fresh trigger instance.  While its event is idle a hook may also be
registered BESIDE a registration of the same hook that is still waiting to run
(several equal registrations at once, in one phase or in different phases): each
of them must run once, and removing through one of the equal handles removes ONE
of them (the model gives no verdict on which one - see blockers()).  A raising
trigger raises an ordinary Exception or, with a per-run probability, an exception
outside the Exception hierarchy (harness-defined Stop, KeyboardInterrupt,
SystemExit, asyncio.CancelledError); every call that can run triggers sits in an
Escape block so that such an exception leaving the code under test is a violation
and not the end of the worker process.  Every trigger is one recording function; an
independent per-event model (three ordered lists + set of outstanding Deferreds)
says, at the moment a trigger runs, whether it is the one that must run now.
"""
import asyncio
import os

from twisted.internet import defer
from twisted.internet.base import ReactorBase

from detsim.sim import StepLimit, Violation

ID = "C12"
ENGINE = "tasks"
LEVEL = "exploration"
TECHNIQUE = "deterministic simulation: seeded registration/removal/firing histories on a real ReactorBase vs ordered-phase reference model"
QUICK_RUNS = 60000
TWIN_P = 0.08   # this share of the runs drives two independent instances of the scenario one after the other (detsim.runner._run_scenario)
BATCH = 300
RUN_WALL_LIMIT_S = 120   # runs take milliseconds; generous because whole-machine stalls >20 s were seen under load
COMPONENTS = {"real": ["twisted.internet.base.ReactorBase.addSystemEventTrigger/removeSystemEventTrigger/fireSystemEvent",
                       "twisted.internet.base._ThreePhaseEvent", "twisted.internet.defer.DeferredList"],
              "stub": ["reactor main loop, waker, fd set (never started); who registers/removes/fires and when before-Deferreds fire (tape)"]}
RULE = ("run = up to 20 registrations over before/during/after of 1-2 event types with behaviours {plain, raise, return unfired/fired/failed Deferred, "
        "remove another trigger, register another trigger}, removals before firing / while waiting / from inside triggers, then fireSystemEvent and "
        "tape-ordered firing (success or failure) of the returned Deferreds, 1-4 firings per event with registrations/removals in between; per event "
        "a tape-chosen subset of phases is populated (partly empty events), in a quarter of the runs no trigger returns a Deferred; with a per-run "
        "probability a registration re-uses the callable+arguments of an earlier registration of that event that has run or was removed (equal "
        "handle, fresh trigger instance in the model), removals go through any handle that compares equal; with a per-run probability (0/.25/.5) "
        "a registration made while its event is idle repeats a hook that is STILL registered (several equal registrations at once, mostly in the "
        "same phase, sometimes in another one), each must run once and a removal through one of the equal handles removes exactly one of them; "
        "with a per-run probability (0/.3/.6) a raising trigger raises a non-Exception BaseException (harness Stop, KeyboardInterrupt, "
        "SystemExit, asyncio.CancelledError) instead of an Exception, calls that run triggers are contained by Escape; non-trivial = an event waited on at "
        "least one unfired Deferred AND (a trigger raised, or a removal or registration happened during the firing)")
ASSUMPTIONS = ["an event is not fired again while a firing of the same event is in progress",
               "triggers registered while their event is being fired get no ordering verdict for that firing (statement is silent); "
               "if they did not run they count as ordinary registered triggers for the next firing",
               "while an event is being fired at most one registered-and-not-yet-run trigger of it exists per (callable, arguments) unless all of "
               "them were registered before the firing began: a hook that is still registered is registered again only while its event is idle, "
               "so no trigger 'registered during the firing' (no ordering verdict) is ever indistinguishable from one that has a verdict; an "
               "executing hook with several registrations is attributed to the oldest registration of the earliest phase",
               "removing through a handle that denotes several equal registrations (same phase, callable, arguments) removes exactly ONE of them; "
               "the statement does not say which, so the vacated position gets no verdict (the real code vacates the oldest): the remaining "
               "count must run, the order of the OTHER triggers relative to the remaining ones must be consistent with some choice",
               "'an exception in one trigger' includes exceptions outside the Exception hierarchy (SystemExit, KeyboardInterrupt, "
               "asyncio.CancelledError, application-defined BaseException subclasses): they neither leave fireSystemEvent nor stop the other triggers",
               "handles are values: removing through a handle that compares equal (==) to the handle of the registered instance removes that instance",
               "removing through a handle none of whose equal registrations is still registered: must raise only if none of them ever ran "
               "(IReactorCore documents the exception; removal of already-run triggers merely warns today)",
               "REREG_RAN_BEFORE_HOOK_IN_FIRING_P: see the constant (precondition of a genuine defect of the tree as first examined, REPAIRED in /repo 9377ebd; "
               "let into 0.2 of the runs by default)"]

# Share of runs that may re-register, WHILE an event is being fired, a before-hook identical to a before-trigger that already ran in
# this very firing.  On the tree as first examined removing such a re-registration before the firing completed only warned and left it
# registered (removeTrigger_BEFORE looked the value up in finishedBefore), so it ran at the next firing: signature
# C12:removed-never-runs:before:equal-hook-ran-in-this-firing - genuine defect, REPAIRED in /repo 9377ebd (see MUTANTS).  The default
# lets the precondition into 0.2 of the runs; VERIF_C12_REREG_RAN_BEFORE_P=0 in the environment keeps it out (dev-time comparison only;
# search and --replay); everything else about re-registration is exercised regardless.
REREG_RAN_BEFORE_HOOK_IN_FIRING_P = float(os.environ.get("VERIF_C12_REREG_RAN_BEFORE_P", "0.2"))


class Boom(Exception):
    pass


class Stop(BaseException):
    """A harness-defined exception outside the Exception hierarchy (an application's control-flow exception)."""


# what a raising trigger raises: first the ordinary case, then the types that `except Exception` does not name
EXC = {"Boom": Boom, "Stop": Stop, "KeyboardInterrupt": KeyboardInterrupt, "SystemExit": SystemExit, "CancelledError": asyncio.CancelledError}
BARE = ("Stop", "KeyboardInterrupt", "SystemExit", "CancelledError")


class Escape:
    """`with Escape(sim, clause, witness):` around every call into the code under test that may run triggers: an exception of ANY
    type raised by a trigger that leaves the call is the violation `clause` (sim.guard lets non-Exception exceptions pass, and a
    leaked SystemExit would silently end the worker process).  The scenario's exceptions carry "trigger"/"pre"/"late" as first
    argument; an untagged non-Exception exception is one of the runner's watchdogs and passes."""

    def __init__(self, sim, clause, witness):
        self.sim, self.clause, self.witness = sim, clause, witness

    def __enter__(self):
        return self

    def __exit__(self, et, ev, tb):
        if et is None or issubclass(et, (Violation, StepLimit)):
            return False
        if not issubclass(et, Exception) and not (ev.args and ev.args[0] in ("trigger", "pre", "late")):
            return False
        self.sim.check(self.clause, False, "%s:%s" % (self.witness, et.__name__), "%s%r escaped from the code under test" % (et.__name__, ev.args))
        return False


class MiniReactor(ReactorBase):
    """The smallest concrete ReactorBase: no waker, never run."""

    def installWaker(self):
        pass


PHASES = ("before", "during", "after")
# which phases of an event are populated at all in a run (first = simplest: all of them)
MASKS = [(PHASES, 6), (("before",), 3), (("before", "during"), 1), (("before", "after"), 1), (("during", "after"), 1), (("during",), 1), (("after",), 1)]


class EvModel:
    def __init__(self):
        self.lists = {"before": [], "during": [], "after": []}   # registered, not removed, not yet run; registration order
        self.firing = False
        self.serial = 0
        self.pending = set()      # ids of unfired Deferreds returned by before-triggers in the current firing
        self.excess = {}          # (hook key, phase) -> how many of that hook's listed registrations of that phase were removed
        #                           without the model knowing WHICH of the equal registrations went (always < number listed)


def run(sim):
    nev = sim.draw_choice([1, 2], "nevents")
    events = ["alpha", "beta"][:nev]
    nreg = sim.draw_int(1, 20, "nreg")
    masks = {ev: sim.draw_weighted(MASKS, "mask") for ev in events}
    rereg_p = sim.draw_choice([0.0, 0.3, 0.6], "rereg_p")      # share of registrations that re-use an earlier hook (callable + arguments)
    deferreds = not sim.draw_bool(0.25, "no_deferreds")        # False: no trigger of this run returns a Deferred
    churn = sim.draw_choice([1, 3], "churn")                   # weight of registrations between / during firings
    dup_p = sim.draw_choice([0.0, 0.25, 0.5], "dup_p")         # share of idle-time registrations that repeat a hook that is still registered
    bare_p = sim.draw_choice([0.0, 0.3, 0.6], "bare_p")        # share of raising triggers that raise a non-Exception BaseException
    allow_ran_before = REREG_RAN_BEFORE_HOOK_IN_FIRING_P > 0 and sim.draw_bool(REREG_RAN_BEFORE_HOOK_IN_FIRING_P, "allow_ran_before")
    sim.config = {"events": nev, "registrations": nreg, "phases": {ev: "+".join(masks[ev]) for ev in events}, "rereg_p": rereg_p,
                  "deferreds": deferreds, "churn": churn, "dup_p": dup_p, "bare_p": bare_p}
    reactor = MiniReactor()
    model = {ev: EvModel() for ev in events}
    T = {}          # tid -> info (one per REGISTRATION = trigger instance)
    K = {}          # key -> {"ev", "kw", "insts": [tid, ...]}; the key is the argument the hook is registered with (hook identity)
    live = {}       # key -> [tid, ...] registrations of that hook that are listed in the model (registered, not run, not known to
    #                 be removed), in registration order; more than one only through the equal-registrations family
    D = {}          # did -> (Deferred, ev)
    order = []      # observed execution log: (ev, serial, tid)
    st = {"tid": 0, "did": 0, "depth": 0, "waited": 0, "raised": 0, "mid_change": 0, "dups": 0, "dup_removed": 0, "bare": 0}

    def is_late(tid):
        info = T[tid]
        m = model[info["ev"]]
        return m.firing and info["late"] == m.serial

    def blockers(m, phase, upto=None, skip_late=True):
        """The listed triggers of `phase` registered before `upto` (all of them if None) -> (blocking, phantom).  `blocking` must have run
        before whatever comes after them may run.  `phantom`: where one of several equal registrations was removed, the statement
        does not say which position is vacated, so as many of that hook's listed registrations as were removed (oldest first) do
        not block: if something behind them runs first, they are the removed ones."""
        budget = {g: n for g, n in m.excess.items() if g[1] == phase}
        blocking, phantom = [], []
        for t in m.lists[phase]:
            if t == upto:
                break
            if skip_late and is_late(t):
                continue
            g = (T[t]["key"], phase)
            if budget.get(g, 0) > 0:
                budget[g] -= 1
                phantom.append(t)
            else:
                blocking.append(t)
        return blocking, phantom

    def drop(tid):
        """registration `tid` leaves the model lists (it runs, or it is known to be removed)"""
        info = T[tid]
        model[info["ev"]].lists[info["phase"]].remove(tid)
        live[info["key"]].remove(tid)
        if not live[info["key"]]:
            del live[info["key"]]

    def vacate(tid):
        """listed registration `tid` turns out to be one of the removed equal registrations"""
        info = T[tid]
        m = model[info["ev"]]
        g = (info["key"], info["phase"])
        info["removed"] = True
        drop(tid)
        if m.excess.get(g, 0) > 1:
            m.excess[g] -= 1
        else:
            m.excess.pop(g, None)

    def settle(key, phase, m):
        """if as many registrations of the hook are listed in `phase` as were removed, the listed ones ARE the removed ones"""
        n = m.excess.get((key, phase), 0)
        if n:
            rest = [t for t in live.get(key, ()) if T[t]["phase"] == phase]
            if len(rest) <= n:
                for t in rest:
                    vacate(t)

    def ran_before_in_this_firing(key, m):
        return m.firing and any(T[t]["phase"] == "before" and T[t]["ran_serial"] == m.serial for t in K[key]["insts"])

    def register(phase, ev, beh, by):
        st["tid"] += 1
        tid = st["tid"]
        m = model[ev]
        key = None
        dup = False
        if dup_p and not m.firing and sim.draw_bool(dup_p, "dup"):
            # the same hook once more while a registration of it is still waiting to run: several equal registrations at once.
            # Only while the event is idle: none of several equal registrations is ever one "registered during the firing".
            cands = [k for k in sorted(live) if K[k]["ev"] == ev]
            if cands:
                key = sim.draw_choice(cands, "key")
                dup = True
                if not sim.draw_bool(0.25, "other_phase"):
                    phase = T[sim.draw_choice(live[key], "beside")]["phase"]
        if key is None and rereg_p and sim.draw_bool(rereg_p, "rereg"):
            # the same hook again: same callable, same arguments -> a handle equal to the one of its earlier registration(s)
            cands = [k for k in sorted(K) if K[k]["ev"] == ev and k not in live]
            if cands:
                key = sim.draw_choice(cands, "key")
                if not sim.draw_bool(0.25, "other_phase"):
                    phase = T[K[key]["insts"][-1]]["phase"]
                if phase == "before" and ran_before_in_this_firing(key, m):
                    if allow_ran_before:
                        sim.probe("reregistered_before_hook_that_ran_in_this_firing")
                    else:
                        key = None
        if key is None:
            key = tid
            K[key] = {"ev": ev, "kw": sim.draw_bool(0.2, "kw"), "insts": []}
        elif dup:
            st["dups"] += 1
            sim.probe("registered_hook_equal_to_a_waiting_registration")
            sim.probe("equal_registrations_same_phase" if any(T[t]["phase"] == phase for t in live[key]) else "equal_registrations_other_phase")
        else:
            sim.probe("reregistered_identical_hook")
            prev = T[K[key]["insts"][-1]]
            sim.probe("reregistered_hook_that_ran" if prev["runs"] else "reregistered_hook_that_was_removed")
        exc = ""
        if beh == "raise":
            exc = "Boom"
            if bare_p and sim.draw_bool(bare_p, "bare"):
                exc = sim.draw_choice(BARE, "exc")
        K[key]["insts"].append(tid)
        live.setdefault(key, []).append(tid)
        info = {"key": key, "phase": phase, "ev": ev, "beh": beh, "exc": exc, "runs": 0, "removed": False, "late": m.serial if m.firing else None,
                "ran_serial": None, "ctx": ""}
        T[tid] = info
        sim.event("add", by, tid, key, phase, ev, beh + exc, "late" if m.firing else "")
        if m.firing:
            st["mid_change"] += 1
            sim.probe("registered_during_firing")
        with sim.guard("add-raised", phase):
            if K[key]["kw"]:
                info["handle"] = reactor.addSystemEventTrigger(phase, ev, trigger, tid=key)
            else:
                info["handle"] = reactor.addSystemEventTrigger(phase, ev, trigger, key)
        m.lists[phase].append(tid)
        return tid

    def remove(tid, by):
        """removeSystemEventTrigger(handle returned by registration `tid`)."""
        info = T[tid]
        key = info["key"]
        m = model[info["ev"]]
        # the listed registrations this handle denotes: those whose handle compares equal (same hook, same phase)
        group = [t for t in live.get(key, ()) if t == tid or info["handle"] == T[t]["handle"]]
        if group:
            # the handle denotes at least one registered trigger that has not run: removal must succeed, ONE of the registrations it
            # denotes is gone and never runs, the others still run once each
            phase = T[group[0]]["phase"]
            g = (key, phase)
            sim.event("remove", by, tid, "live", len(group), m.excess.get(g, 0))
            if tid not in group:
                sim.probe("removed_through_equal_handle_of_earlier_registration")
            if len(K[key]["insts"]) > 1:
                sim.probe("reregistered_hook_removed")
                if ran_before_in_this_firing(key, m) and phase == "before":
                    for t in group:
                        T[t]["ctx"] = ":equal-hook-ran-in-this-firing"
            if len(group) > 1:
                st["dup_removed"] += 1
                sim.probe("removed_one_of_several_equal_registrations")
                m.excess[g] = m.excess.get(g, 0) + 1
                settle(key, phase, m)
            else:
                T[group[0]]["removed"] = True
                drop(group[0])
            if m.firing:
                st["mid_change"] += 1
                sim.probe("removed_during_firing")
            with sim.guard("remove-raised", phase + (":firing" if m.firing else ":idle") + (":equal-registrations" if len(group) > 1 else "")):
                reactor.removeSystemEventTrigger(info["handle"])
            return
        # no registered trigger behind this handle; "already-removed" only if NO registration with an equal handle ever ran
        equal = [t for t in K[key]["insts"] if t == tid or info["handle"] == T[t]["handle"]]
        kind = "already-run" if any(T[t]["runs"] for t in equal) else "already-removed"
        sim.event("remove", by, tid, kind)
        raised = None
        try:
            reactor.removeSystemEventTrigger(info["handle"])
        except (KeyError, ValueError, TypeError) as e:
            raised = type(e).__name__
        except Exception as e:
            sim.fail("remove-absent-wrong-exception", kind, "%s: %s" % (type(e).__name__, e))
        if kind == "already-removed":
            sim.probe("remove_absent")
            # IReactorCore.removeSystemEventTrigger documents KeyError/ValueError/TypeError
            sim.check("remove-absent-raises", raised is not None, info["phase"], "removing an already removed trigger %d did not raise" % tid)
        # already-run: warns (before, while waiting) or raises; no verdict

    def trigger(tid):
        # `tid` is the hook's argument (its key); the instance that runs is the registered one of that hook - if there is none, the
        # newest registration of the hook is what ran again / ran although removed
        key = tid
        if key in live:
            # several equal registrations: the phases run in order and each phase in registration order, so what runs is the oldest
            # one of the earliest phase (registrations of one hook are listed several times only if none was registered during a firing)
            tid = min(live[key], key=lambda t: (PHASES.index(T[t]["phase"]), t))
            if len(live[key]) > 1:
                sim.probe("one_of_several_equal_registrations_ran")
        else:
            tid = K[key]["insts"][-1]
        info = T[tid]
        ev, phase, beh = info["ev"], info["phase"], info["beh"]
        m = model[ev]
        info["runs"] += 1
        info["ran_serial"] = m.serial
        late = is_late(tid)
        order.append((ev, m.serial, tid))
        sim.event("run", tid, key, phase, ev, beh, "late" if late else "")
        sim.check("runs-once", info["runs"] == 1, phase, "trigger %d (hook %d) ran %d times" % (tid, key, info["runs"]))
        sim.check("removed-never-runs", not info["removed"], phase + info["ctx"],
                  "trigger %d (registration %d of hook %d) ran after it was removed" % (tid, len(K[key]["insts"]), key))
        sim.check("runs-only-when-fired", m.firing, phase, "trigger %d of %s ran although %s is not being fired" % (tid, ev, ev))
        listed = tid in m.lists[phase]
        vacated = []
        if not late:
            if phase != "before":
                sim.check("before-first", not blockers(m, "before")[0], phase,
                          lambda: "%s-trigger %d ran while before-trigger %r had not run" % (phase, tid, blockers(m, "before")[0][0]))
                sim.check("waits-for-deferreds", not m.pending, phase,
                          lambda: "%s-trigger %d ran while before-Deferreds %r are unfired" % (phase, tid, sorted(m.pending)))
                if phase == "after":
                    sim.check("during-before-after", not blockers(m, "during")[0], "after",
                              lambda: "after-trigger %d ran while during-trigger %r had not run" % (tid, blockers(m, "during")[0][0]))
            if listed:
                ahead, vacated = blockers(m, phase, tid)
                sim.check("registration-order", not ahead, phase, lambda: "%s-trigger %d ran, oldest remaining is %r" % (phase, tid, ahead[0]))
            # (not listed: it ran again or ran although removed - reported above)
        elif listed:
            # a trigger registered while this firing was under way: the statement does not say whether it takes part in this
            # firing, but if it does it is still subject to "in registration order": it must not overtake a trigger of its
            # phase that was registered before it and has not run yet
            sim.probe("late_trigger_ran_in_same_firing")
            ahead, vacated = blockers(m, phase, tid, skip_late=False)
            sim.check("registration-order", not ahead, phase + ":registered-during-firing",
                      lambda: "%s-trigger %d (registered during this firing) ran before earlier-registered %s-trigger(s) %r" % (phase, tid, phase, ahead))
        if listed:
            for t in vacated:
                # equal registrations ahead of this trigger, as many as were removed: those are the ones that went
                sim.probe("removed_equal_registration_resolved_by_order")
                vacate(t)
            drop(tid)
            settle(key, phase, m)
        # ---- behaviour
        if beh == "raise":
            st["raised"] += 1
            sim.fault("trigger_raised")
            if info["exc"] in BARE:
                st["bare"] += 1
                sim.fault("trigger_raised_non_Exception")
                sim.probe("trigger_raised_" + info["exc"])
            raise EXC[info["exc"]]("trigger", tid)
        if beh == "remover":
            cands = sorted(t for t in T if T[t]["ev"] == ev and t != tid)
            if cands:
                remove(sim.draw_choice(cands, "target"), "trigger%d" % tid)
            return None
        if beh == "adder":
            if st["tid"] < 40:
                ev2 = sim.draw_choice(events, "ev")
                register(sim.draw_choice(masks[ev2], "phase"), ev2, sim.draw_choice(["plain", "raise"], "beh"), "trigger%d" % tid)
            return None
        if beh in ("dnew", "dok", "dfail"):
            st["did"] += 1
            did = st["did"]
            d = defer.Deferred()
            D[did] = (d, ev, phase)
            if beh == "dok":
                d.callback(("pre", did))
            elif beh == "dfail":
                d.errback(Boom("pre", did))
            elif phase == "before" and not late:
                m.pending.add(did)
            if beh == "dnew":
                if sim.draw_bool(0.25, "called_but_pending"):
                    # hand out a Deferred that has already been called back but whose callback chain waits on `d` (no result until `d` fires)
                    sim.probe("trigger_returned_called_but_pending_deferred")
                    _outer = defer.succeed(None)
                    _outer.addCallback(lambda _ignored, d=d: d)
                    return _outer
            return d
        return None

    def completion(ev):
        m = model[ev]
        left = [t for ph in PHASES for t in blockers(m, ph)[0]]
        sim.check("all-ran", not left, "complete",
                  lambda: "firing of %s is complete but triggers %r (%s) never ran" % (ev, left, ",".join(T[t]["phase"] for t in left)))
        m.firing = False
        for ph in PHASES:
            for t in m.lists[ph]:
                T[t]["late"] = None

    def fire(ev):
        m = model[ev]
        m.serial += 1
        m.firing = True
        m.pending = set()
        sim.event("fire", ev, m.serial)
        if m.serial > 1:
            sim.probe("fired_again")
        filled = [ph for ph in PHASES if m.lists[ph]]
        if 0 < len(filled) < 3:
            sim.probe("fired_with_empty_phase")
            if filled == ["before"]:
                sim.probe("fired_with_before_triggers_only")
        with Escape(sim, "fire-raised", "fireSystemEvent"):
            reactor.fireSystemEvent(ev)
        if m.pending:
            st["waited"] += 1
            sim.probe("waiting_on_deferreds")
        else:
            completion(ev)

    def behaviours(phase):
        if not deferreds:
            return [("plain", 5), ("raise", 2), ("remover", 2), ("adder", 2)]
        if phase == "before":
            return [("plain", 4), ("raise", 2), ("dnew", 4), ("dok", 1), ("dfail", 1), ("remover", 2), ("adder", 2)]
        return [("plain", 5), ("raise", 2), ("dnew", 1), ("remover", 2), ("adder", 2)]

    def op_register():
        ev = sim.draw_choice(events, "ev")
        phase = sim.draw_choice(masks[ev], "phase")
        register(phase, ev, sim.draw_weighted(behaviours(phase), "beh"), "caller")

    def op_remove():
        cands = sorted(T)
        if cands:
            # mostly live targets; sometimes an already removed / already run one
            waiting = [t for t in cands if not T[t]["removed"] and T[t]["runs"] == 0]
            if waiting and sim.draw_bool(0.8, "live"):
                remove(sim.draw_choice(waiting, "target"), "caller")
            else:
                remove(sim.draw_choice(cands, "target"), "caller")

    def op_fire_deferred():
        did = sim.draw_choice(sorted(d for d in D if not D[d][0].called), "which")
        d, ev, phase = D[did]
        m = model[ev]
        ok = sim.draw_bool(0.6, "ok")
        sim.event("deferred", did, "ok" if ok else "fail")
        was_pending = did in m.pending
        m.pending.discard(did)
        with Escape(sim, "deferred-fire-raised", phase):
            if ok:
                d.callback(("late", did))
            else:
                d.errback(Boom("late", did))
        if was_pending and m.firing and not m.pending:
            completion(ev)

    # ---- phase A: registrations and removals while idle
    for _ in range(nreg):
        sim.step(300)
        if T and sim.draw_bool(0.15, "remove_idle"):
            op_remove()
        else:
            op_register()
    # ---- phase B: fire, interleave
    fires_left = {ev: sim.draw_choice([1, 1, 2, 3, 4], "nfires") for ev in events}
    for _ in range(100):
        sim.step(300)
        ops = []
        idle = [ev for ev in events if not model[ev].firing and fires_left[ev] > 0]
        unf = [d for d in D if not D[d][0].called]
        waiting = [ev for ev in events if model[ev].firing]
        if idle:
            ops.append(("fire", 4))
        if unf:
            ops.append(("deferred", 6))
        if waiting or idle:
            ops.append(("register", churn))
            ops.append(("remove", 2))
        if not idle and not waiting:
            break
        if not ops:
            break
        op = sim.draw_weighted(ops, "op")
        if op == "fire":
            ev = sim.draw_choice(idle, "ev")
            fires_left[ev] -= 1
            fire(ev)
        elif op == "deferred":
            op_fire_deferred()
        elif op == "register":
            if st["tid"] < 40:
                op_register()
        else:
            op_remove()
        sim.state((tuple(sorted((ev, model[ev].firing, min(len(model[ev].pending), 3)) for ev in events)), op))
    # drain: every outstanding Deferred fires, so every firing completes
    while any(not D[d][0].called for d in D):
        sim.step(400)
        op_fire_deferred()
    for ev in events:
        sim.check("firing-completed", not model[ev].firing, "end", "event %s still waiting after all Deferreds fired" % ev)
    for did in D:
        D[did][0].addErrback(lambda f: None)
    sim.nontrivial = st["waited"] > 0 and (st["raised"] > 0 or st["mid_change"] > 0)


MUTANTS = [
    "base.py _ThreePhaseEvent.fireEvent: self.before.pop(0) -> pop(): CAUGHT (registration-order)",
    "base.py _ThreePhaseEvent._continueFiring: phase.pop(0) -> pop(): CAUGHT (registration-order)",
    "base.py fireEvent: _continueFiring attached to the first returned Deferred instead of the DeferredList: CAUGHT (waits-for-deferreds)",
    "base.py fireEvent: before-trigger called outside 'with _systemEventHandler' (exception escapes fireEvent): CAUGHT (fire-raised)",
    "base.py _continueFiring: during/after trigger called outside 'with _systemEventHandler': CAUGHT (all-ran / fire-raised)",
    "base.py _continueFiring: phases iterated after, during: CAUGHT (during-before-after)",
    "base.py fireEvent: DeferredList(fireOnOneCallback=True) (continues at the first fired Deferred): CAUGHT (waits-for-deferreds)",
    "base.py removeTrigger_BEFORE: removal of during/after triggers ignored while waiting: CAUGHT (removed-never-runs)",
    "base.py fireEvent: DeferredList(fireOnOneErrback=True) + addCallback (a failing before-Deferred stops the event): CAUGHT (all-ran)",
    "base.py fireEvent: _continueFiring skipped when no before-trigger returned a Deferred and during/after are empty (event stays in state "
    "BEFORE with a stale finishedBefore; an identical hook registered again and removed before the next firing is not removed): CAUGHT "
    "(removed-never-runs:before, runs-once:before, registration-order:before) - needs before-only events, several firings, equal handles",
    "base.py _continueFiring: 'self.state = \"BASE\"; self.finishedBefore = []' deleted (state of the previous firing kept): CAUGHT (removed-never-runs:before)",
    "base.py _continueFiring: 'if not self.during: return' (after-triggers of an event without during-triggers never run): CAUGHT (all-ran)",
    "base.py addTrigger: a hook equal to an entry of the last finishedBefore is silently not registered: CAUGHT (remove-raised, registration-order)",
    "base.py removeTrigger_BASE: list.remove -> rebuild the list without anything equal to the removed trigger (seeded r5a): CAUGHT "
    "(registration-order:before, all-ran, remove-raised:<phase>:idle:equal-registrations:ValueError) - needs several equal registrations at once",
    "base.py removeTrigger_BEFORE: self.before.remove(...) -> filter out every equal pending before-trigger: CAUGHT (registration-order:before, "
    "all-ran:complete, remove-raised:before:firing:equal-registrations:ValueError)",
    "base.py addTrigger: a trigger equal to one already listed in the phase is not appended: CAUGHT (remove-raised:...:equal-registrations, registration-order)",
    "base.py removeTrigger_BASE: removes the NEWEST equal registration instead of the oldest: holds (by design: no verdict on which equal registration goes)",
    "base.py fireEvent/_continueFiring: 'with _systemEventHandler' -> try/except Exception (seeded r5b): CAUGHT (fire-raised:fireSystemEvent:Stop/"
    "SystemExit/KeyboardInterrupt/CancelledError, all-ran:complete) - needs triggers raising non-Exception BaseExceptions",
    "base.py _continueFiring only: during/after trigger call under try/except Exception: CAUGHT (all-ran:complete)",
    "GENUINE DEFECT of the tree as first examined, REPAIRED in /repo 9377ebd (precondition let into REREG_RAN_BEFORE_HOOK_IN_FIRING_P = 0.2 of the runs; "
    "VERIF_C12_REREG_RAN_BEFORE_P=0 only for dev-time comparison): while an event is being fired (before-loop running "
    "or waiting for before-Deferreds) a before-hook identical to one that already ran in this firing is registered again and removed through its "
    "handle: removeTrigger_BEFORE found the value in finishedBefore, only warned, the trigger stayed registered and ran (same or next firing): "
    "C12:removed-never-runs:before:equal-hook-ran-in-this-firing",
]
