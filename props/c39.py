"""C39 — telnet option negotiation converges.

Engine E3 (net): two real twisted.conch.telnet.Telnet protocols joined by the
simulated link.  Either side issues will/wont/do/dont requests for 1-3 options
at tape-chosen moments while negotiation bytes are in flight; each direction
is a FIFO byte stream and the tape chooses which direction moves next and how
many bytes move (so crossing requests of every kind and commands split across
deliveries occur); then a drain phase delivers everything.  In a share of the
runs the application gives up on unanswered requests (cancel() of the returned
Deferred, or addTimeout on the simulated clock expiring), option hooks of an
endpoint raise (disableLocal/disableRemote of an application, or the stock ones
of a class that overrides only enable*, and enable* hooks that crash instead of
refusing) - an exception escaping dataReceived ends the connection the way a
reactor ends it - or the connection is simply lost.  A fifth of the requests
carry a callback that issues a further request when the first one's Deferred
fires - about the same option or about another one ("LINEMODE refused? then
offer ECHO") - and in a share of the runs such callbacks also act when the
Deferred fires because the connection ended.

Oracle (written from the statement, not from the state maps):
  * every request Deferred fires exactly once — never twice at any moment, none
    pending once all messages are delivered or the connection has ended
    (a request given up fires through its cancellation and never again;
    a request that a callback issues while the connection is being torn down
    is not judged itself, but it must not keep connectionLost from firing
    the Deferreds of the requests issued before);
  * no handler raises (this covers the "can never be entered" assertions);
  * the number of negotiation commands on the wire stays below a bound linear
    in the number of requests (a reply-to-a-reply loop exceeds it); a request
    that was given up is allowed one further exchange;
  * after the drain (connection still up) both sides agree per option (A.us == B.him, A.him == B.us),
    no perspective is still negotiating, and what each application was told
    through enable*/disable* matches its protocol's state;
  * each direction's byte stream, read as RFC 854 defines it (IAC, verb, ONE
    option byte of any value), consists of whole commands about the run's
    options plus exactly the application bytes written.
"""
from twisted.conch import telnet
from twisted.internet import defer, error
from twisted.python.failure import Failure

from detsim import net

ID = "C39"
ENGINE = "net"
LEVEL = "exploration"
TECHNIQUE = ("deterministic simulation: seeded interleaving of will/wont/do/dont requests with per-direction FIFO "
             "delivery between two real Telnet protocols; agreement/exactly-once/message-bound oracle")
QUICK_RUNS = 80000
TWIN_P = 0.08   # this share of the runs drives two independent instances of the scenario one after the other (detsim.runner._run_scenario)
# watchdog only (runs are step-capped): generous because a full GC pass in a freshly forked worker on a loaded 16-way box was seen to stall a run for >20 s wall
RUN_WALL_LIMIT_S = 120
BATCH = 400
COMPONENTS = {"real": ["twisted.conch.telnet.Telnet.will/wont/do/dont", "twisted.conch.telnet.Telnet.telnet_WILL/WONT/DO/DONT + willMap/wontMap/doMap/dontMap",
                       "twisted.conch.telnet.Telnet.dataReceived", "twisted.conch.telnet.Telnet.connectionLost", "twisted.conch.telnet.Telnet.disableLocal/disableRemote (stock)",
                       "twisted.internet.defer.Deferred (cancel, addTimeout)"],
              "stub": ["TCP byte streams in both directions (detsim.net.Link): per-direction FIFO, tape-chosen direction and segment size",
                       "application policy enableLocal/enableRemote (accepts what the endpoint itself requests plus a tape-chosen subset)",
                       "application giving up on a request (Deferred.cancel / Deferred.addTimeout on the simulated clock)",
                       "application hooks that raise (own or stock disableLocal/disableRemote, crashing enable* for options outside the policy); "
                       "reactor behaviour for an exception escaping dataReceived: connectionLost(Failure(exc)) here, ConnectionLost at the peer"]}
RULE = ("run = up to 10 will/wont/do/dont requests by either side over 1-3 options (ECHO/SGA/LINEMODE; in 40% of the runs some are replaced by option codes "
        "from the rest of the byte range: 0, LF, CR, SE, NOP, GA, SB, WILL, WONT, DO, DONT=254, IAC=255, or any byte), interleaved with tape-chosen network events "
        "(move written bytes onto the wire / deliver 1..all bytes to one side) and occasional application bytes, a fifth of the requests followed by a re-entrant "
        "request issued from inside the first one's Deferred callback - about the same option or (per-run weight 0/2/6 against 3) about another option of the "
        "run, the 'fall back to a second option' idiom - then a drain; in half of the runs in which the connection can end, such callbacks also act when the "
        "Deferred fires because of the connection's end (in the END_FOLLOWUP_FRESH_OPTION_P share of those they may name an option the endpoint has had no "
        "dealings with; otherwise the same option or one the endpoint requested before); "
        "in half of the runs the application gives up on requests: cancel() of a request's Deferred at a tape-chosen moment (mostly while it is unanswered) "
        "and/or addTimeout(1|2|5 s) on the simulated clock, which a 'tick' event advances between network events; "
        "in a quarter of the runs each option hook of each endpoint is drawn from ok / raises (60% of the calls) / stock Telnet.disableLocal|disableRemote "
        "(NotImplementedError) - enable* hooks raise only for options outside the endpoint's policy - and an exception escaping dataReceived ends the "
        "connection (connectionLost(Failure(exc)) at that side, ConnectionLost at the peer); in a tenth of the runs the connection may be lost at a "
        "tape-chosen moment; after a loss only exactly-once, the message bound and the wire form are judged; "
        "non-trivial = at least two requests went onto the wire AND negotiation bytes were in flight in both directions at the same time")
ASSUMPTIONS = ["an endpoint requests will(o)/do(o) only for options its own enableLocal/enableRemote accepts (per the statement); an enable* hook therefore "
               "never raises for an option in its own policy (a policy that crashes does not 'accept'; the statement is silent there)",
               "each direction is reliable and FIFO while the connection is up; an exception escaping dataReceived ends the connection (what every reactor "
               "does), after which agreement is not judged (not all messages were delivered) but every request's Deferred must have fired exactly once",
               "no request is issued on a connection that has ended, except from a callback of a request's Deferred that the connection's end itself fires "
               "(an errback that does not look at the failure): that request is not judged (the statement is silent; nothing can answer it), but "
               "connectionLost must not raise because of it and the requests issued before it must all still fire exactly once",
               "giving up on a request may cost one further exchange (a withdrawal and its answer): the message bound grows by 2 per request given up "
               "while unanswered - the statement forbids loops, not a bounded withdrawal"]

LEVEL_NOTE = ("seeded search over request/delivery interleavings (1-3 options, up to 10 requests, byte-level segmentation of commands), not the exhaustive "
              "state-hashing enumeration the property's quantifier mentions; the joint abstract protocol states reached are reported as the states measure")

OPTS = [b"\x01", b"\x03", b"\x22"]
# An option code is ONE arbitrary byte (RFC 855): codes numerically equal to the bytes that mean something elsewhere in the
# telnet stream are as legal as ECHO - NUL/TRANSMIT-BINARY 0, LF 10, CR 13, SE 240, NOP 241, GA 249, SB 250, WILL 251,
# WONT 252, DO 253, DONT 254 and IAC 255 (EXOPL) - and "any" draws the code from the whole byte range.
SPECIAL_OPTS = [b"\xff", b"\x00", b"\xfe", b"\x0d", b"\xfb", b"\xf0", b"\x0a", b"\xfa", b"\xfd", b"\xfc", b"\xf1", b"\xf9", "any"]
ONAME = {b"\x01": "ECHO", b"\x03": "SGA", b"\x22": "LINEMODE"}
VERBS = (telnet.WILL, telnet.WONT, telnet.DO, telnet.DONT)


def oname(o):
    return ONAME.get(o) or "opt%02x" % ord(o)
KINDS = ["will", "do", "wont", "dont"]
APP_ALPHABET = b"ab\n\x00z"
EXPECTED_FAILURES = (telnet.OptionRefused, telnet.AlreadyEnabled, telnet.AlreadyDisabled, telnet.AlreadyNegotiating)
GAVE_UP_FAILURES = (defer.CancelledError, defer.TimeoutError)
HOOKS = ("disableLocal", "disableRemote", "enableLocal", "enableRemote")
# how a hook behaves: "ok"; "raise" - the application's hook fails (60% of its calls); "stock" - the class overrides enable* only,
# so Telnet's own disable* runs, which raises NotImplementedError by design
HOOK_MODES = {"disableLocal": ["ok", "raise", "stock"], "disableRemote": ["ok", "stock", "raise"], "enableLocal": ["ok", "raise"], "enableRemote": ["ok", "raise"]}
TIMEOUTS = [2, 1, 5]
# Knob: share of the runs (among those whose callbacks issue requests while the connection is being torn down) in which such a
# request may name an option this endpoint has no dealings with yet.  That is the precondition of a genuine defect of the tree as
# first examined, REPAIRED in /repo 54823eb: "Telnet.connectionLost iterates self.options while its errbacks add a record"
# (RuntimeError, the remaining Deferreds never fired; witness t.do(LINEMODE).addErrback(lambda f: t.will(ECHO)); d2 = t.do(SGA);
# t.connectionLost(reason)).  The precondition is let into this share (0.15) of those runs, 0 is only for dev-time comparison;
# in the other runs those requests name the option of the request that just failed or one the endpoint requested before.
END_FOLLOWUP_FRESH_OPTION_P = 0.15


class HookError(Exception):
    """What a failing application hook raises (a tty mode switch failing, a logging call blowing up ...)."""


class Endpoint(telnet.Telnet):
    """Real Telnet with an application policy; records what the application is told."""

    def __init__(self, sim, name, local_ok, remote_ok, hooks=None):
        telnet.Telnet.__init__(self)
        self.sim = sim
        self.name = name
        self.local_ok = local_ok
        self.remote_ok = remote_ok
        self.hooks = hooks or {}    # hook name -> "raise" | "stock" (absent: well-behaved)
        self.hook_exc = None        # the exception the last failing hook raised (the scenario recognises it by identity)
        self.told_local = {}    # option -> bool, the application's view of "enabled on my side"
        self.told_remote = {}   # option -> bool, the application's view of "enabled on his side"
        self.app_data = bytearray()
        self.stray = []

    def _hook_fault(self, hook, option):
        mode = self.hooks.get(hook)
        if mode == "stock":
            try:
                getattr(telnet.Telnet, hook)(self, option)
            except NotImplementedError as x:
                self.hook_exc = x
                self.sim.event(self.name, "hook-raised", hook, oname(option), "stock")
                self.sim.fault("hook_raised_stock_" + hook)
                raise
        elif mode == "raise" and self.sim.draw_bool(0.6, "hook_raises"):
            self.hook_exc = x = HookError("%s(%s) failed" % (hook, oname(option)))
            self.sim.event(self.name, "hook-raised", hook, oname(option))
            self.sim.fault("hook_raised_" + hook)
            raise x

    def enableLocal(self, option):
        ok = option in self.local_ok
        self.sim.event(self.name, "enableLocal", oname(option), ok)
        if ok:
            self.told_local[option] = True
        else:
            self._hook_fault("enableLocal", option)     # crashes instead of refusing
        return ok

    def enableRemote(self, option):
        ok = option in self.remote_ok
        self.sim.event(self.name, "enableRemote", oname(option), ok)
        if ok:
            self.told_remote[option] = True
        else:
            self._hook_fault("enableRemote", option)
        return ok

    def disableLocal(self, option):
        self.sim.event(self.name, "disableLocal", oname(option))
        self.told_local[option] = False
        self._hook_fault("disableLocal", option)

    def disableRemote(self, option):
        self.sim.event(self.name, "disableRemote", oname(option))
        self.told_remote[option] = False
        self._hook_fault("disableRemote", option)

    def applicationDataReceived(self, data):
        self.app_data += data

    def unhandledCommand(self, command, argument):
        self.stray.append(("command", command, argument))

    def unhandledSubnegotiation(self, command, data):
        self.stray.append(("subneg", command, data))


def _parse(wire):
    """What one direction's byte stream is made of, read the way RFC 854 defines it: IAC, one verb byte, ONE option byte (whatever
    its value) is a negotiation command; everything else is application data (which here never contains IAC).
    Returns (commands, data, leftover) - leftover is an incomplete command at the end of the stream."""
    cmds, data = [], bytearray()
    i, n = 0, len(wire)
    while i < n:
        if wire[i] == 0xFF:
            if i + 3 > n:
                return cmds, bytes(data), bytes(wire[i:])
            cmds.append((wire[i + 1:i + 2], wire[i + 2:i + 3]))
            i += 3
        else:
            data.append(wire[i])
            i += 1
    return cmds, bytes(data), b""


def _ncommands(t):
    cmds, _data, leftover = _parse(bytes(t.written))
    return len(cmds) + (1 if leftover else 0)


def _abstract(ends, opts=OPTS):
    out = []
    for e in ends:
        for o in opts:
            s = e.options.get(o)
            if s is None:
                out.append("--")
            else:
                out.append("%s%s%s%s" % (s.us.state[0], "*" if s.us.negotiating else "", s.him.state[0], "*" if s.him.negotiating else ""))
    return out


def run(sim):
    nopts = sim.draw_int(1, 3, "nopts")
    opts = OPTS[:nopts]
    if sim.draw_bool(0.4, "special_option_codes"):
        # replace some of the options by codes from the rest of the byte range
        for i in range(nopts):
            if sim.draw_bool(0.6, "special_code"):
                o = sim.draw_choice(SPECIAL_OPTS, "code")
                if o == "any":
                    o = bytes([sim.draw_int(0, 255, "code_byte")])
                if o not in opts:
                    opts[i] = o
                    sim.probe("option_code_special")
                    if o in (b"\xff", b"\x00", b"\xfe"):
                        sim.probe("option_code_%02x" % ord(o))
    nreq = sim.draw_int(1, 10, "nreq")
    # the application gives up on requests: cancel() at tape-chosen moments and/or addTimeout on the simulated clock
    giveup_w = sim.draw_choice([0, 0, 2, 4], "giveup_weight")
    timeout_p = sim.draw_choice([0.0, 0.3], "timeout_share") if giveup_w else 0.0
    hook_faults = sim.draw_bool(0.25, "hook_faults")
    loss_w = 1 if sim.draw_bool(0.1, "connection_may_be_lost") else 0
    # what the callback that follows up a request asks for: weight of "another option of the run" against 3 for "the same option"
    other_w = sim.draw_choice([0, 2, 6], "followup_other_option_weight") if nopts > 1 else 0
    # do such callbacks also act when the Deferred fires because the connection ended (errbacks that do not look at the failure)?
    end_followups = sim.draw_bool(0.5, "followups_at_connection_end") if (loss_w or hook_faults) else False
    end_fresh = end_followups and other_w > 0 and sim.draw_bool(END_FOLLOWUP_FRESH_OPTION_P, "end_followup_fresh_option")
    ends = []
    cfg = {}
    for name in ("A", "B"):
        local_ok = set()
        remote_ok = set()
        for o in opts:
            if not sim.draw_bool(0.3, "refuse_local"):
                local_ok.add(o)
            if not sim.draw_bool(0.3, "refuse_remote"):
                remote_ok.add(o)
        hooks = {}
        if hook_faults:
            for h in HOOKS:
                mode = sim.draw_choice(HOOK_MODES[h], "hook_mode")
                if mode != "ok":
                    hooks[h] = mode
        cfg[name] = {"local_ok": sorted(oname(o) for o in local_ok), "remote_ok": sorted(oname(o) for o in remote_ok), "hooks": dict(sorted(hooks.items()))}
        ends.append(Endpoint(sim, name, local_ok, remote_ok, hooks))
    a, b = ends
    app_p = sim.draw_choice([0, 0, 1, 3], "appdata_weight")
    eager = sim.draw_choice([2, 1, 6], "request_weight")
    sim.config = {"nopts": nopts, "opts": [oname(o) for o in opts], "nreq": nreq, "policy": cfg, "appdata_weight": app_p, "request_weight": eager,
                  "giveup_weight": giveup_w, "timeout_share": timeout_p, "connection_may_be_lost": bool(loss_w),
                  "followup_other_option_weight": other_w, "followups_at_connection_end": end_followups, "end_followup_fresh_option": end_fresh}
    link = net.Link(sim, a, b)
    link.connect()
    trans = {"A": link.a, "B": link.b}
    peer = {"A": b, "B": a}

    requests = []      # dicts: side, kind, opt, results[]
    app_sent = {"A": bytearray(), "B": bytearray()}
    flags = {"sent": 0, "crossing": 0, "reentrant": 0, "abandoned": 0, "giveups": 0, "lost": False, "loss_types": (), "end_guard": None}

    def bound():
        # a request puts one command on the wire and its peer answers with at most
        # one; anything beyond that is a reply to a reply (RFC 854's loop rule).
        # Giving up on an unanswered request may cost one more exchange (taking it back).
        return 2 * flags["sent"] + 2 * flags["abandoned"]

    def check_fires():
        for i, r in enumerate(requests):
            sim.check("fires-at-most-once", len(r["results"]) <= 1, r["kind"],
                      lambda: "request #%d %s.%s(%s) fired %d times: %r" % (i, r["side"], r["kind"], oname(r["opt"]), len(r["results"]), r["results"]))

    def check_bound():
        n = _ncommands(link.a) + _ncommands(link.b)
        sim.check("message-bound", n <= bound(), "loop",
                  lambda: "%d negotiation commands on the wire for %d requests that reached the wire (bound %d); A wrote %r B wrote %r"
                  % (n, flags["sent"], bound(), bytes(link.a.written[-30:]), bytes(link.b.written[-30:])))

    def pick_kind(e, o, label):
        kinds = []
        # enable requests only for options the endpoint's own policy accepts
        for k in KINDS:
            if k == "will" and o not in e.local_ok:
                continue
            if k == "do" and o not in e.remote_ok:
                continue
            # bias towards requests that can have an effect given what the application was told
            w = 5
            if k == "will" and e.told_local.get(o):
                w = 1
            if k == "wont" and not e.told_local.get(o):
                w = 1
            if k == "do" and e.told_remote.get(o):
                w = 1
            if k == "dont" and not e.told_remote.get(o):
                w = 1
            kinds.append((k, w))
        return sim.draw_weighted(kinds, label)

    def do_request():
        e = sim.draw_choice(ends, "side")
        o = sim.draw_choice(opts, "opt")
        issue(e, pick_kind(e, o, "kind"), o, sim.draw_bool(0.2, "followup"))

    def followup_option(e, o):
        """The option the follow-up callback of a request about o asks for: o itself, or another option of the run."""
        if not other_w:
            return o
        if flags["lost"] and not end_fresh:
            # the connection is being torn down: only options this endpoint has had dealings with (the knob's purpose)
            mine = set(r["opt"] for r in requests if r["side"] == e.name)
            others = [x for x in opts if x != o and x in mine]
        else:
            others = [x for x in opts if x != o]
        if not others:
            return o
        o2 = sim.draw_weighted([(o, 3)] + [(x, other_w) for x in others], "followup_opt")
        if o2 != o:
            sim.probe("followup_other_option")
        return o2

    def issue(e, k, o, followup):
        """Issue one request.  followup: when its Deferred fires, issue another request from inside the callback - about the same
        option (an application that re-enables as soon as a disable is acknowledged) or about another one (falling back to a
        second option when the first is refused); in some runs the callback also acts when the connection's end fires the Deferred."""
        r = {"side": e.name, "kind": k, "opt": o, "results": []}
        if flags["lost"]:
            # issued from a callback while the connection is being torn down: the statement is silent about this request itself
            r["at_end"] = True
            sim.probe("request_at_connection_end")
            if not any(q["side"] == e.name and q["opt"] == o for q in requests):
                sim.fault("request_at_connection_end_fresh_option")
            if flags["end_guard"] is not None:
                flags["end_guard"].witness = "request-from-callback"
        idx = len(requests)
        requests.append(r)
        before = _ncommands(trans[e.name])
        with sim.guard("request-raised", k):
            d = getattr(e, k)(o)
        went = _ncommands(trans[e.name]) - before    # measured before a re-entrant follow-up can add its own command
        r["d"] = d
        if timeout_p and sim.draw_bool(timeout_p, "with_timeout"):
            # t.do(NAWS).addTimeout(10, reactor): the application stops waiting after a while
            r["timeout"] = True
            d.addTimeout(sim.draw_choice(TIMEOUTS, "timeout"), sim.clock)

        def fired(res, r=r, idx=idx):
            if isinstance(res, Failure):
                what = "F:" + res.type.__name__
            else:
                what = repr(res)
            r["results"].append(what)
            sim.event("fired", idx, r["side"], r["kind"], oname(r["opt"]), what)
            if isinstance(res, Failure):
                if res.check(defer.TimeoutError) and r.get("timeout") and not r.get("gave_up"):
                    # the timeout expired while the request was unanswered
                    r["gave_up"] = True
                    flags["abandoned"] += 1
                    sim.fault("timeout_unanswered")
                allowed = EXPECTED_FAILURES
                if r.get("gave_up"):
                    allowed += GAVE_UP_FAILURES
                if flags["lost"]:
                    allowed += flags["loss_types"]
                sim.check("outcome-kind", res.check(*allowed) is not None, r["kind"],
                          "request #%d %s.%s failed with %s: %s" % (idx, r["side"], r["kind"], res.type.__name__, res.getErrorMessage()))
            else:
                sim.check("outcome-kind", res is True, r["kind"], "request #%d fired with %r" % (idx, res))
            if followup and len(r["results"]) == 1 and len(requests) < nreq + 4 and (end_followups or not flags["lost"]):
                sim.probe("reentrant_request")
                flags["reentrant"] += 1
                o2 = followup_option(e, o)
                issue(e, pick_kind(e, o2, "followup_kind"), o2, False)
            return None

        d.addBoth(fired)
        r["wire"] = went
        sim.event("request", idx, e.name, k, oname(o), "wire" if went else "immediate:" + ",".join(r["results"]))
        if went:
            flags["sent"] += went
        elif not r.get("at_end"):
            sim.probe("immediate_" + (r["results"][0] if r["results"] else "none"))
            # a request that put nothing on the wire has nothing to wait for
            sim.check("immediate-or-wire", len(r["results"]) == 1, k,
                      "request #%d %s.%s(%s) sent nothing and did not fire" % (idx, e.name, k, oname(o)))

    def nfired():
        return sum(len(r["results"]) for r in requests)

    def connection_ends(first, reason_first, reason_second):
        """The connection ends now: what is in flight vanishes, both protocols are told (first the named side)."""
        pending = sum(1 for r in requests if not r["results"])
        if pending:
            sim.probe("unanswered_at_connection_end")
        flags["lost"] = True
        flags["loss_types"] = tuple({reason_first.type, reason_second.type})
        del link.flight["A"][:]
        del link.flight["B"][:]
        for name, reason in ((first.name, reason_first), (peer[first.name].name, reason_second)):
            # the witness says whether a callback issued a request during this connectionLost (issue() sets it)
            flags["end_guard"] = g = sim.guard("connectionLost-raised")
            with g:
                trans[name].lose(reason)
            flags["end_guard"] = None
        sim.event("connection-ended", first.name, reason_first.type.__name__, *_abstract(ends, opts))

    def do_net():
        fired_before = nfired()
        with sim.guard("handler-raised"):
            try:
                link.step(amounts=(1, 2, 3, 4, 6, None))
            except Exception as x:
                owner = [e for e in ends if e.hook_exc is x]
                if not owner:
                    raise
                # an application hook raised and the exception left dataReceived: a reactor logs it and closes the connection
                # with that failure; the peer sees the connection go away
                if nfired() > fired_before:
                    sim.probe("hook_raised_while_completing_request")
                connection_ends(owner[0], Failure(x), Failure(error.ConnectionLost()))
        # negotiation bytes travelling in both directions at once
        if (b"\xff" in link.flight["A"] + link.b.out) and (b"\xff" in link.flight["B"] + link.a.out):
            flags["crossing"] += 1

    def do_giveup():
        """The application stops waiting for one of its requests: cancel() of the Deferred the request returned."""
        cands = [(i, 1 if r["results"] else 6) for i, r in enumerate(requests)]
        i = sim.draw_weighted(cands, "giveup_which")
        r = requests[i]
        flags["giveups"] += 1
        sim.event("giveup", i, r["side"], r["kind"], oname(r["opt"]), "fired" if r["results"] else "unanswered")
        if r["results"]:
            sim.probe("cancel_after_fired")      # a fired Deferred ignores cancel()
        else:
            r["gave_up"] = True
            flags["abandoned"] += 1
            sim.fault("cancel_unanswered")
        with sim.guard("cancel-raised", r["kind"]):
            r["d"].cancel()

    def do_tick():
        dt = sim.draw_choice([1, 2, 5], "tick")
        sim.event("tick", dt)
        sim.sim_time += dt
        with sim.guard("cancel-raised", "timeout"):
            sim.clock.advance(dt)

    def do_drop():
        first = sim.draw_choice(ends, "lost_first")
        sim.fault("connection_lost")
        r = error.ConnectionDone() if sim.draw_bool(0.3, "lost_clean") else error.ConnectionLost()
        connection_ends(first, Failure(r), Failure(r))

    def do_app():
        e = sim.draw_choice(ends, "appside")
        data = sim.draw_bytes(sim.draw_int(1, 3, "applen"), APP_ALPHABET)
        sim.event("appdata", e.name, data)
        trans[e.name].write(data)
        app_sent[e.name] += data

    issued = 0
    for _ in range(120):
        sim.step(2000)
        ops = []
        if issued < nreq:
            ops.append(("request", eager))
        if link.enabled():
            ops.append(("net", 4))
        if app_p and len(app_sent["A"]) + len(app_sent["B"]) < 12:
            ops.append(("app", app_p))
        if not ops or (issued >= nreq and not link.enabled()):
            break
        if giveup_w and requests and flags["giveups"] < 4:
            ops.append(("giveup", giveup_w))
        if sim.clock.pending():
            ops.append(("tick", 2))
        if loss_w and requests:
            ops.append(("drop", loss_w))
        op = sim.draw_weighted(ops, "op")
        if op == "request":
            issued += 1
            do_request()
        elif op == "net":
            do_net()
        elif op == "giveup":
            do_giveup()
        elif op == "tick":
            do_tick()
        elif op == "drop":
            do_drop()
        else:
            do_app()
        if flags["lost"]:
            break
        check_fires()
        check_bound()
        sim.state("|".join(_abstract(ends, opts)) + "|%d%d" % (min(len(link.flight["A"]) + len(link.b.out), 7), min(len(link.flight["B"]) + len(link.a.out), 7)))
        if issued >= nreq and sim.draw_bool(0.25, "stop_interleaving"):
            break

    # drain: deliver everything; a negotiation loop never quiesces
    steps = 0
    while link.enabled():
        steps += 1
        if steps > 40 * (bound() + 20):
            sim.fail("message-bound", "loop", "network not quiescent after %d drain steps" % steps)
        do_net()
        check_fires()
        check_bound()
    sim.event("drained", *_abstract(ends, opts))

    # every Deferred fired exactly once
    check_fires()
    for i, r in enumerate(requests):
        if r.get("at_end"):
            continue        # issued while the connection was being torn down: no verdict (it never fired twice - checked above)
        sim.check("fires-exactly-once", len(r["results"]) == 1, r["kind"],
                  lambda: "request #%d %s.%s(%s) has %d results after %s; states %r"
                  % (i, r["side"], r["kind"], oname(r["opt"]), len(r["results"]),
                     "the connection ended" if flags["lost"] else "all messages were delivered", _abstract(ends, opts)))
    # agreement per option - only when all messages were delivered (the statement says nothing about a connection that ended in between)
    for o in ([] if flags["lost"] else opts):
        sa, sb = a.options.get(o), b.options.get(o)
        a_us = sa.us.state if sa else "no"
        a_him = sa.him.state if sa else "no"
        b_us = sb.us.state if sb else "no"
        b_him = sb.him.state if sb else "no"
        sim.check("agreement", a_us == b_him, "A.us!=B.him",
                  lambda: "option %s: A.us=%s B.him=%s (A %r, B %r)" % (oname(o), a_us, b_him, sa, sb))
        sim.check("agreement", a_him == b_us, "A.him!=B.us",
                  lambda: "option %s: A.him=%s B.us=%s (A %r, B %r)" % (oname(o), a_him, b_us, sa, sb))
        for e, s in ((a, sa), (b, sb)):
            if s is None:
                continue
            sim.check("negotiating-left", not s.us.negotiating and not s.him.negotiating, "flag",
                      lambda: "%s option %s still negotiating after drain: %r" % (e.name, oname(o), s))
            sim.check("negotiating-left", s.us.onResult is None and s.him.onResult is None, "onResult",
                      lambda: "%s option %s keeps a result Deferred after drain: %r" % (e.name, oname(o), s))
            # what the application was told matches the protocol's state
            sim.check("app-view", bool(e.told_local.get(o)) == (s.us.state == "yes"), "local",
                      lambda: "%s option %s: application told local=%r but us=%s" % (e.name, oname(o), e.told_local.get(o), s.us.state))
            sim.check("app-view", bool(e.told_remote.get(o)) == (s.him.state == "yes"), "remote",
                      lambda: "%s option %s: application told remote=%r but him=%s" % (e.name, oname(o), e.told_remote.get(o), s.him.state))
    # the messages exchanged: each direction's stream is application bytes plus whole commands IAC <verb> <one option byte> about the run's options
    for e in ends:
        cmds, data, leftover = _parse(bytes(trans[e.name].written))
        bad = [c for c in cmds if c[0] not in VERBS or c[1] not in opts]
        sim.check("wire-form", not leftover and not bad and data == bytes(app_sent[e.name]), e.name,
                  lambda: "%s wrote %r: commands that are not <verb> <option of this run> %r, incomplete tail %r, data bytes %r (application wrote %r)"
                  % (e.name, bytes(trans[e.name].written), bad[:3], leftover, data, bytes(app_sent[e.name])))
    # negotiation never disturbs the data stream
    for e in ends:
        sim.check("no-stray-command", not e.stray, e.name, "unhandled command/subnegotiation %r" % (e.stray[:3],))
        if flags["lost"]:
            continue
        sim.check("app-data-intact", bytes(e.app_data) == bytes(app_sent[peer[e.name].name]), e.name,
                  lambda: "%s received %r, peer sent %r" % (e.name, bytes(e.app_data), bytes(app_sent[peer[e.name].name])))
    if flags["crossing"]:
        sim.probe("crossing")
    sim.nontrivial = flags["sent"] >= 2 and flags["crossing"] > 0


MUTANTS = [
    "telnet.py wont_no_true: drop `state.him.negotiating = False` -> caught (negotiating-left:flag)",
    "telnet.py will(): negotiating guard `if s.us.negotiating or s.him.negotiating` -> `if False` (onResult overwritten by a second request) -> caught (fires-exactly-once:will; handler-raised:AssertionError will_yes_true)",
    "telnet.py will_no_true: drop `state.him.state = \"yes\"` -> caught (agreement:A.him!=B.us / A.us!=B.him; handler-raised:AssertionError do_yes_true)",
    "telnet.py dont_yes_false: drop the `self._wont(option)` acknowledgement -> caught (fires-exactly-once:dont)",
    "telnet.py will_no_true: additionally reply `self._do(option)` to the acknowledgement -> caught (message-bound:loop, 3 commands for 1 request)",
    "telnet.py 3-point loop: dont_yes_true re-sends WONT, wont_no_false answers DONT, dont_no_false answers WONT -> caught (message-bound:loop)",
    "telnet.py wont_yes_true: drop `self.disableRemote(option)` -> caught (app-view:remote)",
    "telnet.py do_no_true: drop `state.us.negotiating = False` -> caught (negotiating-left:flag; handler-raised:AttributeError)",
    "telnet.py dont_no_false -> `self._wont(option)` and wont_no_false -> `self._dont(option)` (2-point loop) -> SURVIVES: equivalent under this property, "
    "those handlers are unreachable between two compliant endpoints over FIFO links (no run ever delivers DONT/WONT to a (no, not negotiating) perspective)",
    "telnet.py _do/_dont/_will/_wont: option byte written with IAC doubled (`option.replace(IAC, IAC * 2)`) -> caught once option code 255 is in the option set "
    "(fires-exactly-once:will/do; handler-raised:ValueError Stumped; immediate-or-wire; wire-form)",
    "telnet.py dataReceived state 'command': an option byte equal to IAC re-enters 'escaped' instead of completing the command -> caught (fires-exactly-once; option code 255)",
    "telnet.py do_yes_false -> `self._will(option)` -> SURVIVES: equivalent for the same reason (DO never reaches a (yes, not negotiating) perspective)",
    "giving-up family (cancel()/addTimeout of a request's Deferred while it is unanswered): will()/do() Deferreds get a canceller that clears negotiating/onResult and "
    "sends the opposite verb -> caught (message-bound:loop); the same canceller without the withdrawal message -> caught (handler-raised:AssertionError do_yes_true); "
    "dont(): canceller resets the perspective and re-sends DO -> caught (message-bound:loop); will(): canceller errbacks the Deferred itself and leaves it in onResult "
    "-> caught (handler-raised:AlreadyCalledError; connectionLost-raised:AlreadyCalledError)",
    "raising-hook family (own/stock disable* hooks, crashing enable* outside the policy; the exception ends the connection): do_no_true/dont_yes_true call the local hook "
    "before d.callback(True) -> caught (fires-exactly-once:wont); wont_yes_true calls disableRemote before d.callback(True) -> caught (fires-exactly-once:dont)",
    "connection-end family: connectionLost skips `him.onResult` -> caught (fires-exactly-once:do/dont); connectionLost errbacks a Deferred twice -> caught "
    "(connectionLost-raised:AlreadyCalledError)",
    "requests-from-callbacks family (other option / while the connection is torn down): TREE AS FIRST EXAMINED -> connectionLost-raised:request-from-callback:RuntimeError "
    "(genuine defect, REPAIRED in /repo 54823eb: connectionLost iterated self.options.values() while an errback's request adds a record); with `for state in list(self.options.values())` "
    "applied as a substitution -> quick clean for seeds 0-5 (every other clause still holds); connectionLost snapshotting the Deferreds but stopping at the "
    "first one whose errback issues a request (`break` after a request was seen) -> caught (fires-exactly-once)",
]
