"""C07 — DeferredQueue delivers each object once, in order, within its bounds.

Engine E1 (tasks): logical callers interleave put / get / cancel-of-pending-get
on one real DeferredQueue; the tape chooses the interleaving.  Oracle: an
independent bounded-FIFO reference model, compared after every operation.

The model queues put TOKENS (the n-th put), never the objects, and every comparison
of objects is by identity: the statement speaks of "every object put", so the same
object put twice must come out twice, and an equal-but-distinct object is not a
substitute.  The objects therefore come from a vocabulary in which equality and
identity disagree (see _make_pool), besides the fresh unique integers.  The queue is
created through each spelling of its documented constructor.
"""
from twisted.internet import defer
from twisted.python.failure import Failure

ID = "C07"
LEVEL = "exploration"
TECHNIQUE = "deterministic simulation: seeded interleaving of caller operations vs reference FIFO model"
QUICK_RUNS = 72000
TWIN_P = 0.1   # a tenth of the runs drive two queues one after the other (see detsim.runner._run_scenario)
USES_DEPTH = True   # thorough tier: history length bound scales with sim.depth (1..3) beyond the quick tier\'s run indices
BATCH = 400
COMPONENTS = {"real": ["twisted.internet.defer.DeferredQueue", "twisted.internet.defer.Deferred"],
              "stub": ["order in which independent callers issue operations (tape)"]}
RULE = ("run = up to 40 tape-chosen operations (put / get / cancel pending get / re-entrant op from a get callback) "
        "on a queue with tape-chosen size and backlog, created in a tape-chosen spelling of the documented constructor "
        "(both limits by keyword / both positionally / size positionally + backlog by keyword / trailing None limits left out); "
        "the objects put are fresh unique integers or, with a per-run probability, drawn from a per-run pool of objects whose "
        "equality is not identity (the very same object put again, equal-but-distinct objects, falsy and unhashable objects, "
        "objects equal to everything / to nothing); the oracle follows every put by position and compares by identity; "
        "non-trivial = at least one get had to wait AND (a cancel, an overflow, an underflow or a re-entrant op occurred)")
ASSUMPTIONS = ["operations are issued from outside callbacks or from a get callback (re-entrant); no other re-entrancy",
               "objects put are neither Deferreds nor Failures (Deferred.callback gives those a meaning of their own)",
               "the limits are given to the constructor (size first, backlog second, or by keyword) and not changed afterwards"]

# Share of puts that take their object from the per-run pool (first = simplest: every object fresh and unique).
POOL_P = [0.0, 0.5, 0.85]
# Spellings of DeferredQueue(size=None, backlog=None) (first = simplest).
CTOR_FORMS = ["keywords", "positional", "size-positional", "short"]


class _EqualToAll:
    def __repr__(self):
        return "<eq-all>"

    def __eq__(self, other):
        return True

    def __ne__(self, other):
        return False

    __hash__ = None


class _EqualToNone:
    def __repr__(self):
        return "<eq-none>"

    def __eq__(self, other):
        return False

    def __ne__(self, other):
        return True

    def __hash__(self):
        return 7


def _make_pool():
    """Fresh objects per run: (name, object).  Several equality classes with more than one member, falsy members,
    unhashable members, and members whose == ignores identity altogether."""
    return [("one", 1), ("one-float", float("1")), ("true", True),
            ("tuple-a", tuple(["t", 1])), ("tuple-b", tuple(["t", 1])),
            ("none", None), ("zero", 0), ("empty-str", ""),
            ("list-a", []), ("list-b", []),
            ("eq-all", _EqualToAll()), ("eq-none", _EqualToNone()),
            ("nan", float("nan"))]


def _make_queue(form, size, backlog):
    if form == "positional":
        return defer.DeferredQueue(size, backlog)
    if form == "size-positional":
        return defer.DeferredQueue(size, backlog=backlog)
    if form == "short":
        if backlog is not None:
            return defer.DeferredQueue(size, backlog)
        if size is not None:
            return defer.DeferredQueue(size)
        return defer.DeferredQueue()
    return defer.DeferredQueue(size=size, backlog=backlog)


class Model:
    """Reference: FIFO of values, FIFO of waiting getter ids, two limits."""

    def __init__(self, size, backlog):
        self.size, self.backlog = size, backlog
        self.values = []
        self.waiters = []

    def put(self, v):
        if self.waiters:
            return ("deliver", self.waiters.pop(0))
        if self.size is None or len(self.values) < self.size:
            self.values.append(v)
            return ("queued", None)
        return ("overflow", None)

    def get(self, gid):
        if self.values:
            return ("value", self.values.pop(0))
        if self.backlog is None or len(self.waiters) < self.backlog:
            self.waiters.append(gid)
            return ("wait", None)
        return ("underflow", None)

    def cancel(self, gid):
        self.waiters.remove(gid)


def run(sim):
    size = sim.draw_choice([None, 0, 1, 2, 3], "size")
    backlog = sim.draw_choice([None, 0, 1, 2, 3], "backlog")
    nops = sim.draw_int(3, 40 * sim.depth, "nops")
    reent_p = sim.draw_choice([0.0, 0.0, 0.3], "reentrancy")
    pool_p = sim.draw_choice(POOL_P, "pool_p")
    form = sim.draw_choice(CTOR_FORMS, "ctor")
    sim.config = {"size": size, "backlog": backlog, "nops": nops, "reentrant": reent_p, "pool_p": pool_p, "ctor": form}
    sim.probe("ctor_" + form)
    # every spelling of the documented signature DeferredQueue(size=None, backlog=None) must yield a queue with these limits
    with sim.guard("queue-created", form):
        q = _make_queue(form, size, backlog)
    m = Model(size, backlog)      # the model queues put tokens (0, 1, 2 ... in put order), never the objects themselves
    pool = _make_pool()
    st = {"next_val": 0, "next_gid": 0, "depth": 0}
    objs = []       # token -> object handed to put()
    names = []      # token -> abstract name of that object (for the trace)
    got = {}        # gid -> list of results observed by that get's callback
    pending = {}    # gid -> Deferred still waiting (by the model)
    expect = {}     # gid -> token of the put whose object it must receive
    delivered = []  # objects in delivery order
    put_order = []  # tokens of the accepted puts, in put order
    flags = {"waited": 0, "special": 0}

    def name_of(res):
        # first put of this very object (identity): deterministic, no repr of foreign objects in the trace
        for t, o in enumerate(objs):
            if o is res:
                return names[t]
        return "never-put:" + type(res).__name__

    def saw_only(gid, tok):
        r = got.get(gid)
        return r is not None and len(r) == 1 and r[0] is objs[tok]

    def on_result(res, gid):
        got.setdefault(gid, []).append(res)
        sim.event("got", gid, "F:" + res.type.__name__ if isinstance(res, Failure) else name_of(res))
        if not isinstance(res, Failure):
            delivered.append(res)
        if st["depth"] < 2 and reent_p and sim.draw_bool(reent_p, "reenter"):
            st["depth"] += 1
            flags["special"] += 1
            sim.probe("reentrant_op")
            try:
                do_op(sim.draw_choice(["put", "get"], "reop"))
            finally:
                st["depth"] -= 1
        return None

    def do_put():
        if pool_p and sim.draw_bool(pool_p, "pooled"):
            name, v = sim.draw_choice(pool, "which_obj")
            sim.probe("put_pool_object")
            if any(objs[t] is v for t in m.values):
                sim.probe("put_object_already_queued")
            elif any(objs[t] == v or v == objs[t] for t in m.values):
                sim.probe("put_equal_of_queued_object")
        else:
            v = st["next_val"]
            st["next_val"] += 1
            name = v
        tok = len(objs)
        objs.append(v)
        names.append(name)
        equal_queued = any(objs[t] is v or objs[t] == v or v == objs[t] for t in m.values)
        kind, gid = m.put(tok)
        sim.event("put", tok, name, kind, gid if gid is not None else "-")
        if kind == "deliver":
            expect[gid] = tok
            pending.pop(gid)
            put_order.append(tok)
        elif kind == "queued":
            put_order.append(tok)
        try:
            q.put(v)
            raised = False
        except defer.QueueOverflow:
            raised = True
        if kind == "overflow":
            flags["special"] += 1
            sim.probe("overflow")
            if equal_queued:
                sim.fault("refused_put_equal_to_queued")
        sim.check("overflow-iff", raised == (kind == "overflow"), "put", "model=%s raised=%s" % (kind, raised))
        if kind == "deliver":
            sim.check("oldest-waiter", saw_only(gid, tok), "put",
                      lambda: "waiter %s saw %r expected [%r]" % (gid, got.get(gid), v))

    def do_get():
        gid = st["next_gid"]
        st["next_gid"] += 1
        kind, tok = m.get(gid)
        sim.event("get", gid, kind)
        if kind == "value":
            expect[gid] = tok
        try:
            d = q.get()
            raised = False
        except defer.QueueUnderflow:
            raised = True
            d = None
        if kind == "underflow":
            flags["special"] += 1
            sim.probe("underflow")
        sim.check("underflow-iff", raised == (kind == "underflow"), "get", "model=%s raised=%s" % (kind, raised))
        if d is None:
            return
        if kind == "wait":
            pending[gid] = d
            flags["waited"] += 1
        d.addBoth(on_result, gid)
        if kind == "value":
            sim.check("immediate-value", saw_only(gid, tok), "get",
                      lambda: "get %s saw %r expected [%r]" % (gid, got.get(gid), objs[tok]))
        else:
            sim.check("no-early-fire", gid not in got, "get", lambda: "waiting get %s fired with %r" % (gid, got.get(gid)))

    def do_cancel():
        gid = sim.draw_choice(sorted(pending), "which")
        d = pending.pop(gid)
        m.cancel(gid)
        flags["special"] += 1
        sim.probe("cancel_pending_get")
        sim.event("cancel", gid)
        d.cancel()
        r = got.get(gid)
        sim.check("cancel-fires-cancelled", r is not None and len(r) == 1 and isinstance(r[0], Failure)
                  and r[0].check(defer.CancelledError), "cancel", "got %r" % (r,))

    def do_op(op):
        if op == "put":
            do_put()
        elif op == "get":
            do_get()
        else:
            do_cancel()

    def same_objects(real, toks):
        return len(real) == len(toks) and all(a is objs[t] for a, t in zip(real, toks))

    for _ in range(nops):
        sim.step(200 * sim.depth)
        ops = [("put", 5), ("get", 5), ("cancel", 2 if pending else 0)]
        do_op(sim.draw_weighted(ops, "op"))
        # cross-invariants after every operation (all comparisons of objects by identity: "every object put", not "an equal one")
        for gid, r in got.items():
            sim.check("fires-once", len(r) == 1, "any", "get %s fired %d times" % (gid, len(r)))
            if gid in expect:
                sim.check("right-value", r[0] is objs[expect[gid]], "any",
                          lambda: "get %s got %r expected %r (put #%d)" % (gid, r[0], objs[expect[gid]], expect[gid]))
        for gid in expect:
            sim.check("expected-delivered", gid in got, "any", lambda: "get %s never received put #%d" % (gid, expect[gid]))
        # each accepted put is delivered once, at its own place in put order (the same object put twice comes out twice)
        sim.check("fifo-exactly-once", same_objects(delivered, put_order[:len(delivered)]),
                  "any", lambda: "delivered=%r accepted puts in order=%r" % (delivered, [objs[t] for t in put_order]))
        sim.check("pending-matches", len(q.waiting) == len(m.waiters) and same_objects(list(q.pending), m.values), "state",
                  lambda: "real waiting=%d pending=%r model waiters=%r values=%r (tokens %r)"
                  % (len(q.waiting), q.pending, m.waiters, [objs[t] for t in m.values], m.values))
        sim.state((min(len(m.values), 4), min(len(m.waiters), 4), size, backlog))
    sim.nontrivial = bool(flags["waited"] and flags["special"])


MUTANTS = [
    "put: 'len(self.pending) < self.size' -> '<=' / get: same on backlog -> caught (overflow-iff / underflow-iff)",
    "_cancelGet does not remove the Deferred -> caught (pending-matches, underflow-iff)",
    "put: waiting.pop(0) -> waiting.pop() -> caught (oldest-waiter)",
    "put: object appended first and taken out again BY VALUE (list.remove) when refused -> caught (pending-matches; needs a refused "
    "put whose object equals a queued one: fault refused_put_equal_to_queued)",
    "put: 'if obj not in self.pending: append' (silent de-duplication) -> caught (pending-matches)",
    "get: hands out the LAST queued object when it equals the first -> caught (immediate-value, pending-matches: identity and position)",
    "put: hands a waiter an equal cached object instead of the object put ('1 if obj == 1 else obj') -> caught (oldest-waiter, identity)",
    "get: 'if self.pending and self.pending[0] is not None' (falsy/None head treated as empty) -> caught (immediate-value, underflow-iff)",
    "put: 'not self.size' instead of 'self.size is None' (size 0 = unlimited) -> caught (overflow-iff)",
    "__init__: positional order of the limits swapped (attrs field order / explicit swap when both given) -> caught "
    "(overflow-iff, underflow-iff, queue-created:size-positional:TypeError; needs the positional spellings of the constructor)",
    "__init__: backlog made keyword-only -> caught (queue-created:positional:TypeError)",
]
