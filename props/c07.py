"""C07 — DeferredQueue delivers each object once, in order, within its bounds.

Engine E1 (tasks): logical callers interleave put / get / cancel-of-pending-get
on one real DeferredQueue; the tape chooses the interleaving.  Oracle: an
independent bounded-FIFO reference model, compared after every operation.
"""
from twisted.internet import defer
from twisted.python.failure import Failure

ID = "C07"
LEVEL = "exploration"
TECHNIQUE = "deterministic simulation: seeded interleaving of caller operations vs reference FIFO model"
QUICK_RUNS = 72000
TWIN_P = 0.1   # a tenth of the runs drive two queues one after the other (see detsim.runner._run_scenario)
USES_DEPTH = True   # thorough tier: history length bound scales with sim.depth (1..3) beyond the quick tier\'s run indices
BATCH = 400
COMPONENTS = {"real": ["twisted.internet.defer.DeferredQueue", "twisted.internet.defer.Deferred"],
              "stub": ["order in which independent callers issue operations (tape)"]}
RULE = ("run = up to 40 tape-chosen operations (put unique value / get / cancel pending get / re-entrant op from a get callback) "
        "on a queue with tape-chosen size and backlog; non-trivial = at least one get had to wait AND (a cancel, an overflow, an underflow or a re-entrant op occurred)")
ASSUMPTIONS = ["operations are issued from outside callbacks or from a get callback (re-entrant); no other re-entrancy"]


class Model:
    """Reference: FIFO of values, FIFO of waiting getter ids, two limits."""

    def __init__(self, size, backlog):
        self.size, self.backlog = size, backlog
        self.values = []
        self.waiters = []

    def put(self, v):
        if self.waiters:
            return ("deliver", self.waiters.pop(0))
        if self.size is None or len(self.values) < self.size:
            self.values.append(v)
            return ("queued", None)
        return ("overflow", None)

    def get(self, gid):
        if self.values:
            return ("value", self.values.pop(0))
        if self.backlog is None or len(self.waiters) < self.backlog:
            self.waiters.append(gid)
            return ("wait", None)
        return ("underflow", None)

    def cancel(self, gid):
        self.waiters.remove(gid)


def run(sim):
    size = sim.draw_choice([None, 0, 1, 2, 3], "size")
    backlog = sim.draw_choice([None, 0, 1, 2, 3], "backlog")
    nops = sim.draw_int(3, 40 * sim.depth, "nops")
    reent_p = sim.draw_choice([0.0, 0.0, 0.3], "reentrancy")
    sim.config = {"size": size, "backlog": backlog, "nops": nops, "reentrant": reent_p}
    q = defer.DeferredQueue(size=size, backlog=backlog)
    m = Model(size, backlog)
    st = {"next_val": 0, "next_gid": 0, "depth": 0}
    got = {}        # gid -> list of results observed by that get's callback
    pending = {}    # gid -> Deferred still waiting (by the model)
    expect = {}     # gid -> expected value
    delivered = []  # values in delivery order
    put_order = []
    flags = {"waited": 0, "special": 0}

    def on_result(res, gid):
        got.setdefault(gid, []).append(res)
        sim.event("got", gid, "F:" + res.type.__name__ if isinstance(res, Failure) else res)
        if not isinstance(res, Failure):
            delivered.append(res)
        if st["depth"] < 2 and reent_p and sim.draw_bool(reent_p, "reenter"):
            st["depth"] += 1
            flags["special"] += 1
            sim.probe("reentrant_op")
            try:
                do_op(sim.draw_choice(["put", "get"], "reop"))
            finally:
                st["depth"] -= 1
        return None

    def do_put():
        v = st["next_val"]
        st["next_val"] += 1
        kind, gid = m.put(v)
        sim.event("put", v, kind, gid if gid is not None else "-")
        if kind == "deliver":
            expect[gid] = v
            pending.pop(gid)
            put_order.append(v)
        elif kind == "queued":
            put_order.append(v)
        try:
            q.put(v)
            raised = False
        except defer.QueueOverflow:
            raised = True
        if kind == "overflow":
            flags["special"] += 1
            sim.probe("overflow")
        sim.check("overflow-iff", raised == (kind == "overflow"), "put", "model=%s raised=%s" % (kind, raised))
        if kind == "deliver":
            sim.check("oldest-waiter", got.get(gid) == [v], "put", "waiter %s saw %r expected [%r]" % (gid, got.get(gid), v))

    def do_get():
        gid = st["next_gid"]
        st["next_gid"] += 1
        kind, v = m.get(gid)
        sim.event("get", gid, kind)
        if kind == "value":
            expect[gid] = v
        try:
            d = q.get()
            raised = False
        except defer.QueueUnderflow:
            raised = True
            d = None
        if kind == "underflow":
            flags["special"] += 1
            sim.probe("underflow")
        sim.check("underflow-iff", raised == (kind == "underflow"), "get", "model=%s raised=%s" % (kind, raised))
        if d is None:
            return
        if kind == "wait":
            pending[gid] = d
            flags["waited"] += 1
        d.addBoth(on_result, gid)
        if kind == "value":
            sim.check("immediate-value", got.get(gid) == [v], "get", "get %s saw %r expected [%r]" % (gid, got.get(gid), v))
        else:
            sim.check("no-early-fire", gid not in got, "get", "waiting get %s fired with %r" % (gid, got.get(gid)))

    def do_cancel():
        gid = sim.draw_choice(sorted(pending), "which")
        d = pending.pop(gid)
        m.cancel(gid)
        flags["special"] += 1
        sim.probe("cancel_pending_get")
        sim.event("cancel", gid)
        d.cancel()
        r = got.get(gid)
        sim.check("cancel-fires-cancelled", r is not None and len(r) == 1 and isinstance(r[0], Failure)
                  and r[0].check(defer.CancelledError), "cancel", "got %r" % (r,))

    def do_op(op):
        if op == "put":
            do_put()
        elif op == "get":
            do_get()
        else:
            do_cancel()

    for _ in range(nops):
        sim.step(200 * sim.depth)
        ops = [("put", 5), ("get", 5), ("cancel", 2 if pending else 0)]
        do_op(sim.draw_weighted(ops, "op"))
        # cross-invariants after every operation
        for gid, r in got.items():
            sim.check("fires-once", len(r) == 1, "any", "get %s fired %d times" % (gid, len(r)))
            if gid in expect:
                sim.check("right-value", r[0] == expect[gid], "any", "get %s got %r expected %r" % (gid, r[0], expect[gid]))
        for gid in expect:
            sim.check("expected-delivered", gid in got, "any", "get %s never received %r" % (gid, expect[gid]))
        sim.check("fifo-exactly-once", delivered == put_order[:len(delivered)] and len(set(delivered)) == len(delivered),
                  "any", "delivered=%r put_order=%r" % (delivered, put_order))
        sim.check("pending-matches", len(q.waiting) == len(m.waiters) and list(q.pending) == m.values, "state",
                  "real waiting=%d pending=%r model waiters=%r values=%r" % (len(q.waiting), q.pending, m.waiters, m.values))
        sim.state((min(len(m.values), 4), min(len(m.waiters), 4), size, backlog))
    sim.nontrivial = bool(flags["waited"] and flags["special"])
