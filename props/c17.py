"""C17 — the TLS layer delivers application bytes intact and terminates cleanly.

Engine E3 (net).  A real TLSMemoryBIOFactory-built client protocol and server
protocol (BufferingTLSTransport or plain TLSMemoryBIOProtocol, tape-chosen per
side) wrap two application protocols and are joined by detsim.net.Link.  The TLS
engine is the real libssl (through cryptography's cffi binding, wrapped by the
vendored pyOpenSSL shim vendor/OpenSSL).  The tape chooses: TLS 1.3 / 1.2, the
application write schedule on both sides (write / writeSequence, before, during
and after the handshake, from outside, from dataReceived, from
handshakeCompleted, from push or pull producers - ticked from outside, or
acting re-entrantly from inside resumeProducing(), writing at registration,
unregistering with the last chunk or only at the following turn without having
written anything, as FileSender does at end of file), who calls loseConnection()
and when, receiver pauses, sender-side back-pressure of the underlying
transport, and every segmentation / interleaving decision for the two
ciphertext directions (including long runs of 1-byte deliveries).  The
_AggregateSmallWrites flush timer and _PullToPush's cooperator run on sim.clock.

Oracle (reference model = per-direction byte stream + close rules written from
the statement, see `Side` / `final_checks`):
  in-order      what an application has received is always a prefix of what the
                peer's application wrote (position-coded pattern: loss,
                duplication, reordering and corruption all show as a mismatch);
                bytes written after loseConnection() with no producer registered
                never arrive;
  complete      everything a side wrote before its loseConnection() arrives at
                the peer, provided that close was not pre-empted by the peer's
                own earlier close and the peer did not abort (see ASSUMPTIONS);
  delivered-at-quiescence
                when nobody has closed and nothing is pending any more (no
                timer, no network event, no paused producer) everything
                written has arrived;
  lost-once     exactly one connectionLost per application, nothing after it;
  closed        at quiescence both underlying transports are closed; the system
                reaches quiescence within a step budget; no registered producer
                is left paused for ever;
  raised        no exception escapes from the TLS layer.
  hs-overtake   same as in-order/complete, but for runs in which the application
                wrote or closed from handshakeCompleted() while earlier writes
                existed — the genuine defect described in FINDINGS (REPAIRED in
                /repo 9d1ab05) keeps its own signature prefix (C17:hs-overtake:*)
                so that a regression of it is told apart from the other clauses.
Ciphertext is never logged or inspected (it differs from run to run); with the
RSA fixture its *lengths* are constant, so the schedule is a pure function of the
tape.
"""
import os

from zope.interface import implementer

from twisted.internet import _producer_helpers, interfaces, task
from twisted.internet.protocol import ClientFactory, Protocol, ServerFactory
from twisted.protocols import tls
from twisted.python.failure import Failure

from OpenSSL import SSL, crypto

from detsim import net

ID = "C17"
ENGINE = "net"
LEVEL = "exploration"
TECHNIQUE = ("deterministic simulation: seeded application write/close schedule and seeded segmentation/interleaving of both "
             "ciphertext directions between two real TLSMemoryBIOFactory protocols over real libssl, vs a byte-stream reference model")
QUICK_RUNS = 30000
BATCH = 30
RUN_WALL_LIMIT_S = 30
COMPONENTS = {
    "real": ["twisted.protocols.tls.TLSMemoryBIOFactory", "twisted.protocols.tls.TLSMemoryBIOProtocol",
             "twisted.protocols.tls.BufferingTLSTransport", "twisted.protocols.tls._AggregateSmallWrites",
             "twisted.protocols.tls._ProducerMembrane", "twisted.protocols.tls._ContextFactoryToConnectionFactory",
             "twisted.internet._producer_helpers._PullToPush", "twisted.internet.task.Cooperator (fresh per run, scheduler on sim.clock)",
             "twisted.protocols.policies.ProtocolWrapper/WrappingFactory",
             "OpenSSL libssl/libcrypto (the real library bundled with `cryptography`, reached through its cffi binding): "
             "all TLS 1.3/1.2 handshakes, record protection, close_notify"],
    "stub": ["pyOpenSSL API: vendor/OpenSSL shim (SSL.Context/SSL.Connection/exceptions re-implemented over cryptography's cffi binding "
             "following pyOpenSSL's source; checked by tools/selftest_openssl_shim.py) — pyOpenSSL itself is not installable offline",
             "TCP transports, delivery segmentation, back-pressure, FIN/RST (detsim.net.Link/SimTransport)",
             "reactor time (detsim.clock.SimClock)",
             "server certificate: committed RSA-2048 self-signed fixture (fixtures/tls_server_*.pem); client does not verify it"],
}
RULE = ("run = one TLS 1.3 or 1.2 connection; up to 40 tape-chosen operations (application write/writeSequence of 0..70000 bytes, register push/pull producer "
        "[per producer: driven by harness ticks only or also acting from inside resumeProducing(); first chunk written at registration or later; unregisters with "
        "its last chunk or at the next tick/resume without writing; closes afterwards or not], "
        "produce, loseConnection, pause/resume reading, timer tick, network step, burst of 1..3-byte deliveries) interleaved with the handshake, an optional settle phase, a forced "
        "loseConnection if nobody closed, then a tape-driven drain to quiescence; swarm knobs: TLS version, protocol class per side, high-water mark per side, reactive writes from dataReceived / "
        "handshakeCompleted; non-trivial = at least one application received bytes, the ciphertext was segmented, "
        "the close was initiated by loseConnection, nobody aborted and both applications saw connectionLost")
ASSUMPTIONS = [
    "no corruption, truncation or connection-loss faults (the statement does not cover them)",
    "completeness of a side's pre-loseConnection bytes is demanded only if (a) the receiving side's transport was not aborted — loseConnection() before "
    "the handshake completes with nothing buffered deliberately aborts (tls.py loseConnection comment), i.e. that receiver stopped listening — and "
    "(b) the writer closed first, or closed before any byte the first closer emitted after its own loseConnection had reached it; otherwise only the "
    "prefix (in-order) clause applies, as for TCP",
    "producers are registered before loseConnection() only (registering one afterwards and writing is outside tls.write's documented contract)",
    "bytes written after loseConnection() while a producer is registered may or may not count as 'written before loseConnection': they are allowed to "
    "arrive (ITransport documents that they do) but are not demanded",
    "a producer calls write/unregisterProducer/loseConnection from inside its own resumeProducing() (IPushProducer/IPullProducer put no restriction on "
    "that; FileSender and _PullToPush-wrapped producers do it); it never registers another producer from there",
    "ciphertext lengths are a function of the plaintext schedule only (RSA fixture; measured constant over 4000 handshakes per version)",
]

_FIX = os.path.join(os.path.dirname(os.path.dirname(os.path.abspath(__file__))), "fixtures")
_CERT = crypto.load_certificate(crypto.FILETYPE_PEM, open(os.path.join(_FIX, "tls_server_cert.pem"), "rb").read())
_KEY = crypto.load_privatekey(crypto.FILETYPE_PEM, open(os.path.join(_FIX, "tls_server_key.pem"), "rb").read())

PATLEN = 400000
# position-coded application streams, values 0..250; 0xFF marks bytes that must never arrive
PAT = {
    "C": bytes(bytearray((i * 31 + (i >> 8) * 7 + 11) % 251 for i in range(PATLEN))),
    "S": bytes(bytearray((i * 29 + (i >> 8) * 5 + 101) % 251 for i in range(PATLEN))),
}
SIZES = [(1, 4), (0, 1), (2, 2), (10, 3), (100, 3), (1000, 2), (5000, 2), (16384, 1), (16385, 1), (20000, 1), (40000, 1), (70000, 1)]
SMALL = [1, 0, 3, 50, 700]
STEP_CAP = 30000
# knob: True skips the precondition of the hs-overtake finding (see FINDINGS at the bottom; repaired in /repo 9d1ab05) so that
# the remaining clauses can be exercised / mutants judged on a tree without the repair
AVOID_HS_OVERTAKE = False
# producer behaviours (first item = simplest):
#   style   driven  the producer writes only when the harness ticks it (its data source) while it is not paused
#           eager   it also writes - or finds out it has finished - from inside resumeProducing(), i.e. re-entrantly
#                   from wherever the TLS layer / the underlying transport decided to resume it
#   finish  with-last  unregisters right after its last chunk
#           next-turn  notices only at the next turn (tick or resume) that nothing is left and unregisters then,
#                      without having written anything in that turn (FileSender at end of file)
PROD_STYLES = ["driven", "eager", "eager"]
PROD_FINISH = ["with-last", "next-turn"]
AT_REGISTER_P = 0.4     # a push producer writes its first chunk straight after registerProducer() returns


class CtxFactory:
    """Old-style context factory (getContext()), adapted by tls._ContextFactoryToConnectionFactory."""

    def __init__(self, server, version):
        ctx = SSL.Context(SSL.TLS_METHOD)
        if server:
            ctx.use_certificate(_CERT)
            ctx.use_privatekey(_KEY)
            ctx.check_privatekey()
        if version == "1.2":
            ctx.set_max_proto_version(SSL.TLS1_2_VERSION)
        self.ctx = ctx

    def getContext(self):
        return self.ctx


class App(Protocol):
    def __init__(self, h, side):
        self.h, self.side = h, side

    def connectionMade(self):
        self.h.on_made(self.side)

    def dataReceived(self, data):
        self.h.on_data(self.side, data)

    def connectionLost(self, reason):
        self.h.on_lost(self.side, reason)


@implementer(interfaces.IHandshakeListener)
class ListeningApp(App):
    def handshakeCompleted(self):
        self.h.on_handshake(self.side)


@implementer(interfaces.IPushProducer)
class PushProd:
    kind = "push"

    def __init__(self, h, side, left, then_lose, style="driven", finish="with-last"):
        self.h, self.side, self.left, self.then_lose = h, side, left, then_lose
        self.style, self.finish = style, finish
        self.paused = False
        self.stopped = False

    def pauseProducing(self):
        self.paused = True
        self.h.sim.event("prod-paused", self.side)
        self.h.sim.probe("app_producer_paused")

    def resumeProducing(self):
        self.paused = False
        self.h.sim.event("prod-resumed", self.side)
        if self.style == "eager" and not self.stopped and self.h.sides[self.side].prod is self:
            # room again: write the next chunk (or find out there is none) here and now
            self.h.sim.probe("push_producer_acts_inside_resumeProducing")
            self.h.produce(self.side, "resumed")

    def stopProducing(self):
        self.stopped = True
        self.h.producer_stopped(self.side, self)


@implementer(interfaces.IPullProducer)
class PullProd:
    kind = "pull"

    def __init__(self, h, side, left, then_lose, style="driven", finish="with-last"):
        self.h, self.side, self.left, self.then_lose = h, side, left, then_lose
        self.style, self.finish = style, finish      # a pull producer always acts inside resumeProducing; style is unused
        self.paused = False
        self.stopped = False

    def resumeProducing(self):
        self.h.sim.probe("pull_producer_asked")
        self.h.produce(self.side, "pulled")

    def stopProducing(self):
        self.stopped = True
        self.h.producer_stopped(self.side, self)


class Side:
    """Harness view + reference model of one endpoint."""

    def __init__(self, name):
        self.name = name
        self.ln = "A" if name == "C" else "B"   # name of this end inside detsim.net.Link
        self.peer_delivered_at_lose = None
        self.app = None
        self.tls = None
        self.t = None                 # underlying SimTransport
        self.before = 0               # bytes written before the first loseConnection()
        self.after = 0                # bytes written after it while a producer was registered
        self.recv = 0                 # pattern bytes received (all verified against the peer's pattern)
        self.recv_after = 0           # 0xFE bytes received (peer's producer writes after its loseConnection)
        self.made = 0
        self.lost = 0
        self.hs = 0
        self.lose_called = False
        self.lose_mark = None         # len(t.written) when loseConnection() was first called
        self.lose_order = None
        self.pre_hs_written = 0       # bytes written before this side's handshake completed
        self.hs_overtake = False      # wrote from handshakeCompleted while earlier writes existed
        self.prod = None
        self.read_paused = False
        self.hs_action = "none"
        self.echo_p = 0.0
        self.depth = 0

    @property
    def accepted(self):
        return self.before + self.after


class Harness:
    def __init__(self, sim):
        self.sim = sim
        self.sides = {"C": Side("C"), "S": Side("S")}
        self.link = None
        self.order = 0
        self.total = 0

    def peer(self, side):
        return self.sides["S" if side == "C" else "C"]

    # ---------------------------------------------------------- app callbacks
    def on_made(self, side):
        s = self.sides[side]
        s.made += 1
        self.sim.event("made", side)
        self.sim.check("lost-once", s.lost == 0 and s.made == 1, "connectionMade", "made=%d lost=%d" % (s.made, s.lost))

    def on_handshake(self, side):
        s = self.sides[side]
        s.hs += 1
        self.sim.event("handshakeCompleted", side)
        self.sim.check("lost-once", s.lost == 0, "handshakeCompleted-after-connectionLost")
        self.sim.check("handshake-once", s.hs == 1, "handshakeCompleted", "called %d times" % s.hs)
        act = s.hs_action
        risky = act in ("write", "lose", "write+lose") and s.accepted > 0 and not (s.lose_called and s.prod is None)
        if risky and AVOID_HS_OVERTAKE:
            self.sim.probe("hs_action_skipped_to_avoid_known_defect")
            return
        if risky:
            # a write, or the flush implied by loseConnection(), issued from handshakeCompleted
            # while earlier (pre-handshake) writes exist
            s.hs_overtake = True
            self.sim.probe("hs_action_after_earlier_writes")
        if act in ("write", "write+lose"):
            self.app_write(side, self.sim.draw_choice(SMALL, "hs_size"), "write", "hs")
        if act in ("lose", "write+lose"):
            self.app_lose(side, "hs")

    def on_data(self, side, data):
        s = self.sides[side]
        p = self.peer(side)
        sim = self.sim
        sim.event("data", side, len(data))
        sim.check("lost-once", s.lost == 0, "dataReceived-after-connectionLost")
        sim.check("nonempty-delivery", len(data) > 0, "dataReceived", "empty dataReceived")
        # reference stream: PAT[peer][:before] followed by at most `after` bytes 0xFE
        i = 0
        if s.recv_after == 0:
            exp = PAT[p.name][s.recv:s.recv + len(data)]
            if data == exp:
                i = len(data)
            else:
                i = next((j for j in range(min(len(data), len(exp))) if data[j] != exp[j]), min(len(data), len(exp)))
            if not p.lose_called or s.recv + i <= p.before:
                s.recv += i
            else:
                i = max(0, p.before - s.recv)
                s.recv += i
        rest = data[i:]
        if rest:
            tail_ok = (rest == b"\xfe" * len(rest) and p.lose_called and s.recv == p.before
                       and s.recv_after + len(rest) <= p.after)
            if not tail_ok:
                bad = rest[:1]
                what = {b"\xff": "dropped-write-arrived", b"\xfe": "producer-bytes-out-of-place"}.get(bad, "stream")
                detail = ("%s received a wrong byte at stream offset %d+%d (got %r, expected %r); peer had written %d before its "
                          "loseConnection (called=%s) and %d after" % (side, s.recv, s.recv_after, rest[:8],
                                                                       PAT[p.name][s.recv:s.recv + 8], p.before, p.lose_called, p.after))
                if p.hs_overtake:
                    # defect family REPAIRED in /repo 9d1ab05: a regression of it keeps its own stable signature
                    sim.fail("hs-overtake", "in-order", "write/flush issued from handshakeCompleted overtook writes buffered during the handshake: " + detail)
                sim.fail("in-order", what, detail)
            s.recv_after += len(rest)
        sim.check("in-order", s.recv <= p.before and s.recv_after <= p.after, "more-than-written",
                  "%s received %d+%d, peer wrote %d+%d" % (side, s.recv, s.recv_after, p.before, p.after))
        if s.echo_p and s.depth < 1 and sim.draw_bool(s.echo_p, "echo"):
            s.depth += 1
            try:
                sim.probe("write_from_dataReceived")
                self.app_write(side, sim.draw_choice(SMALL, "echo_size"), "write", "rx")
                if sim.draw_bool(0.15, "echo_lose"):
                    self.app_lose(side, "rx")
            finally:
                s.depth -= 1

    def on_lost(self, side, reason):
        s = self.sides[side]
        s.lost += 1
        self.sim.event("lost", side, reason.type.__name__ if isinstance(reason, Failure) else type(reason).__name__)
        self.sim.check("lost-once", s.lost == 1, "connectionLost-twice", "%s connectionLost #%d" % (side, s.lost))
        self.sim.check("lost-reason", isinstance(reason, Failure), "not-a-Failure", repr(reason)[:80])

    def producer_stopped(self, side, prod):
        s = self.sides[side]
        self.sim.event("prod-stopped", side)
        if s.prod is prod:
            s.prod = None

    # ---------------------------------------------------------- app actions
    def app_write(self, side, n, how, where="op"):
        s = self.sides[side]
        sim = self.sim
        if s.lost or s.made == 0:
            return
        n = min(n, PATLEN - s.accepted - 1, max(0, 150000 - self.total))
        n = max(n, 0)
        if s.lose_called and s.prod is None:
            data = b"\xff" * n            # must be dropped
            kind = "dropped"
            sim.probe("write_after_lose")
        elif s.lose_called:
            data = b"\xfe" * n            # producer still registered: may arrive, after everything else
            kind = "after"
            s.after += n
            sim.probe("producer_write_after_lose")
        else:
            data = PAT[side][s.before:s.before + n]
            kind = "kept"
            s.before += n
        if kind != "dropped":
            if not s.tls._handshakeDone:
                s.pre_hs_written += n
                if n:
                    sim.probe("write_before_handshake_done")
        self.total += n
        sim.event(how, side, n, kind, where)
        with sim.guard("raised", how):
            if how == "writeSequence":
                k = sim.draw_int(0, 3, "nparts")
                cuts = sorted(sim.draw_int(0, n, "part") for _ in range(k))
                parts = [data[a:b] for a, b in zip([0] + cuts, cuts + [n])]
                kind = sim.draw_choice(["list", "tuple", "generator"], "iovec")   # any iterable of bytes is a legal argument
                if kind == "generator":
                    sim.probe("writeSequence_one_shot_iterable")
                s.app.transport.writeSequence(parts if kind == "list" else tuple(parts) if kind == "tuple" else (x for x in parts))
            else:
                s.app.transport.write(data)

    def app_lose(self, side, where="op"):
        s = self.sides[side]
        sim = self.sim
        if s.lost or s.made == 0:
            return
        sim.event("loseConnection", side, where, "again" if s.lose_called else "first",
                  "hs-done" if s.tls._handshakeDone else "hs-pending")
        if not s.lose_called:
            s.lose_called = True
            s.lose_mark = len(s.t.written)
            s.peer_delivered_at_lose = len(self.link.delivered[s.ln])
            self.order += 1
            s.lose_order = self.order
            if not s.tls._handshakeDone:
                sim.probe("lose_before_handshake_done")
            if s.prod is not None:
                sim.probe("lose_with_producer")
        with sim.guard("raised", "loseConnection"):
            s.app.transport.loseConnection()

    def register(self, side, kind):
        s = self.sides[side]
        sim = self.sim
        if s.lost or s.made == 0 or s.prod is not None:
            return
        if s.lose_called:
            return                        # registering a producer after loseConnection() is outside the contract (ASSUMPTIONS)
        left = sim.draw_int(1, 5, "nchunks")
        then_lose = sim.draw_bool(0.5, "then_lose")
        style = sim.draw_choice(PROD_STYLES, "prod_style") if kind == "push" else "driven"
        finish = sim.draw_choice(PROD_FINISH, "prod_finish")
        at_register = kind == "push" and sim.draw_bool(AT_REGISTER_P, "at_register")
        prod = (PushProd if kind == "push" else PullProd)(self, side, left, then_lose, style, finish)
        s.prod = prod
        sim.event("register", side, kind, left, then_lose, style, finish, at_register)
        sim.probe("register_%s" % kind)
        if not s.tls._handshakeDone:
            sim.probe("register_before_handshake_done")
        with sim.guard("raised", "registerProducer"):
            s.app.transport.registerProducer(prod, kind == "push")
        if at_register and s.prod is prod and not prod.paused:
            sim.probe("push_producer_writes_at_registration")
            self.produce(side, "registered")

    def produce(self, side, where="op"):
        """The side's producer writes one chunk; after its last chunk it unregisters
        (and, if so configured, closes)."""
        s = self.sides[side]
        sim = self.sim
        prod = s.prod
        if prod is None or s.lost:
            return
        if prod.left > 0:
            prod.left -= 1
            self.app_write(side, sim.draw_weighted(SIZES, "psize"), "write", where)
            done = prod.left <= 0 and prod.finish == "with-last"
        else:
            done = True                   # finish == "next-turn": nothing left, noticed only now
            sim.probe("producer_finishes_without_writing")
            if where in ("resumed", "pulled"):
                sim.probe("producer_unregisters_inside_resumeProducing")
                if s.lose_called:
                    sim.probe("producer_unregisters_inside_resumeProducing_after_lose")
        if done and s.prod is prod:
            s.prod = None
            sim.event("unregister", side, where)
            with sim.guard("raised", "unregisterProducer"):
                s.app.transport.unregisterProducer()
            if prod.then_lose:
                self.app_lose(side, where)

    def set_reading(self, side, on):
        s = self.sides[side]
        if s.lost or s.made == 0:
            return
        self.sim.event("resume-read" if on else "pause-read", side)
        s.read_paused = not on
        with self.sim.guard("raised", "pause/resumeProducing"):
            if on:
                s.app.transport.resumeProducing()
            else:
                self.sim.fault("receiver_pause")
                s.app.transport.pauseProducing()

    # ---------------------------------------------------------- network / time
    def net_step(self):
        with self.sim.guard("raised", "network"):
            ev = self.link.enabled()
            if not ev:
                return False
            kind, name = self.sim.draw_choice(ev, "net")
            amount = None
            if kind in ("xmit", "deliver"):
                amount = self.sim.draw_choice([None, 1000, 64, 17, 8, 5, 3, 2, 1, 4000, 300], "amount")
                if amount is not None:
                    self.sim.fault("segmentation")
            self.sim.event("net", kind, "C" if name == "A" else "S")
            self.link.do(kind, name, amount)
            return True

    def burst(self, name):
        """A run of tiny deliveries to one side (amounts never depend on content)."""
        sim = self.sim
        piece = sim.draw_choice([1, 2, 3], "piece")
        count = sim.draw_choice([20, 200, 1500, 6000], "count")
        t = self.sides[name].t
        other = t.peer_t
        ln = self.sides[name].ln
        sim.event("burst", name, piece, count)
        n = 0
        with sim.guard("raised", "network"):
            if other.out and not other.disconnected:
                self.link.do("xmit", other.name, None)
            while n < count and self.link.flight[ln] and t.reading and not t.disconnected:
                self.link.do("deliver", ln, piece)
                n += 1
        if n:
            sim.fault("segmentation", n)
            sim.fault("tiny_delivery_burst")
        sim.event("burst-done", name, n)

    def tick(self):
        with self.sim.guard("raised", "timer"):
            self.sim.event("tick")
            self.sim.clock.run_next()


def _cooperator_for(sim):
    """_PullToPush uses the process-global cooperator (wall-clock time slices, state
    that outlives a run); give it a fresh one whose scheduler is the simulated clock
    and which does exactly one unit of work per tick."""
    coop = task.Cooperator(terminationPredicateFactory=lambda: (lambda: True),
                           scheduler=lambda f: sim.clock.callLater(0.0, f))
    return coop


def run(sim):
    saved = _producer_helpers.cooperate
    coop = _cooperator_for(sim)
    _producer_helpers.cooperate = coop.cooperate
    try:
        _run(sim)
    finally:
        _producer_helpers.cooperate = saved


def _run(sim):
    h = Harness(sim)
    C, S = h.sides["C"], h.sides["S"]
    version = sim.draw_choice(["1.3", "1.2"], "version")
    cfg = {"version": version}
    hwm = {}
    for s in (C, S):
        cfg["proto" + s.name] = sim.draw_choice(["buffering", "plain"], "proto")
        hwm[s.name] = sim.draw_choice([None, None, 0, 200, 5000], "hwm")
        s.hs_action = sim.draw_choice(["none"] * 7 + ["listen"] * 3 + ["write", "lose", "write+lose"], "hs_action")
        s.echo_p = sim.draw_choice([0.0, 0.0, 0.3], "echo")
        cfg["hwm" + s.name], cfg["hs" + s.name], cfg["echo" + s.name] = hwm[s.name], s.hs_action, s.echo_p
    nops = sim.draw_int(0, 40, "nops")
    a_first = not sim.draw_bool(0.3, "server_first")
    bursty = sim.draw_bool(0.12, "bursty")
    cfg.update(nops=nops, client_first=a_first, bursty=bursty)
    sim.config = cfg

    protos = {}
    for s, is_client in ((C, True), (S, False)):
        wf = (ClientFactory if is_client else ServerFactory)()
        cls = App if s.hs_action == "none" else ListeningApp
        wf.buildProtocol = lambda addr, cls=cls, s=s: cls(h, s.name)
        f = tls.TLSMemoryBIOFactory(CtxFactory(not is_client, version), is_client, wf, clock=sim.clock)
        if cfg["proto" + s.name] == "plain":
            f.protocol = tls.TLSMemoryBIOProtocol
        p = f.buildProtocol(None)
        s.tls, s.app = p, p.wrappedProtocol
        protos[s.name] = p
    link = net.Link(sim, protos["C"], protos["S"], hwm["C"], hwm["S"])
    C.t, S.t = link.a, link.b          # Link calls them "A" (client) and "B" (server)
    h.link = link
    with sim.guard("raised", "makeConnection"):
        link.connect(a_first)

    def ops_enabled(drain):
        ops = []
        if link.enabled():
            ops.append(("net", 12 if not drain else 20))
            if bursty and not drain:
                for s in (C, S):
                    if (link.flight[s.ln] or s.t.peer_t.out) and s.t.reading and not s.t.disconnected:
                        ops.append(("burst" + s.name, 3))
        if sim.clock.pending():
            ops.append(("tick", 4 if not drain else 8))
        for s in (C, S):
            if s.lost or s.made == 0:
                continue
            n = s.name
            if s.prod is not None and s.prod.kind == "push" and not s.prod.paused:
                ops.append(("produce" + n, 3 if not drain else 6))
            if s.read_paused:
                ops.append(("resume" + n, 2 if not drain else 6))
            if drain:
                continue
            ops.append(("write" + n, 5))
            ops.append(("wseq" + n, 1))
            ops.append(("lose" + n, 1))
            if s.prod is None and not s.lose_called:
                ops.append(("push" + n, 1))
                ops.append(("pull" + n, 1))
            if not s.read_paused:
                ops.append(("pause" + n, 1))
        return ops

    def do(op):
        name, side = (op[:-1], op[-1]) if op[-1] in "CS" else (op, None)
        if op == "net":
            h.net_step()
        elif op == "tick":
            h.tick()
        elif name == "burst":
            h.burst(side)
        elif name == "write":
            h.app_write(side, sim.draw_weighted(SIZES, "size"), "write")
        elif name == "wseq":
            h.app_write(side, sim.draw_weighted(SIZES, "size"), "writeSequence")
        elif name == "lose":
            h.app_lose(side)
        elif name in ("push", "pull"):
            h.register(side, name)
        elif name == "produce":
            h.produce(side)
        elif name == "pause":
            h.set_reading(side, False)
        elif name == "resume":
            h.set_reading(side, True)
        else:
            raise AssertionError(op)
        for s in (C, S):
            sim.check("lost-once", s.lost <= 1, "connectionLost-twice")
        sim.state((C.tls._handshakeDone, S.tls._handshakeDone, C.lose_called, S.lose_called, C.lost, S.lost,
                   C.prod is not None, S.prod is not None, min(C.recv, 3), min(S.recv, 3)))

    for _ in range(nops):
        sim.step(STEP_CAP)
        ops = ops_enabled(False)
        if not ops:
            break
        do(sim.draw_weighted(ops, "op"))

    # somebody has to close, otherwise "eventually closed" has no trigger
    if not (C.lose_called or S.lose_called):
        settle = sim.draw_choice([30, 0, 3, 10, 100, "quiesce", "quiesce"], "settle")
        if settle == "quiesce":
            # let everything that can happen without a close happen, then nothing written may still be missing
            for _ in range(6000):
                sim.step(STEP_CAP)
                ops = ops_enabled(True)
                if not ops:
                    break
                do(sim.draw_weighted(ops, "settle_op"))
            else:
                sim.fail("closed", "no-quiescence-within-budget", "still active after the settle budget (no close requested yet)")
            if not (C.lose_called or S.lose_called or C.lost or S.lost):
                sim.probe("quiescent_before_close")
                for p_, q_ in ((C, S), (S, C)):
                    sim.check("delivered-at-quiescence", q_.recv == p_.before, "idle-connection",
                              lambda: "nothing is pending (no timer, no network event, no paused producer) and nobody closed, yet %s has "
                              "received only %d of the %d bytes %s wrote (handshake done: %s/%s)"
                              % (q_.name, q_.recv, p_.before, p_.name, C.tls._handshakeDone, S.tls._handshakeDone))
        else:
            for _ in range(settle):
                sim.step(STEP_CAP)
                ops = [o for o in ops_enabled(True) if o[0] in ("net", "tick")]
                if not ops:
                    break
                do(sim.draw_weighted(ops, "settle_op"))
        who = sim.draw_choice(["C", "S", "CS", "SC"], "closer")
        for i, n in enumerate(who):
            if i:
                for _ in range(sim.draw_int(0, 6, "gap")):
                    if not h.net_step():
                        break
            h.app_lose(n, "final")

    # drain to quiescence (still tape-driven)
    budget = 6000
    quiescent = False
    while budget > 0:
        budget -= 1
        sim.step(STEP_CAP)
        ops = ops_enabled(True)
        if not ops:
            quiescent = True
            break
        do(sim.draw_weighted(ops, "drain"))
    final_checks(sim, h, quiescent)


def final_checks(sim, h, quiescent):
    C, S = h.sides["C"], h.sides["S"]
    link = h.link
    sim.event("final", "recvC", C.recv, C.recv_after, "recvS", S.recv, S.recv_after, "wroteC", C.before, C.after, "wroteS", S.before, S.after)
    sim.check("closed", quiescent, "no-quiescence-within-budget", "still active after the drain budget")
    for s in (C, S):
        stalled = s.prod is not None and s.prod.kind == "push" and s.prod.paused and not s.lost
        sim.check("closed", not stalled, "producer-left-paused",
                  lambda: "%s: push producer still paused at quiescence (hs done=%s, appSendBuffer=%r bytes, lose_called=%s)"
                  % (s.name, s.tls._handshakeDone, sum(map(len, getattr(s.tls, "_appSendBuffer", []) or [])), s.lose_called))
    for s in (C, S):
        sim.check("closed", s.t.disconnected, "underlying-transport-open",
                  lambda: "%s underlying transport not closed at quiescence: disconnecting=%s out=%d lose_called=%s hsdone=%s lostTLS=%s"
                  % (s.name, s.t.disconnecting, len(s.t.out), s.lose_called, s.tls._handshakeDone, s.tls._lostTLSConnection))
        sim.check("lost-once", s.lost == 1, "connectionLost-missing" if s.lost == 0 else "connectionLost-twice",
                  "%s connectionLost called %d times" % (s.name, s.lost))
    aborted = C.t.aborted or S.t.aborted
    if aborted:
        sim.probe("aborted_close")
    for p, q in ((C, S), (S, C)):
        # q must have received everything p wrote before p's loseConnection, when p's close was effective
        if not p.lose_called:
            continue
        if q.t.aborted:
            continue                      # the receiver itself gave up (pre-handshake loseConnection with nothing to send)
        first = q.lose_order is None or p.lose_order < q.lose_order
        if first:
            effective = True
        else:
            # p closed second: effective if nothing q emitted after q's loseConnection had reached p yet
            effective = p.peer_delivered_at_lose <= q.lose_mark
        if not effective:
            sim.probe("second_close_preempted")
            continue
        sim.probe("complete_checked")
        what = "first-closer" if first else "second-closer"
        detail = ("%s wrote %d bytes before its loseConnection (%d of them before its handshake completed), %s received only %d"
                  % (p.name, p.before, p.pre_hs_written, q.name, q.recv))
        if p.hs_overtake:
            sim.check("hs-overtake", q.recv >= p.before, "complete", detail)
        sim.check("complete", q.recv >= p.before, what, detail)
    sim.nontrivial = bool((C.recv or S.recv) and sim.faults.get("segmentation", 0) > 0 and (C.lose_called or S.lose_called)
                          and C.lost == 1 and S.lost == 1 and not aborted)


LEVEL_NOTE = ("Ciphertext differs from run to run (libssl's RNG cannot be seeded); traces contain application-level events, network event kinds "
              "and plaintext lengths only, and every scheduling decision is drawn from the tape without looking at ciphertext. With the RSA fixture "
              "ciphertext lengths are constant, so tape -> trace is a function (tools/selftest_determinism.py).")

# Violations on the tree as first examined (twisted 24.7.0.post0), analysed; REPAIRED in /repo 9d1ab05:
FINDINGS = [
    "C17:hs-overtake:* — GENUINE defect of the tree as first examined, REPAIRED in /repo 9d1ab05 (AVOID_HS_OVERTAKE = False: the precondition is in all runs; True only "
    "for dev-time comparison on a tree without the repair). Before the repair TLSMemoryBIOProtocol._checkHandshakeStatus sets _handshakeDone and calls the application's "
    "IHandshakeListener.handshakeCompleted() *before* dataReceived() gets to _unbufferPendingWrites(); a write issued from handshakeCompleted "
    "(plain TLSMemoryBIOProtocol), or the aggregator flush implied by loseConnection() there, or a >64000-byte write (BufferingTLSTransport), "
    "goes straight to SSL_write and overtakes the writes made before the handshake completed that still sit in _appSendBuffer: the peer "
    "receives b'second first '. Repair (validated: 94k runs without the avoidance switch, no violation): in _write(), after the "
    "_lostTLSConnection test, `if self._appSendBuffer: self._bufferedWrite(bytes); return` (queue behind waiting writes; "
    "_unbufferPendingWrites swaps the list out first, so it is unaffected).",
]

# tools/mutate.py C17 ... (on a tree without /repo 9d1ab05: with AVOID_HS_OVERTAKE = True so that only the mutant can make the check fail); exit code 1 = caught
MUTANTS = [
    "M1 _unbufferPendingWrites does not resume the producer: caught (closed:producer-left-paused, closed:underlying-transport-open)",
    "M2 loseConnection calls _shutdownTLS although _appSendBuffer is non-empty: SURVIVES — equivalent here: with OpenSSL >= 1.1 SSL_shutdown "
    "during the handshake fails ('shutdown while in init') and _shutdownTLS swallows the Error, so nothing is sent or lost",
    "M2b loseConnection aborts before the handshake even though writes are buffered (`if not self._handshakeDone:`): caught (complete:first-closer)",
    "M3 connectionLost forwarded twice to the wrapped protocol: caught (lost-once:connectionLost-twice)",
    "M4 _flushReceiveBIO stops after one recv(): caught (closed:underlying-transport-open, complete:first-closer)",
    "M7 BufferingTLSTransport.loseConnection without _aggregator.flush(): caught (complete:first-closer/second-closer)",
    "M8 _AggregateSmallWrites.flush keeps its buffer (duplicates): caught (in-order:stream)",
    "M9 unregisterProducer does not start the deferred TLS shutdown: caught (closed:underlying-transport-open)",
    "M10 _unbufferPendingWrites does not start the deferred TLS shutdown: caught (closed:underlying-transport-open)",
    "M12 write() no longer drops bytes after loseConnection: caught (in-order:dropped-write-arrived)",
    "M14 dataReceived runs _flushReceiveBIO before _unbufferPendingWrites: caught (complete:first-closer/second-closer)",
    "M17 _flushReceiveBIO without the final _flushSendBIO: caught (closed:underlying-transport-open)",
    "M18 _ProducerMembrane.resumeProducing does not reach the producer: caught (closed:producer-left-paused)",
    "M20 (round 6) _unbufferPendingWrites goes on to its own `if self.disconnecting: _shutdownTLS()` after resumeProducing() when the producer unregistered "
    "itself in there (SSL_shutdown twice with the peer's records still unread): caught (raised:network:IndexError) since producers may act inside "
    "resumeProducing and finish at the turn after their last chunk; survived while every producer was ticked from outside only",
    "M21 (round 6) _unbufferPendingWrites does not `return` after resumeProducing() at all: caught (complete:second-closer and others)",
    "M19 _AggregateSmallWrites never schedules its flush: caught (delivered-at-quiescence:idle-connection); survived before that clause existed",
]
