"""C53 — rotating log files lose and reorder nothing.

Engine E6 (fs).  A tape-drawn history of text/bytes writes, explicit rotate(),
reopen() and close+reconstruct on a real LogFile with small rotation length and
optional retention runs in a scratch directory; crash-free it is checked after
every operation, then EVERY crash point of the history (each interposed call,
torn lengths for each write) is enumerated, followed by reconstruction and
further writes.  Then every interposed call of the history is made to FAIL once
with an OSError (tape-chosen errno) while the process lives on: the application
sees a normal return or the exception, carries on with the same object, closes
and reconstructs, and/or retries the write (tape), and keeps writing.  Oracle:
rotated files (oldest first) + current file form a contiguous piece of the
written stream; only a write that raised may be missing from it.

Browsing family (half of the runs): the log file is "rotating, browsable" -
LogReaders it hands out (getCurrentLog(), getLog(n)) are opened, read a few
lines at a time and closed IN BETWEEN the writes, rotations and reopenings of
the history, up to three alive at once, in all three passes; in a share of
those runs the first file starts with more than one 8 kB read buffer of lines,
so that a reader that looked at a few lines is in mid-file at the next write.
No verdict on the readers themselves; the oracle on the written data is
unchanged (a reader must not move, lose or duplicate what was written).

Reconfiguration family: the history may close the LogFile and construct a new one
on the same path with ANOTHER retention count and/or rotation length (op
"reconfig": a restart with changed settings), and the process restarted after a
crash reconstructs the log with the retention count it died with or with another
one.  The new object starts from what the earlier configuration left: more rotated
files than its retention count allows, a current file already longer than its
rotation length.  The retention model follows the configuration in force: a
rotation completed under retention count N leaves min(N, before + 1) rotated files.
The retention count is drawn from {None, 1, 2, 3, 0}: zero is the lower boundary of the knob.

External-tool family (the workflow reopen() is documented for): op "extmove" - an external log rotation
tool (another process: no interposed call, no crash point of ours) renames the current file away, out of the directory or to
a date-stamped name beside it; the LogFile goes on writing through its descriptor, rotations fall due and explicit
rotate() calls arrive while there is no file at the path, until reopen() / a reconstruction creates a new one.  What the tool
took is part of "everything written": the files it took (in the order taken), merged into the rotated files (oldest first),
followed by the current file must still be a contiguous suffix; a rotation attempted while there is no current file
at the path can complete nothing, so the number of retained rotated files must stay what it was.

Neighbourhood family: the directory and the file have drawn names (blank, non-ASCII, an extra numeric component; with
GLOB_NAME_P also shell-pattern characters), and in a share of the runs a SECOND live LogFile (own rotation length, no retention
count) writes into the same directory in between the operations of the first, under an unrelated or a near-miss name
(with SIBLING_PREFIX_P: the first log's name plus ".<word>"); its files must hold all of its own stream and the first
log must behave as if it were alone.
"""
import errno
import itertools
import os

from twisted.python import logfile

from detsim import fs as simfs
from detsim.sim import StepLimit, Violation

ID = "C53"
ENGINE = "fs"
LEVEL = "fault_enumeration"
TECHNIQUE = "deterministic simulation: crash at every interposed filesystem call (+ torn writes) and a one-shot OSError at every interposed call of seeded LogFile histories, contiguous-suffix oracle"
QUICK_RUNS = 1800
BATCH = 10
COMPONENTS = {"real": ["twisted.python.logfile.LogFile/BaseLogFile (write, rotate, reopen, close, listLogs, _openFile, getCurrentLog, getLog); one or two live instances per directory", "twisted.python.logfile.LogReader (readLines, close)",
                       "the real filesystem under a scratch directory (reads; real descriptors, so dup()ed descriptors share offset and flags as in POSIX)"],
              "stub": ["process/kernel boundary for mutating calls (detsim.fs interposer: crash points, torn writes, errno faults)",
                       "the external log rotation tool (a real os.rename of the current file done by the scenario between two operations)"]}
RULE = ("run = one tape-drawn history of 2..14 operations (write bytes / write multi-byte text / rotate / reopen / close+reconstruct / reconfig = close + a new LogFile on the "
        "same path with a newly drawn maxRotatedFiles in {1,2,3,None,0} and rotateLength in {unchanged,10,4,25,80} / extmove = an external rotation tool renames the current file "
        "away [in 40% of the runs, at most 2 per history; out of the directory, to <name>-<date> or to <name>.<date> beside the log; not an interposed call], after which writes, due rotations and "
        "explicit rotate() calls happen with no file at the path until reopen()/a reconstruction / swrite = a write to the second LogFile of the directory, in the 20% of the "
        "runs that have one [own rotateLength 4/10/25, no retention count, name unrelated or a near miss of the first log's name]) with rotateLength 4..80 and "
        "maxRotatedFiles in {None,1,2,3,0}; the directory and file names are the plain ones in 70% of the runs, else drawn from PLACES (blank, non-ASCII, extra numeric component); so a retention count may start over a directory holding more rotated files than it allows and a rotation length over a current file "
        "already beyond it; the process restarted after each crash point reconstructs with the retention count it died with (3 in 8 runs) or a drawn other one (0 included); in half of the runs (browse) the history also opens readers (getCurrentLog() / getLog(k) of a rotated file that exists, up to 3 alive), "
        "reads 0/1/2/10 lines from one of them and closes one of them, in between the other operations, and in 30% of those (bulk) the history starts with one write of "
        "8193..8900 bytes of numbered lines with rotateLength raised by as much, so that the first file exceeds one read buffer; checked crash-free after every op, then every crash point and torn-write length is enumerated, each followed by reconstruction "
        "and 2 more writes; then every interposed call (open/write/rename/remove/chmod) fails once with a tape-chosen errno (EIO/EACCES/ENOSPC/EBUSY/EPERM/EROFS/EMFILE/"
        "EDQUOT/EFBIG as plausible for the call) in a live process: the application observes a normal return or the exception, then (tape) carries on with the same LogFile, "
        "closes and reconstructs it, and/or retries the write, finishes the history and 2 more writes; the files are checked from the fault on after every operation that "
        "entered a rotation or raised, and after the final close; non-trivial = at least one automatic rotation happened, a crash landed inside rotate() and an errno fault "
        "landed on a rename/remove inside rotate()")
ASSUMPTIONS = ["external-tool family: the files the tool took are part of 'everything written' and are not 'rotated files' of the LogFile: the oracle accepts any merge of the taken files "
               "(in the order taken) into the rotated files (oldest first), followed by the current file, that is a contiguous suffix of the stream ending at the last write; where a "
               "retention count was ever configured the oldest taken files may lie before the retained suffix and are then left out; without one, everything must be there.  A rotation "
               "attempted while the tool has the current file and nothing has re-opened the path cannot rotate anything: the model keeps the number of rotated files as it was (fewer would "
               "mean one of the newest N is gone although no newer one replaced it); the numbering 1..k is no longer demanded after such an attempt (the unchanged code refuses the rotation "
               "outright, which is only one way of keeping the files).  The tool's rename is done by another process: not a crash/errno point",
               "retention count 0 (ZERO_RETENTION_STRICT = False): by the letter of the statement no rotated file is kept; the unchanged code keeps the one it has just rotated; both 0 and 1 "
               "are accepted, 2 or more is a violation (reported as an observation, see MUTANTS)",
               "neighbourhood family: the second LogFile is judged by the same statement in the crash-free pass (its files hold all of its stream: 'neighbour-log-intact'); in the crash "
               "and errno passes it only takes part (its calls are crash and fault points; a fault injected into it may make it raise, and its application carries on or replaces it). "
               "GLOB_NAME_P = 0.2 and SIBLING_PREFIX_P = 0.4: directory/file names with shell-pattern characters and a sibling called <name>.<word> are the preconditions of two "
               "genuine defects of the tree as first examined, both REPAIRED in /repo 8fe469f (see the constants and MUTANTS); 0.0 keeps them out and is only for dev-time comparison",
               "retention model (from the statement and the constructor's documentation 'max number of log files the class creates ... removes all log files above this number'): a "
               "rotation completed under retention count N leaves min(N, before+1) rotated files numbered 1..; the statement does not say WHEN files beyond a newly configured smaller "
               "count go, so between such a reconfiguration and the first rotation after it any count from N up to what was there is accepted (numbering still 1..k, content still a "
               "contiguous suffix); 'without a retention count loses none' is demanded as long as no configuration of the history had a retention count; while a rotation is cut short "
               "(crash, errno) the count is only bounded by max(before, min(N, before+1)); after the restarted process completed a rotation under count N at most N files remain "
               "whatever the dead process left (gaps included)",
               "the 'at least the rotation length' clause is evaluated against the rotation length of the LogFile object that rotates",
               "process crash (not power loss); rename() atomic; log file opened unbuffered as LogFile does, so each write() is one kernel write",
               "the 'at least the rotation length when rotated' clause is evaluated for automatic (size-triggered) rotations only; an explicit rotate() may rotate a shorter file by design",
               "errno family: one fault per execution; the failing call has no effect on the directory (a failed write wrote nothing); ENOENT is not injected for files that exist",
               "errno family, narrow relaxations: a write() that RAISED may be absent from the files, present, or present as a prefix (the statement does not say whether it was 'written'); "
               "every write that returned normally must be there (no retention count) and in order; after a fault the numbering of rotated files may have gaps, so 'exactly the newest N' "
               "is weakened to 'at most N, contiguous suffix' there",
               "browsing family: the statement speaks about the written data only, so nothing a reader returns is judged and an exception from a reader operation is ignored (the unchanged "
               "LogReader decodes with the locale codec and raises UnicodeDecodeError on non-UTF-8 byte writes; getCurrentLog() raises FileNotFoundError while a failed rotation has left no "
               "current file); reader operations make no interposed call, so they add neither crash nor errno points; all readers are closed when the simulated process dies",
               "errno family: an operation may raise only if the fault was injected into it or an earlier operation on the same LogFile object already raised (e.g. the unchanged rotate() "
               "leaves the object with a closed file when its last rename or the re-open fails, and every later write() raises ValueError until reopen()/rotate()/reconstruction); an operation "
               "raising on an object that never failed, with no fault in it, is reported like a raise in the crash-free pass"]
LEVEL_TEXT = ("Exhaustive enumeration of crash points (incl. torn writes) and of single-call OSError fault points for each sampled history; histories, the errno of each "
              "fault point and the application's reaction to a raised operation sampled by seed.")

TEXT_ALPHABET = ["a", "b", "é", "€", "\U0001f600", "\n", "z"]

# ---- where the log lives: (directory name, file name); first = simplest
PLACES = [("logs", "app.log"), ("log dir", "app.log"), ("logs", "app"), ("l\u00f6gs.d", "\u00e4pp.log"), ("logs", "app.1.log"), ("logs.2", "app log.txt")]
PLACE_P = 0.3
# Names containing shell-pattern characters.  On the tree as first examined LogFile.listLogs() handed the path to glob.glob() unescaped:
# under a directory called "logs[prod]" (or for a file called "app[1].log") it found no rotated file, every rotation renamed the current
# file over <name>.1 and all older rotated data was lost without any retention count - genuine defect, REPAIRED in /repo 8fe469f, see
# MUTANTS.  The precondition is let into this share (0.2) of the runs; 0.0 keeps it out of every run (dev-time comparison only); the
# other names are exercised regardless.
GLOB_NAME_P = 0.2
GLOB_PLACES = [("logs[prod]", "app.log"), ("logs", "app[1].log"), ("lo?s", "app.log"), ("logs", "app*.log"), ("[logs]", "app.log")]
# A second live LogFile in the same directory (share of the runs), written in between the operations of the first.
SIBLING_P = 0.2
SIBLING_NAMES = ["other.log", "%s-http", "x%s", "%s2"]          # unrelated and near-miss names (%s = the first log's name)
# Share of the sibling runs in which the sibling's name is the first log's name plus ".<word>" (access.log / access.log.ssl).  On the
# tree as first examined listLogs() of the first log then counted <name>.<word>.<k> as its own rotated file k and rotate() raised
# FileNotFoundError from every write once a rotation was due - genuine defect, REPAIRED in /repo 8fe469f, see MUTANTS.  The precondition
# is let into this share (0.4) of the sibling runs; 0.0 keeps it out of every run (dev-time comparison only).
SIBLING_PREFIX_P = 0.4
SIBLING_PREFIX_NAMES = ["%s.http", "%s.ssl.v2"]
# maxRotatedFiles=0: the letter of the statement ("exactly the newest N rotated files are kept") gives none; the unchanged code keeps
# the file it has just rotated (one).  False: both are accepted (0 or 1 rotated files, more is a violation); True: exactly none.
ZERO_RETENTION_STRICT = False
EXTERNAL_TOOL_P = 0.4  # share of the runs in which an external rotation tool may rename the current file away
MAX_TAKEN = 2          # external moves per history
TAKE_KINDS = ["out", "dash-date", "dot-date"]     # out of the directory / <name>-2026092k beside the log / <name>.2026-09-2k beside the log


def _most(keep):
    """most rotated files a rotation completed under retention count `keep` may leave"""
    return keep if (keep or ZERO_RETENTION_STRICT) else 1


WRITES = ("wbytes", "wtext")
READER_OPS = ("ropen", "rread", "rclose")
MAX_READERS = 3


def _filler(n):
    """n bytes of short numbered lines (every line distinct, so a misplaced or overwritten piece cannot go unnoticed)."""
    out = bytearray()
    i = 0
    while len(out) < n:
        out += b"#%05d %s\n" % (i, b"fill" * (3 + i % 7))
        i += 1
    return bytes(out[:n])


def run(sim):
    rot = sim.draw_choice([10, 4, 25, 80], "rotateLength")
    keep = sim.draw_choice([None, None, 1, 2, 3, 0], "maxRotatedFiles")
    # browsing family: the log file is "rotating, BROWSABLE" - readers it hands out (getCurrentLog / getLog(n)) are opened,
    # read piecewise and closed in between the writes, rotations and reopenings, and stay alive across them.  bulk: the
    # first file additionally starts with more than one 8 kB read buffer of lines, so that a reader which has looked at a
    # few lines is genuinely in the middle of the file when the next write happens.
    browse = sim.draw_bool(0.5, "browse")
    bulk = sim.draw_choice([8300, 8193, 8900], "bulk") if browse and sim.draw_bool(0.3, "bulk?") else 0
    # neighbourhood family: where the log lives and who else writes a log there
    place = PLACES[0]
    if sim.draw_bool(PLACE_P, "place?"):
        place = sim.draw_choice(PLACES[1:], "place")
    globby = False
    if GLOB_NAME_P and sim.draw_bool(GLOB_NAME_P, "glob-name?"):
        place = sim.draw_choice(GLOB_PLACES, "glob-name")
        globby = True
    sibling = None
    if sim.draw_bool(SIBLING_P, "sibling?"):
        pat = sim.draw_choice(SIBLING_NAMES, "sibling-name")
        if SIBLING_PREFIX_P and sim.draw_bool(SIBLING_PREFIX_P, "sibling-prefix?"):
            pat = sim.draw_choice(SIBLING_PREFIX_NAMES, "sibling-prefix")
        sibling = ((pat % place[1]) if "%s" in pat else pat, sim.draw_choice([10, 4, 25], "sibling-rotateLength"))
    # external-tool family: in this share of the runs an external rotation tool may take the current file away
    ext = sim.draw_bool(EXTERNAL_TOOL_P, "external-tool?")
    nops = sim.draw_int(2, 14, "nops")
    ops = []
    ctr = 0
    sctr = 0
    nreaders = 0
    ntaken = 0
    if bulk:
        rot += bulk
        ops.append(("wbytes", _filler(bulk)))
    for _ in range(nops):
        menu = [("wbytes", 5), ("wtext", 4), ("rotate", 1), ("reopen", 1), ("reconstruct", 1), ("reconfig", 1)]
        if browse:
            if nreaders < MAX_READERS:
                menu.append(("ropen", 3))
            if nreaders:
                menu += [("rread", 2), ("rclose", 1)]
        if ext and ntaken < MAX_TAKEN:
            menu.append(("extmove", 2))
        if sibling:
            menu.append(("swrite", 3))
        kind = sim.draw_weighted(menu, "op")
        if kind in WRITES:
            ctr += 1
            n = sim.draw_choice([2, 0, 7, 15, 40], "len")
            if kind == "wbytes":
                data = (b"<%d>" % ctr) + bytes(sim.draw_bytes(n, b"xyz\n\xc3"))
            else:
                data = "[%d]" % ctr + "".join(TEXT_ALPHABET[i % len(TEXT_ALPHABET)] for i in sim.draw_bytes(n, bytes(range(len(TEXT_ALPHABET)))))
            ops.append((kind, data))
        elif kind == "swrite":
            sctr += 1
            ops.append((kind, b"(s%d)" % sctr + b"q" * sim.draw_choice([2, 0, 7, 15], "slen")))
        elif kind == "extmove":
            # an external rotation tool renames the current file away (if there is one at the path at that moment)
            ntaken += 1
            ops.append((kind, sim.draw_choice(TAKE_KINDS, "take-to")))
        elif kind == "ropen":
            nreaders += 1
            # 0 = the current log; k > 0 = the k-th newest rotated file that exists at that moment (the current log if none)
            ops.append((kind, sim.draw_choice([0, 0, 1, 2, 3], "which")))
        elif kind == "rread":
            ops.append((kind, (sim.draw_int(0, MAX_READERS - 1, "reader"), sim.draw_choice([1, 0, 2, 10], "lines"))))
        elif kind == "rclose":
            nreaders -= 1
            ops.append((kind, sim.draw_int(0, MAX_READERS - 1, "reader")))
        elif kind == "reconfig":
            # close + a NEW LogFile on the same path with another configuration (the service was restarted with changed
            # settings): what the earlier configuration left in the directory - more rotated files than the new retention
            # count allows, a current file already longer than the new rotation length - is what the new object starts from
            ops.append((kind, (sim.draw_choice([1, 2, 3, None, 0], "maxRotatedFiles'"), sim.draw_choice([0, 10, 4, 25, 80], "rotateLength'"))))
        else:
            ops.append((kind, None))
    extra = [("wbytes", b"{after-crash-%d}" % i + b"p" * sim.draw_int(0, 30, "pad")) for i in range(2)]
    # the process restarted after a crash reconstructs the log with the configuration it died with ("same") or with another
    # retention count (restart with changed settings)
    restart = sim.draw_weighted([("same", 3), (1, 1), (2, 1), (3, 1), (None, 1), (0, 1)], "restart-maxRotatedFiles")
    sim.config = {"rotateLength": rot, "maxRotatedFiles": keep, "browse": browse, "bulk": bulk, "ops": [k for k, _ in ops],
                  "restart": restart, "external_tool": ext, "place": (PLACES + GLOB_PLACES).index(place), "glob_name": globby,
                  "sibling": None if sibling is None else [sibling[0].replace(place[1], "%s"), sibling[1]]}
    sim.event("history", rot, keep, " ".join("%s%d" % (k, len(d)) if k in WRITES or k == "swrite" else k if d is None else "%s%s" % (k, d) for k, d in ops))
    sim.event("place", sim.config["place"], "sibling", str(sim.config["sibling"]))
    F = simfs.FS(sim)
    opened = []     # every reader handed out in this run (closed for good at the end, whatever happened)
    try:
        with simfs.Installed(F, [(logfile, "os", "os"), (logfile, "open", "open")]):
            _enumerate(sim, F, rot, keep, ops, extra, opened, restart, place, sibling)
    finally:
        for rd in opened:
            try:
                rd.close()
            except Exception:
                pass
        F.destroy()


def _enc(d):
    return d.encode("utf8") if isinstance(d, str) else d


# errno-injection family: errors a kernel can plausibly return for each interposed call (first = simplest).  ENOENT is left
# out on purpose: it would claim that a file which is really there has vanished.
ERRNOS = {
    "write": [errno.EIO, errno.ENOSPC, errno.EDQUOT, errno.EFBIG],
    "rename": [errno.EIO, errno.EACCES, errno.ENOSPC, errno.EBUSY, errno.EPERM, errno.EROFS],
    "remove": [errno.EIO, errno.EACCES, errno.EBUSY, errno.EPERM, errno.EROFS],
    "open": [errno.EIO, errno.EACCES, errno.ENOSPC, errno.EMFILE, errno.EROFS],
    "chmod": [errno.EIO, errno.EPERM, errno.EROFS],
}
REACTIONS = ["continue", "reconstruct", "retry", "reconstruct+retry"]


def _match(segs, allb):
    """segs = [(bytes, completed)] in write order.  The admissible streams are the concatenations in which every
    completed write appears whole and every write that RAISED appears as any prefix of itself (absent .. whole).
    Returns None when allb is a suffix of no admissible stream, else the least number of bytes of COMPLETED writes
    that are missing in front of it (0 = nothing that was acknowledged is lost)."""
    n = len(segs)
    done_before = [0] * (n + 1)
    for i, (b, c) in enumerate(segs):
        done_before[i + 1] = done_before[i] + (len(b) if c else 0)
    memo = {}

    def f(i, pos):
        if pos == 0:
            return done_before[i]
        if i == 0:
            return None
        key = (i, pos)
        if key in memo:
            return memo[key]
        b, c = segs[i - 1]
        best = None
        if c:
            L = len(b)
            if pos >= L:
                if allb[pos - L:pos] == b:
                    best = f(i - 1, pos - L)
            elif b.endswith(allb[:pos]):
                best = (L - pos) + done_before[i - 1]
        else:
            for p in range(len(b), -1, -1):
                if pos >= p:
                    r = f(i - 1, pos - p) if allb[pos - p:pos] == b[:p] else None
                else:
                    r = done_before[i - 1] if b[:p].endswith(allb[:pos]) else None
                if r is not None and (best is None or r < best):
                    best = r
                    if best == 0:
                        break
        memo[key] = best
        return best

    return f(n, len(allb))


def _merges(parts, took, lossy):
    """The rotated files (oldest first) with the files an external tool took away (in the order taken) merged in, as
    concatenations; the likeliest (what was taken is newer than the rotated files) first.  Where old data may be gone by
    design (a retention count), the oldest taken files may fall outside the retained suffix and are left out."""
    took = [t for t in took if t]
    if not took:
        yield b"".join(parts)
        return
    n = len(parts)
    for drop in range(len(took) + 1 if lossy else 1):
        ts = took[drop:]
        for pos in itertools.combinations_with_replacement(range(n, -1, -1), len(ts)):
            pos = pos[::-1]          # non-decreasing: ts[i] goes in front of parts[pos[i]]
            out = []
            k = 0
            for i in range(n + 1):
                while k < len(ts) and pos[k] == i:
                    out.append(ts[k])
                    k += 1
                if i < n:
                    out.append(parts[i])
            yield b"".join(out)


def _enumerate(sim, F, rot, keep, ops, extra, opened, restart="same", place=PLACES[0], sibling=None):
    d = os.path.join(F.root, place[0])
    name = place[1]
    cur_path = os.path.join(d, name)
    away_dir = os.path.join(F.root, "taken-by-the-tool")
    sname = sibling[0] if sibling else None
    took = []       # paths of the files the external tool took in this execution, in the order taken

    def wipe():
        F.reboot()
        del took[:]
        for dd in (d, away_dir):
            if os.path.isdir(dd):
                for n in os.listdir(dd):
                    os.remove(os.path.join(dd, n))
            else:
                os.mkdir(dd)

    def read(path):
        with open(path, "rb") as f:
            return f.read()

    def numbered(prefix, names):
        """identifiers k of the entries <prefix>.<k>; any other <prefix>.<suffix> entry is reported"""
        nums = []
        for n in names:
            suf = n[len(prefix) + 1:]
            sim.check("rotated-name-numeric", suf.isdigit() and int(suf) > 0, "", "unexpected file %r" % n)
            nums.append(int(suf))
        nums.sort(reverse=True)
        return nums

    def files():
        """(numbers of rotated files sorted high..low, their contents oldest first, content of the current file, contents of
        the files the external tool took in the order taken)"""
        mine, sibs = [], []
        taken_here = [os.path.basename(t) for t in took if os.path.dirname(t) == d]
        for n in os.listdir(d):
            if n in taken_here:
                continue
            if sname is not None and (n == sname or n.startswith(sname + ".")):
                sibs.append(n)
            elif n.startswith(name + "."):
                mine.append(n)
            else:
                sim.check("no-stray-file", n == name, "", "unexpected file %r" % n)
        nums = numbered(name, mine)
        parts = [read("%s.%d" % (cur_path, k)) for k in nums]
        cur = read(cur_path) if os.path.exists(cur_path) else b""
        return nums, parts, cur, [read(t) for t in took]

    def sibling_files():
        names = [n for n in os.listdir(d) if n.startswith(sname + ".")]
        nums = numbered(sname, names)
        sp = os.path.join(d, sname)
        return nums, b"".join(read("%s.%d" % (sp, k)) for k in nums) + (read(sp) if os.path.exists(sp) else b"")

    class Runner:
        size_wit = "auto"

        def __init__(self, check):
            self.check = check
            self.stream = b""          # everything whose write() completed
            self.auto_rotations = 0
            self.rotations = 0
            self.in_write = False
            self.lf = None
            self.readers = []          # [LogReader, may still be short of the end of its file]
            # configuration of the LogFile at hand (op "reconfig" replaces it)
            self.rot = rot
            self.keep = keep
            # model of the retention rule, from the statement and the constructor's documentation ("max number of log
            # files the class creates ... it removes all log files above this number"): a rotation that completes under a
            # retention count N leaves min(N, before + 1) rotated files, whatever an earlier configuration left behind;
            # without one it leaves before + 1.  Exact while nothing fails; an upper bound once a rotation was cut short.
            self.bound = 0
            self.lossy = keep is not None     # a retention count is or was configured: old data may be gone by design
            # external-tool family: the tool has renamed the current file away and nothing has opened the path since
            self.away = False
            self.refusals = 0          # rotations attempted in that state
            # neighbourhood family: the second log of the directory
            self.sib = None
            self.sstream = b""
            self.construct()
            if sibling:
                self.construct_sibling()

        def construct(self):
            self.away = False          # whatever comes of it, the path is opened (created if need be) from here on
            self.lf = self._wrap(logfile.LogFile(name, d, rotateLength=self.rot, maxRotatedFiles=self.keep))

        def construct_sibling(self):
            self.sib = logfile.LogFile(sname, d, rotateLength=sibling[1])

        def _wrap(self, lf):
            real = lf.rotate

            def rotate():
                if self.in_write:
                    self.auto_rotations += 1
                    sim.probe("auto_rotation")
                    if self.check and os.path.exists(cur_path):
                        size = os.path.getsize(cur_path)
                        sim.check("rotated-file-at-least-rotateLength", size >= self.rot, self.size_wit,
                                  "size-triggered rotation of a %d-byte file with rotateLength=%d" % (size, self.rot))
                self.rotations += 1
                if self.readers:
                    sim.probe("rotation_with_live_reader")
                before = self.bound
                if self.away:
                    # there is no current file at the path: whatever the rotation does, it cannot produce a rotated file, and
                    # the retained ones are still the newest there are
                    self.refusals += 1
                    sim.probe("rotation_attempted_while_current_file_moved_away")
                    if before:
                        sim.probe("rotation_attempted_while_moved_away_with_rotated_files")
                    after = before
                elif self.keep is None:
                    after = before + 1
                else:
                    after = min(_most(self.keep), before + 1)
                    if before > self.keep:
                        sim.probe("rotation_starts_with_more_files_than_retention")
                    if self.keep == 0:
                        sim.probe("rotation_under_retention_count_zero")
                self.bound = max(before, after)      # while it is under way (and if it is cut short)
                r = real()
                self.bound = after
                return r

            lf.rotate = rotate
            return lf

        def apply(self, op):
            kind, data = op
            lf = self.lf
            if kind in WRITES:
                if self.readers:
                    sim.probe("write_with_live_reader")
                    if any(e[1] for e in self.readers):
                        sim.probe("write_with_unfinished_reader")
                self.in_write = True
                try:
                    lf.write(data)
                finally:
                    self.in_write = False
                self.completed(_enc(data))
            elif kind in READER_OPS:
                self.browse(kind, data)
            elif kind == "swrite":
                self.sib.write(data)
                self.sstream += data
            elif kind == "extmove":
                self.take(data)
            elif kind == "rotate":
                lf.rotate()
            elif kind == "reopen":
                if self.away:
                    sim.probe("reopen_after_external_move")
                self.away = False
                lf.reopen()
            elif kind == "reconfig":
                lf.close()
                if (data[0], data[1] or self.rot) != (self.keep, self.rot):
                    sim.probe("reconstructed_with_other_config")
                    if data[0] is not None and self.bound > data[0]:
                        sim.probe("retention_lowered_below_files_present")
                    if data[1] and data[1] < self.rot:
                        sim.probe("rotateLength_lowered")
                self.keep = data[0]
                self.rot = data[1] or self.rot
                self.lossy = self.lossy or self.keep is not None
                self.construct()
            else:
                lf.close()
                self.construct()

        def take(self, where):
            """The external tool (another process) renames the current file away; the LogFile is not told."""
            if not os.path.exists(cur_path):
                sim.probe("external_move_found_no_file")
                return
            k = len(took) + 1
            dest = {"out": os.path.join(away_dir, "T%d" % k),
                    "dash-date": "%s-2026092%d" % (cur_path, k),
                    "dot-date": "%s.2026-09-2%d" % (cur_path, k)}[where]
            os.rename(cur_path, dest)
            took.append(dest)
            self.away = True
            sim.probe("external_move")
            if self.bound:
                sim.probe("external_move_with_rotated_files")

        def browse(self, kind, arg):
            """Reader operations.  The statement says nothing about what a reader returns or whether it may raise (LogReader
            decodes with the locale's codec, so it does raise on some of the byte writes): no verdict on the reader itself -
            what is checked is that the WRITTEN data stays what the statement says while readers exist and are used."""
            try:
                if kind == "ropen":
                    have = sorted(int(n[len(name) + 1:]) for n in os.listdir(d) if n.startswith(name + ".") and n[len(name) + 1:].isdigit())
                    if arg and have:
                        rd = self.lf.getLog(have[min(arg, len(have)) - 1])
                        sim.probe("reader_of_rotated_file")
                    else:
                        big = os.path.exists(cur_path) and os.path.getsize(cur_path) > 8192
                        rd = self.lf.getCurrentLog()
                        sim.probe("reader_of_current_file")
                        if big:
                            sim.probe("reader_of_current_file_beyond_one_read_buffer")
                    opened.append(rd)
                    self.readers.append([rd, True])
                elif not self.readers:
                    return
                elif kind == "rread":
                    ent = self.readers[arg[0] % len(self.readers)]
                    if arg[1]:
                        ent[1] = True      # until the answer is in
                        got = ent[0].readLines(arg[1])
                        ent[1] = len(got) >= arg[1]
                        sim.probe("reader_stopped_before_end" if ent[1] else "reader_read_to_end")
                else:
                    ent = self.readers.pop(arg % len(self.readers))
                    sim.probe("reader_closed_midway")
                    ent[0].close()
            except (Violation, StepLimit):
                raise
            except Exception:
                # seen on the unchanged tree: UnicodeDecodeError from readLines() (byte writes that are not UTF-8), FileNotFoundError
                # from getCurrentLog() while a failed rotation has left no current file
                sim.probe("reader_op_raised")

        def close_readers(self):
            while self.readers:
                try:
                    self.readers.pop()[0].close()
                except Exception:
                    pass

        def completed(self, data):
            self.stream += data

        def cap(self):
            """most rotated files the statement allows right now (None: no retention count has been configured yet)"""
            return self.bound if self.lossy else None

        def floor(self):
            """fewest rotated files the statement allows in a fault-free execution: the statement does not say WHEN the files
            beyond a newly configured, smaller retention count go (the unchanged code: at the next rotation), so between
            that reconfiguration and the first rotation after it anything from the new count up to what was there is accepted"""
            return self.bound if self.keep is None else min(self.keep, self.bound)

        def close_all(self):
            self.close_readers()
            self.lf.close()
            if self.sib is not None:
                self.sib.close()

    def oracle(full_lo, full_hi_stream, wit, ctx, strict_no_loss, expect_rotated=None, at_most=None, lossy=True, numbering=True):
        """Concatenation must equal stream[s:e] with len(full_lo) <= e <= len(full_hi_stream) - i.e. it
        ends inside the (possibly torn) last write - and s == 0 when nothing may be lost.  Concatenation = rotated files oldest
        first, the files an external tool took merged in where they fit, then the current file."""
        nums, parts, cur, tk = files()
        hi = full_hi_stream
        ok = False
        s_found = None
        allb = None
        for cand in _merges(parts, tk, lossy):
            cand += cur
            if allb is None:
                allb = cand
            for e in range(len(full_lo), len(hi) + 1):
                if len(cand) <= e and hi[e - len(cand):e] == cand:
                    if not ok or e - len(cand) == 0:
                        ok, s_found, allb = True, e - len(cand), cand
                    break
            if ok and (s_found == 0 or not strict_no_loss):
                break
        sim.check("contiguous-suffix", ok, wit,
                  lambda: "%s files %s+current%s hold %d bytes that are not a contiguous piece of the written stream ending at the last write (stream %d bytes): %r"
                  % (ctx, nums, " with the %d taken by the external tool" % len(tk) if tk else "", len(allb), len(full_lo), allb[-60:]))
        if strict_no_loss:
            sim.check("nothing-lost-without-retention", s_found == 0, wit, "%s %d leading bytes lost (no retention count configured); rotated=%s" % (ctx, s_found, nums))
        if at_most is not None:
            sim.check("at-most-N-rotated", len(nums) <= at_most, wit, "%s %d rotated files kept where the retention counts in force allow at most %d: %s" % (ctx, len(nums), at_most, nums))
        if expect_rotated is not None:
            lo, hi_n = expect_rotated
            sim.check("exactly-newest-N-kept", lo <= len(nums) <= hi_n and (not numbering or nums == list(range(len(nums), 0, -1))), wit,
                      "%s rotated files %s, expected exactly the %s newest" % (ctx, nums, lo if lo == hi_n else "%d..%d" % (lo, hi_n)))
        return nums

    # ---- crash-free pass
    wipe()
    F.arm()
    with sim.guard("crash-free-raised"):
        R = Runner(True)
        marks = []  # F.n after each op
        for j, op in enumerate(ops):
            R.apply(op)
            marks.append(F.n)
            # (numbering 1..k is not demanded once a rotation was attempted while the current file was away: the statement speaks
            # about which files are kept, and the unchanged code's refusal is only one way of keeping them)
            oracle(R.stream, R.stream, "crash-free", "after op %d (%s):" % (j, op[0]), not R.lossy, expect_rotated=(R.floor(), R.bound), at_most=R.cap(),
                   lossy=R.lossy, numbering=not R.refusals)
            if sibling:
                snums, sall = sibling_files()
                sim.check("neighbour-log-intact", sall == R.sstream, "crash-free",
                          lambda: "after op %d (%s): the second log of the directory (%r, files %s) holds %d bytes, %d were written to it" % (j, op[0], sname, snums, len(sall), len(R.sstream)))
    plan = list(F.log)
    total_auto = R.auto_rotations
    refusals = R.refusals
    sim.event("points", len(plan), "auto_rotations", total_auto)
    R.close_all()
    crash_in_rotate = 0
    for (n, opname, rel, size) in plan:
        j = next(i for i, m in enumerate(marks) if n <= m)
        torns = [0]
        if opname == "write" and size:
            torns = [t for t in sorted(set([0, 1, size // 2, size - 1])) if 0 <= t < size]
        for torn in torns:
            wipe()
            F.arm(crash_at=n, torn=torn)
            Rc = None
            done = b""
            pending = b""
            try:
                Rc = Runner(False)
                for i, op in enumerate(ops):
                    pending = _enc(op[1]) if op[0] in WRITES else b""
                    Rc.apply(op)
                    done = Rc.stream
                    pending = b""
                sim.fail("crash-fired", "", "crash point %d did not fire" % n)
            except simfs.SimCrash:
                pass
            # configuration and retention model at the moment of death (the very first constructor call may be the one that dies)
            c_rot, c_keep, c_lossy, c_cap = rot, keep, keep is not None, (0 if keep is not None else None)
            if Rc is not None:
                Rc.close_readers()     # the process is gone, and its descriptors with it
                c_rot, c_keep, c_lossy, c_cap = Rc.rot, Rc.keep, Rc.lossy, Rc.cap()
            sim.fault("crash@" + opname)
            if torn:
                sim.fault("torn_write")
            if opname in ("rename", "remove"):
                crash_in_rotate += 1
            F.reboot()
            wit = "%s@%s" % (ops[j][0], opname)
            ctx = "crash at point %d/%d (%s %s torn=%d) in op %d:" % (n, len(plan), opname, rel, torn, j)
            oracle(done, done + pending, wit, ctx, not c_lossy, at_most=c_cap, lossy=c_lossy)
            # the restarted process reconstructs the log - with the configuration it died with, or with another retention
            # count - and keeps writing
            F.arm()
            nums, parts, cur, _ = files()
            on_disk = b"".join(parts) + cur
            keep2 = c_keep if restart == "same" else restart
            if keep2 != c_keep:
                sim.probe("restart_with_other_retention")
                if keep2 is not None and len(nums) > keep2:
                    sim.probe("restart_retention_below_files_present")
            rotated2 = []
            with sim.guard("reconstruct-raised", wit):
                lf2 = logfile.LogFile(name, d, rotateLength=c_rot, maxRotatedFiles=keep2)
                real2 = lf2.rotate

                def rotate2():
                    r = real2()
                    rotated2.append(1)
                    return r

                lf2.rotate = rotate2
                more = b""
                for _, data in extra:
                    lf2.write(data)
                    more += data
                lf2.close()
            # stream as the disk saw it: whatever survived, then the new writes
            nums2, parts2, cur2, _ = files()
            all2 = b"".join(parts2) + cur2
            whole = on_disk + more
            sim.check("post-crash-contiguous", whole.endswith(all2) and (keep2 is not None or all2 == whole), wit,
                      lambda: "%s after reconstruction and %d more bytes the files hold %d bytes, not a suffix of survived+new (%d bytes); rotated=%s"
                      % (ctx, len(more), len(all2), len(whole), nums2))
            if keep2 is not None and rotated2:
                # a rotation completed under retention count keep2: whatever the dead process left (gaps in the numbering,
                # more files than keep2), no more than keep2 rotated files remain
                sim.probe("post_crash_rotation_under_retention")
                sim.check("at-most-N-rotated", len(nums2) <= _most(keep2), wit + "+restart",
                          "%s after reconstruction with maxRotatedFiles=%s and %d rotation(s) there are %d rotated files: %s" % (ctx, keep2, len(rotated2), len(nums2), nums2))
            sim.step(1000000)
    # ---- errno family: ONE interposed call of the history fails with an OSError instead of killing the process.  The
    # application sees a normal return or the exception, reacts (tape: carry on with the same object / close and
    # reconstruct / retry the write) and keeps writing.  Oracle = the statement's, checked after every operation from the
    # fault on: the files are a contiguous, ordered suffix of what was written, where only a write that RAISED may be
    # absent (or cut short); without a retention count no acknowledged byte is missing.
    class App(Runner):
        size_wit = "errno"

        def __init__(self, wit):
            self.wit = wit
            self.segs = []             # (bytes, completed) in write order
            self.suspect = False       # an operation on the current LogFile object has raised
            self.sib_suspect = False   # likewise for the second log of the directory
            self.raised = 0
            Runner.__init__(self, True)

        def fired(self):
            return F.crashed_op is not None

        def completed(self, data):
            self.segs.append((data, True))

        def construct(self):
            f0 = self.fired()
            try:
                Runner.construct(self)
            except (Violation, StepLimit):
                raise
            except Exception as e:
                sim.check("errno-unfaulted-op-raised", self.fired() and not f0, self.wit,
                          lambda: "LogFile() raised %s: %s although no fault was injected into it" % (type(e).__name__, e))
                sim.probe("errno_constructor_raised")
                # the fault is one-shot: the application simply tries again
                with sim.guard("errno-unfaulted-op-raised", self.wit):
                    Runner.construct(self)
            self.suspect = False

        def construct_sibling(self):
            f0 = self.fired()
            try:
                Runner.construct_sibling(self)
            except (Violation, StepLimit):
                raise
            except Exception as e:
                sim.check("errno-unfaulted-op-raised", self.fired() and not f0, self.wit,
                          lambda: "LogFile() of the second log raised %s: %s although no fault was injected into it" % (type(e).__name__, e))
                sim.probe("errno_sibling_constructor_raised")
                with sim.guard("errno-unfaulted-op-raised", self.wit):
                    Runner.construct_sibling(self)
            self.sib_suspect = False

        def attempt(self, op, retried=False):
            kind, data = op
            f0 = self.fired()
            try:
                Runner.apply(self, op)
                if self.fired() and not f0:
                    sim.probe("errno_op_returned_normally")
                return
            except (Violation, StepLimit):
                raise
            except Exception as e:
                hit = self.fired() and not f0
                sim.check("errno-unfaulted-op-raised", hit or (self.sib_suspect if kind == "swrite" else self.suspect), self.wit,
                          lambda: "%s raised %s: %s on a LogFile no operation of which had failed before, with no fault injected into it"
                          % (kind, type(e).__name__, e))
                sim.probe("errno_op_raised" if hit else "errno_later_op_raised")
                sim.event("raised", kind, type(e).__name__)
            self.raised += 1
            if kind == "swrite":
                # the second log's own trouble: its application carries on with it or replaces it
                self.sib_suspect = True
                if sim.draw_bool(0.5, "sibling-reaction"):
                    sim.probe("errno_app_reconstructs_sibling")
                    try:
                        self.sib.close()
                    except (Violation, StepLimit):
                        raise
                    except Exception:
                        pass
                    self.construct_sibling()
                return
            self.suspect = True
            if kind in WRITES:
                self.segs.append((_enc(data), False))
            react = sim.draw_choice(REACTIONS, "reaction")
            if kind == "reconstruct":
                react = "reconstruct"      # the object at hand is closed: nothing else to do
            if react.startswith("reconstruct"):
                sim.probe("errno_app_reconstructs")
                try:
                    self.lf.close()
                except (Violation, StepLimit):
                    raise
                except Exception:
                    pass
                self.construct()
            if react.endswith("retry") and kind in WRITES and not retried:
                sim.probe("errno_app_retries_write")
                self.attempt(op, True)

    def errno_oracle(app, ctx):
        nums, parts, cur, tk = files()
        allb = None
        lost = None
        for cand in _merges(parts, tk, app.lossy):
            cand += cur
            r = _match(app.segs, cand)
            if allb is None or (r is not None and (lost is None or r < lost)):
                allb, lost = cand, r
            if lost == 0 or (lost is not None and app.lossy):
                break
        sim.check("contiguous-suffix", lost is not None, app.wit,
                  lambda: "%s files %s+current hold %d bytes that are not a contiguous, ordered piece of the written stream (%d writes, %d of them raised): %r"
                  % (ctx, nums, len(allb), len(app.segs), sum(1 for _, c in app.segs if not c), allb[-80:]))
        if not app.lossy:
            sim.check("nothing-lost-without-retention", lost == 0, app.wit,
                      "%s %d bytes of writes that returned normally are missing (no rotation under a retention count so far); rotated=%s" % (ctx, lost, nums))
        if app.cap() is not None:
            sim.check("at-most-N-rotated", len(nums) <= app.cap(), app.wit,
                      "%s %d rotated files kept where the retention counts in force allow at most %d (now maxRotatedFiles=%s): %s" % (ctx, len(nums), app.cap(), app.keep, nums))
        if nums != list(range(len(nums), 0, -1)):
            sim.probe("errno_gap_in_numbering")

    errno_in_rotate = 0
    for (n, opname, rel, size) in plan:
        j = next(i for i, m in enumerate(marks) if n <= m)
        cls = "open" if opname.startswith("open") else opname
        err = sim.draw_choice(ERRNOS[cls], "errno")
        wit = "errno:%s@%s" % (ops[j][0], opname)
        ctx0 = "%s at point %d/%d (%s %s) in op %d:" % (errno.errorcode[err], n, len(plan), opname, rel, j)
        wipe()
        F.arm(errno_at=n, err=err)
        app = App(wit)
        seen = None
        for i, op in enumerate(ops + extra):
            app.attempt(op)
            # from the fault on, look at the directory after every operation that can have changed more than the tail of the
            # current file (a rotation was entered, the operation raised, the application reconstructed); a plain append
            # in between is covered by the next look
            now = (app.rotations, app.raised)
            if app.fired() and now != seen:
                seen = now
                errno_oracle(app, "%s after op %d (%s):" % (ctx0, i, op[0]))
        sim.check("crash-fired", app.fired(), "errno", "fault point %d did not fire" % n)
        sim.fault("errno@" + cls)
        if opname in ("rename", "remove"):
            errno_in_rotate += 1
        app.close_readers()
        try:
            app.lf.close()
        except (Violation, StepLimit):
            raise
        except Exception as e:
            # (a reopen() whose open failed leaves the object closed and without a file: its close() raises AttributeError)
            sim.check("errno-unfaulted-op-raised", app.suspect, wit, lambda: "close() raised %s: %s on a LogFile no operation of which had failed" % (type(e).__name__, e))
            sim.probe("errno_final_close_raised")
        if app.sib is not None:
            try:
                app.sib.close()
            except (Violation, StepLimit):
                raise
            except Exception as e:
                sim.check("errno-unfaulted-op-raised", app.sib_suspect, wit, lambda: "close() of the second log raised %s: %s" % (type(e).__name__, e))
        errno_oracle(app, "%s after the final close:" % ctx0)
        sim.step(1000000)
    if refusals:
        sim.probe("history_with_rotation_attempt_while_moved_away")
    sim.nontrivial = total_auto > 0 and crash_in_rotate > 0 and errno_in_rotate > 0
    sim.state((rot, keep, min(total_auto, 3)))


MUTANTS = [
    "seeded C53-r6a-rotate-checks-current-file-after-shifting (rotate() tests os.access(self.path) only after the shift/prune loop) -> first MISSED (the current file was never away from "
    "its path, so no rotation was ever refused); caught after the external-tool family: exactly-newest-N-kept:crash-free (quick, run ~30)",
    "seeded C53-r6b-retention-count-zero-treated-as-unlimited ('keep and i >= keep') -> first MISSED (retention count 0 was never drawn); caught after 0 joined the drawn counts "
    "(constructor, reconfig, restart): at-most-N-rotated:crash-free, at-most-N-rotated:w*@write+restart (quick, run 1)",
    "rotate(): refusal guard removed / reduced to the directory test -> crash-free-raised:FileNotFoundError, errno-unfaulted-op-raised:errno:reopen@open(w+) (external-tool family)",
    "reopen(): returns without re-opening when the path is gone -> exactly-newest-N-kept:crash-free (external-tool family)",
    "listLogs(): glob '%s*' instead of '%s.*' (near-miss neighbours counted) -> crash-free-raised:FileNotFoundError, reconstruct-raised:swrite@open(w+):FileNotFoundError (neighbourhood family)",
    "GENUINE DEFECT of the tree as first examined, REPAIRED in /repo 8fe469f (precondition let into GLOB_NAME_P = 0.2 of the runs; 0 only for dev-time comparison): "
    "listLogs() passed the path to glob.glob() unescaped: LogFile('app.log', '.../logs[prod]', rotateLength=4), "
    "five writes of 7 bytes -> only app.log.1 and app.log remain, 21 bytes lost without a retention count (every rotation renames the current file over .1). With the knob at 0.2: "
    "nothing-lost-without-retention:crash-free / exactly-newest-N-kept:crash-free / post-crash-contiguous:w*@write. Repair: glob.glob('%s.*' % glob.escape(self.path))",
    "GENUINE DEFECT of the tree as first examined, REPAIRED in /repo 8fe469f (precondition let into SIBLING_PREFIX_P = 0.4 of the sibling runs; 0 only for dev-time comparison): "
    "listLogs() took the last dot-separated component of every '<path>.*' match as an identifier: with "
    "access.log and access.log.ssl in one directory, access.log.ssl.1 counted as rotated file 1 of access.log and rotate() raised FileNotFoundError (rename access.log.1 -> .2) from every "
    "write once a rotation was due. With the knob at 0.5: crash-free-raised:FileNotFoundError, reconstruct-raised:swrite@open(w+):FileNotFoundError. Repair: "
    "int(name[len(self.path) + 1:]) instead of int(name.split('.')[-1]). With both repairs and both knobs raised the check passes",
    "OBSERVATION (unchanged tree; ZERO_RETENTION_STRICT = False accepts it) maxRotatedFiles=0 keeps one rotated file (the one just rotated is never pruned); strict: "
    "at-most-N-rotated:crash-free. Candidate fix: rotate() removes the current file instead of renaming it to .1 when maxRotatedFiles == 0 (check passes strict with it)",
    "seeded C53-r5b-retention-prunes-one-per-rotation (rotate() removes only the single oldest file when the count has reached the limit) -> first MISSED (every history kept one "
    "configuration, so the directory never held more rotated files than the retention count); caught after the reconfiguration family: at-most-N-rotated:crash-free, "
    "at-most-N-rotated:w*@open(w+)+restart (quick, run ~40)",
    "rotate(): 'i >= self.maxRotatedFiles' -> 'i == self.maxRotatedFiles' (files beyond the limit are shifted up instead of removed; same as the original from an empty directory) -> "
    "caught through the reconfiguration family: contiguous-suffix:crash-free, post-crash-contiguous:w*@rename",
    "seeded C53-r3-rotate-swallows-oserror (shift loop body in try/except OSError: continue) -> caught: contiguous-suffix:errno:wbytes@rename, nothing-lost-without-retention:errno:w*@rename (quick, run 0)",
    "rotate(): shift loop body in try/except PermissionError: break (only EACCES/EPERM swallowed, current file then renamed over log.1) -> caught: contiguous-suffix:errno:wbytes@rename / @remove",
    "BaseLogFile.write: self._file.write(data) in try/except OSError: pass (write error swallowed) -> caught: contiguous-suffix:errno:w*@write, nothing-lost-without-retention:errno:wtext@write",
    "rotate(): final self._openFile() in try/except OSError: pass (rotate returns normally with a closed file) -> caught: errno-unfaulted-op-raised:errno:rotate@open(w+)",
    "LogFile.write: self.size += len(data) moved before BaseLogFile.write -> caught: rotated-file-at-least-rotateLength:auto / :errno",
    "seeded C53-r4b-currentlog-reader-shares-offset (getCurrentLog() reads through os.dup() of the log's own descriptor, rewound: reader and writer share the file offset) -> caught: "
    "contiguous-suffix:crash-free, nothing-lost-without-retention:crash-free, nothing-lost-without-retention:errno:wtext@open(w+) (quick, run 5)",
    "same, but the reader also consumes its first line at once (offset ends at EOF in a small file, at 8192 in a big one) -> caught only through the bulk runs: "
    "contiguous-suffix:crash-free, rotated-file-at-least-rotateLength:errno (quick, run 21)",
    "seeded C53-listlogs-text-sort, C53-r2-listlogs-name-sort -> still caught (post-crash-contiguous:w*@rename; now also nothing-lost-without-retention:errno:wbytes@rename)",
]
