"""C53 — rotating log files lose and reorder nothing.

Engine E6 (fs).  A tape-drawn history of text/bytes writes, explicit rotate(),
reopen() and close+reconstruct on a real LogFile with small rotation length and
optional retention runs in a scratch directory; crash-free it is checked after
every operation, then EVERY crash point of the history (each interposed call,
torn lengths for each write) is enumerated, followed by reconstruction and
further writes.  Oracle: rotated files (oldest first) + current file form a
contiguous piece of the written stream.
"""
import os

from twisted.python import logfile

from detsim import fs as simfs

ID = "C53"
ENGINE = "fs"
LEVEL = "fault_enumeration"
TECHNIQUE = "deterministic simulation: crash at every interposed filesystem call (+ torn writes) of seeded LogFile histories, contiguous-suffix oracle"
QUICK_RUNS = 3000
BATCH = 10
COMPONENTS = {"real": ["twisted.python.logfile.LogFile/BaseLogFile (write, rotate, reopen, close, listLogs, _openFile)", "the real filesystem under a scratch directory (reads)"],
              "stub": ["process/kernel boundary for mutating calls (detsim.fs interposer: crash points, torn writes)"]}
RULE = ("run = one tape-drawn history of 2..14 operations (write bytes / write multi-byte text / rotate / reopen / close+reconstruct) with rotateLength 4..80 and "
        "maxRotatedFiles in {None,1,2,3}; checked crash-free after every op, then every crash point and torn-write length is enumerated, each followed by reconstruction "
        "and 2 more writes; non-trivial = at least one automatic rotation happened and a crash landed inside rotate()")
ASSUMPTIONS = ["process crash (not power loss); rename() atomic; log file opened unbuffered as LogFile does, so each write() is one kernel write",
               "the 'at least the rotation length when rotated' clause is evaluated for automatic (size-triggered) rotations only; an explicit rotate() may rotate a shorter file by design"]
LEVEL_TEXT = "Exhaustive enumeration of crash points (incl. torn writes) for each sampled history; histories sampled by seed."

TEXT_ALPHABET = ["a", "b", "é", "€", "\U0001f600", "\n", "z"]


def run(sim):
    rot = sim.draw_choice([10, 4, 25, 80], "rotateLength")
    keep = sim.draw_choice([None, None, 1, 2, 3], "maxRotatedFiles")
    nops = sim.draw_int(2, 14, "nops")
    ops = []
    ctr = 0
    for _ in range(nops):
        kind = sim.draw_weighted([("wbytes", 5), ("wtext", 4), ("rotate", 1), ("reopen", 1), ("reconstruct", 1)], "op")
        if kind in ("wbytes", "wtext"):
            ctr += 1
            n = sim.draw_choice([2, 0, 7, 15, 40], "len")
            if kind == "wbytes":
                data = (b"<%d>" % ctr) + bytes(sim.draw_bytes(n, b"xyz\n\xc3"))
            else:
                data = "[%d]" % ctr + "".join(TEXT_ALPHABET[i % len(TEXT_ALPHABET)] for i in sim.draw_bytes(n, bytes(range(len(TEXT_ALPHABET)))))
            ops.append((kind, data))
        else:
            ops.append((kind, None))
    extra = [("wbytes", b"{after-crash-%d}" % i + b"p" * sim.draw_int(0, 30, "pad")) for i in range(2)]
    sim.config = {"rotateLength": rot, "maxRotatedFiles": keep, "ops": [k for k, _ in ops]}
    sim.event("history", rot, keep, " ".join(k if d is None else "%s%d" % (k, len(d)) for k, d in ops))
    F = simfs.FS(sim)
    try:
        with simfs.Installed(F, [(logfile, "os", "os"), (logfile, "open", "open")]):
            _enumerate(sim, F, rot, keep, ops, extra)
    finally:
        F.destroy()


def _enc(d):
    return d.encode("utf8") if isinstance(d, str) else d


def _enumerate(sim, F, rot, keep, ops, extra):
    d = os.path.join(F.root, "logs")

    def wipe():
        F.reboot()
        if os.path.isdir(d):
            for n in os.listdir(d):
                os.remove(os.path.join(d, n))
        else:
            os.mkdir(d)

    def make():
        return logfile.LogFile("app.log", d, rotateLength=rot, maxRotatedFiles=keep)

    def files():
        """(numbers of rotated files sorted high..low, concatenation oldest-first incl. current)"""
        nums = []
        for n in os.listdir(d):
            if n.startswith("app.log."):
                suf = n[len("app.log."):]
                sim.check("rotated-name-numeric", suf.isdigit() and int(suf) > 0, "", "unexpected file %r" % n)
                nums.append(int(suf))
            else:
                sim.check("no-stray-file", n == "app.log", "", "unexpected file %r" % n)
        nums.sort(reverse=True)
        parts = []
        for k in nums:
            with open(os.path.join(d, "app.log.%d" % k), "rb") as f:
                parts.append(f.read())
        cur = b""
        if os.path.exists(os.path.join(d, "app.log")):
            with open(os.path.join(d, "app.log"), "rb") as f:
                cur = f.read()
        return nums, parts, cur

    class Runner:
        def __init__(self, check):
            self.check = check
            self.stream = b""          # everything whose write() completed
            self.auto_rotations = 0
            self.rotations = 0
            self.in_write = False
            self.lf = self._wrap(make())

        def _wrap(self, lf):
            real = lf.rotate

            def rotate():
                if self.in_write:
                    self.auto_rotations += 1
                    sim.probe("auto_rotation")
                    if self.check:
                        size = os.path.getsize(os.path.join(d, "app.log"))
                        sim.check("rotated-file-at-least-rotateLength", size >= rot, "auto",
                                  "size-triggered rotation of a %d-byte file with rotateLength=%d" % (size, rot))
                self.rotations += 1
                return real()

            lf.rotate = rotate
            return lf

        def apply(self, op):
            kind, data = op
            lf = self.lf
            if kind in ("wbytes", "wtext"):
                self.in_write = True
                try:
                    lf.write(data)
                finally:
                    self.in_write = False
                self.stream += _enc(data)
            elif kind == "rotate":
                lf.rotate()
            elif kind == "reopen":
                lf.reopen()
            else:
                lf.close()
                self.lf = self._wrap(make())

    def oracle(full_lo, full_hi_stream, wit, ctx, strict_no_loss, expect_rotated=None):
        """Concatenation must equal stream[s:e] with len(full_lo) <= e <= len(full_hi_stream) — i.e. it
        ends inside the (possibly torn) last write — and s == 0 when nothing may be lost."""
        nums, parts, cur = files()
        allb = b"".join(parts) + cur
        hi = full_hi_stream
        ok = False
        s_found = None
        for e in range(len(full_lo), len(hi) + 1):
            if len(allb) <= e and hi[e - len(allb):e] == allb:
                ok = True
                s_found = e - len(allb)
                break
        sim.check("contiguous-suffix", ok, wit,
                  lambda: "%s files %s+current hold %d bytes that are not a contiguous piece of the written stream ending at the last write (stream %d bytes): %r"
                  % (ctx, nums, len(allb), len(full_lo), allb[-60:]))
        if strict_no_loss:
            sim.check("nothing-lost-without-retention", s_found == 0, wit, "%s %d leading bytes lost (no retention count configured); rotated=%s" % (ctx, s_found, nums))
        if keep is not None:
            sim.check("at-most-N-rotated", len(nums) <= keep, wit, "%s %d rotated files kept with maxRotatedFiles=%d: %s" % (ctx, len(nums), keep, nums))
        if expect_rotated is not None:
            sim.check("exactly-newest-N-kept", len(nums) == expect_rotated and nums == list(range(expect_rotated, 0, -1)), wit,
                      "%s rotated files %s, expected exactly %d newest" % (ctx, nums, expect_rotated))
        return nums

    # ---- crash-free pass
    wipe()
    F.arm()
    with sim.guard("crash-free-raised"):
        R = Runner(True)
        marks = []  # F.n after each op
        for j, op in enumerate(ops):
            R.apply(op)
            marks.append(F.n)
            exp = R.rotations if keep is None else min(keep, R.rotations)
            oracle(R.stream, R.stream, "crash-free", "after op %d (%s):" % (j, op[0]), keep is None, expect_rotated=exp)
    plan = list(F.log)
    total_auto = R.auto_rotations
    sim.event("points", len(plan), "auto_rotations", total_auto)
    R.lf.close()
    crash_in_rotate = 0
    for (n, opname, rel, size) in plan:
        j = next(i for i, m in enumerate(marks) if n <= m)
        torns = [0]
        if opname == "write" and size:
            torns = [t for t in sorted(set([0, 1, size // 2, size - 1])) if 0 <= t < size]
        for torn in torns:
            wipe()
            F.arm(crash_at=n, torn=torn)
            Rc = None
            done = b""
            pending = b""
            try:
                Rc = Runner(False)
                for i, op in enumerate(ops):
                    pending = _enc(op[1]) if op[1] is not None else b""
                    Rc.apply(op)
                    done = Rc.stream
                    pending = b""
                sim.fail("crash-fired", "", "crash point %d did not fire" % n)
            except simfs.SimCrash:
                pass
            sim.fault("crash@" + opname)
            if torn:
                sim.fault("torn_write")
            if opname in ("rename", "remove"):
                crash_in_rotate += 1
            F.reboot()
            wit = "%s@%s" % (ops[j][0], opname)
            ctx = "crash at point %d/%d (%s %s torn=%d) in op %d:" % (n, len(plan), opname, rel, torn, j)
            oracle(done, done + pending, wit, ctx, keep is None)
            # the restarted process reconstructs the log and keeps writing
            F.arm()
            nums, parts, cur = files()
            on_disk = b"".join(parts) + cur
            with sim.guard("reconstruct-raised", wit):
                lf2 = logfile.LogFile("app.log", d, rotateLength=rot, maxRotatedFiles=keep)
                more = b""
                for _, data in extra:
                    lf2.write(data)
                    more += data
                lf2.close()
            # stream as the disk saw it: whatever survived, then the new writes
            nums2, parts2, cur2 = files()
            all2 = b"".join(parts2) + cur2
            whole = on_disk + more
            sim.check("post-crash-contiguous", whole.endswith(all2) and (keep is not None or all2 == whole), wit,
                      lambda: "%s after reconstruction and %d more bytes the files hold %d bytes, not a suffix of survived+new (%d bytes); rotated=%s"
                      % (ctx, len(more), len(all2), len(whole), nums2))
            sim.step(1000000)
    sim.nontrivial = total_auto > 0 and crash_in_rotate > 0
    sim.state((rot, keep, min(total_auto, 3)))
