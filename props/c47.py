"""C47 — PROXY protocol headers are parsed regardless of segmentation.

Engine E3 (net).  A real HAProxyWrappingFactory builds a real
HAProxyProtocolWrapper around a recording application protocol on a
SimTransport.  The stream = one PROXY header (v1 text or v2 binary; TCP4/TCP6,
UNIX, UNKNOWN, LOCAL, UNSPEC, with TLVs) built by the independent model
models/proxyproto.py + application bytes, or a stream that does not begin with
a valid header (structural mutations).  It is delivered in tape-chosen pieces:
either a tape-chosen cut inside the header region followed by random cuts of the
rest, or net.cut over the whole stream, or a cut exactly at a message boundary.

The application (and, in half of the runs, a second holder of its transport: a
log line / access check run between deliveries) asks its transport for the peer
and/or host address at tape-chosen moments: in connectionMade, between
deliveries while the header is still incomplete, between deliveries afterwards,
and in every dataReceived.  An invalid stream may be followed by a complete valid
header and more bytes (a sender that is not the trusted proxy tries again); the
transport either stops delivering once a close was requested (plain TCP) or
keeps delivering what had already arrived (TLS, in-memory and stacked
transports).

A small share of the streams are v1 lines whose validity the statement leaves open
(out-of-range or oddly spelled ports, address fields that are no addresses, family
mismatch, trailing fields, lines longer than the specification's 107 bytes): for
those the only demands are a clean acceptance (exactly the bytes after the line
reach the application) or a clean refusal, and the same verdict as when the very
same stream arrives in one delivery at a fresh wrapper.  Valid UNKNOWN lines reach
the 107-byte limit exactly.

Oracle: valid header -> the application receives exactly the application bytes,
once, and every getPeer()/getHost() answer obtained once the whole header has
been delivered is the header's source/destination (the real connection's
endpoints for UNKNOWN/LOCAL/UNSPEC) whatever was asked before, no close request,
no exception; answers obtained before the end of the header get no verdict;
invalid stream -> a close is requested and the application receives no byte of
the stream, neither before nor after the close request.
"""
import ipaddress

from twisted.internet import address
from twisted.internet.protocol import Factory, Protocol
from twisted.protocols.haproxy._wrapper import HAProxyWrappingFactory

from detsim import net
from detsim.sim import Violation
from models import proxyproto as pp

ID = "C47"
ENGINE = "net"
LEVEL = "exploration"
TECHNIQUE = ("deterministic simulation: seeded PROXY v1/v2 header grammar + structural mutations, every header split point "
             "reachable, on a real HAProxyProtocolWrapper vs an independent header model")
QUICK_RUNS = 130000
TWIN_P = 0.08   # this share of the runs drives two independent instances of the scenario one after the other (detsim.runner._run_scenario)
BATCH = 200
# Finding 1 (version decided from the first delivery alone), genuine defect of the tree as first examined, REPAIRED in
# /repo 9245dd3: this fraction of the runs still keeps the first delivery >= 16 (v2) / 8 (v1) bytes (kept for dev-time
# comparison with a tree without the repair); the remaining runs cut anywhere.
AVOID_KNOWN_P = 0.1
# Finding 2 ("PROXY UNKNOWN\r\n" rejected), REPAIRED in /repo 515f838: weight of that header among v1 headers (the others sum to 300).
BARE_UNKNOWN_WEIGHT = 12
# An exception escaping from dataReceived on an invalid header is reported as its own
# clause (invalid-header-raised).  With False it is treated like a close request
# (a real reactor drops a connection whose protocol raises).
STRICT_NO_RAISE = True
# Share of the invalid streams that are followed by a complete valid header + more bytes, and share of the invalid
# streams whose transport keeps delivering after loseConnection() was requested.  Finding 4, genuine defect of the tree as first
# examined, REPAIRED in /repo d9065ac (bytes that followed a refused stream were judged afresh: a valid header starting a later
# delivery was accepted and what followed reached the application) needs both plus a cut exactly in front of the following header;
# the precondition is in the runs with the shares below; FOLLOW_P = 0.0 keeps it out entirely (dev-time comparison only) while
# the keep-delivering transport is still exercised with the other invalid streams.
FOLLOW_P = 0.3
KEEP_DELIVERING_P = 0.25
LEAK_WEIGHT = 10          # weight of each of the two raising inputs (finding 3, REPAIRED in /repo b52cead) among invalid streams (the others sum to 570)
# Share of the non-valid streams that are "unsettled": v1 lines whose validity the statement does not settle (it does not
# say how strict 'valid' is): ports out of range or oddly spelled, address fields that are no addresses, family mismatch,
# trailing fields, lines one byte over the specification's 107.  The oracle demands only what holds under either reading:
# a clean acceptance or a clean refusal, and the SAME verdict as when the stream arrives in one piece.
UNSETTLED_P = 0.15
# Finding 5, repaired in /repo fc40009 (V1Parser.feed applied its length limit only while no CRLF had arrived: a line of
# 109 bytes or more was accepted in one piece and refused when a delivery ended at byte 108 or later of the line):
# weight of such lines among the unsettled streams (the others sum to 100).  12 lets the precondition in; 0 keeps it out
# entirely and is only for dev-time comparison.
OVERLONG_WEIGHT = 12
COMPONENTS = {
    "real": ["twisted.protocols.haproxy._wrapper.HAProxyWrappingFactory/HAProxyProtocolWrapper",
             "twisted.protocols.haproxy._v1parser.V1Parser", "twisted.protocols.haproxy._v2parser.V2Parser",
             "twisted.protocols.policies.ProtocolWrapper"],
    "stub": ["TCP transport and delivery segmentation (detsim.net.SimTransport / cut)", "application protocol (recorder)"],
}
RULE = ("run = one PROXY header (v1/v2; TCP4, TCP6, UNIX, UNKNOWN, LOCAL, UNSPEC; TLVs) or one structurally invalid "
        "header, followed by 0..40 application bytes, delivered in tape-chosen pieces with a cut inside the header "
        "region in about half of the runs; in a quarter of the runs a second connection to the same factory receives an incomplete header, "
        "interleaved with the checked connection's deliveries; the application asks its transport for getPeer()/getHost() "
        "(either, both, in either order) in connectionMade in 40% of the runs and, in half of the runs, between deliveries "
        "(before, inside and after the header region) - every answer obtained after the end of the header is checked; 30% of "
        "the invalid streams are followed by a valid header + bytes and 25% of them run on a transport that keeps delivering "
        "after the close request (all remaining pieces are handed to the wrapper); valid UNKNOWN lines are 15..107 bytes long "
        "(the limit itself in a fifth of them); UNSETTLED_P of the non-valid streams are v1 lines of unsettled validity (port "
        "range/spelling, non-address hosts, family mismatch, trailing field, 108-byte line, and - weight OVERLONG_WEIGHT - "
        "otherwise well-formed lines of 109..200 bytes) judged only for a clean outcome and for the same verdict as the "
        "one-piece delivery of the same stream to a fresh wrapper; non-trivial = the stream was cut at least once")
ASSUMPTIONS = [
    "invalid streams are limited to structural malformations (wrong signature/keyword/version/command/family, missing "
    "fields, short v2 address block, v1 line > 107 bytes that also lacks fields, non-numeric port, non-ASCII address); "
    "out-of-range or signed/underscored/zero-padded ports, non-address text in v1 address fields, a family keyword that "
    "does not match the address syntax, extra fields and otherwise well-formed lines longer than 107 bytes are generated "
    "only as streams of UNSETTLED validity (Twisted accepts them; the statement does not say how strict 'valid' is): no "
    "verdict on accept-or-refuse nor on the addresses shown, only on the cleanliness of the outcome and on its "
    "independence from the segmentation (the property's title; under either reading of 'valid' a verdict that changes "
    "with the cut violates one of the statement's two sentences)",
    "the reference verdict of an unsettled stream is what a fresh wrapper of a fresh factory does with the whole stream "
    "in one delivery (whole == split)",
    "the transport stops delivering once a close has been requested, except in the KEEP_DELIVERING_P share of the invalid "
    "streams: there every remaining piece is still handed to the wrapper (ITransport.loseConnection promises nothing about "
    "the read side; twisted.protocols.tls.TLSMemoryBIOProtocol and the in-memory transports keep delivering) and 'without "
    "passing any of its bytes' is applied to the whole stream",
    "getPeer()/getHost() answers obtained before the last header byte was delivered get no verdict (the statement only "
    "speaks about what the application sees of a received header)",
    "address comparison is semantic (packed IP + port, UNIX path), not textual; the TCP/UDP type tag is not compared",
]


def norm(addr):
    """Twisted address object -> comparable tuple."""
    if isinstance(addr, address.UNIXAddress):
        return ("unix", addr.name)
    if isinstance(addr, (address.IPv4Address, address.IPv6Address)):
        kind = "inet" if isinstance(addr, address.IPv4Address) else "inet6"
        try:
            return (kind, ipaddress.ip_address(addr.host).packed, addr.port)
        except ValueError:
            return (kind, "unparseable:%r" % (addr.host,), addr.port)
    return ("other", repr(addr))


LOOKS = [(), ("peer",), ("host",), ("peer", "host"), ("host", "peer")]


class App(Protocol):
    rec = None
    made_looks = ()       # which addresses connectionMade asks for (a "connection from ..." log line, an access check)
    pos = None            # one-element list: bytes handed to the wrapper so far (the piece being delivered included)

    def look(self, where, which):
        for k in which:
            a = self.transport.getPeer() if k == "peer" else self.transport.getHost()
            self.rec.append(("look", where, k, norm(a), self.pos[0]))

    def connectionMade(self):
        self.rec.append(("made",))
        self.look("made", self.made_looks)

    def dataReceived(self, data):
        self.rec.append(("data", data, norm(self.transport.getPeer()), norm(self.transport.getHost())))

    def connectionLost(self, reason):
        self.rec.append(("lost",))


# ------------------------------------------------------------------ generators

def gen_port(sim):
    return sim.draw_weighted([(sim.draw_int(0, 65535, "port"), 4), (0, 1), (1, 1), (65535, 2), (80, 1)], "portkind")


def gen_ip4(sim):
    return bytes(sim.draw_weighted([(sim.draw_int(0, 255, "oct"), 3), (0, 1), (255, 1), (10, 1)], "octkind") for _ in range(4))


def gen_ip6(sim):
    k = sim.draw_weighted([("rand", 4), ("zero", 1), ("one", 1), ("ones", 1), ("doc", 1), ("sparse", 2)], "ip6kind")
    if k == "zero":
        return bytes(16)
    if k == "one":
        return bytes(15) + b"\x01"
    if k == "ones":
        return b"\xff" * 16
    if k == "doc":
        return ipaddress.ip_address("2001:db8::8a2e:370:7334").packed
    if k == "sparse":
        b = bytearray(16)
        for _ in range(sim.draw_int(1, 3, "nset")):
            b[sim.draw_int(0, 15, "pos")] = sim.draw_int(1, 255, "val")
        return bytes(b)
    return sim.draw_blob(16)


def ip6_text(sim, packed):
    a = ipaddress.IPv6Address(packed)
    form = sim.draw_choice(["compressed", "exploded", "groups"], "ip6form")
    if form == "compressed":
        return a.compressed
    if form == "exploded":
        return a.exploded
    return ":".join("%x" % int.from_bytes(packed[i:i + 2], "big") for i in range(0, 16, 2))


def gen_unix(sim):
    n = sim.draw_weighted([(sim.draw_int(1, 108, "ulen"), 4), (108, 1), (107, 1), (1, 1)], "ulenkind")
    return sim.draw_bytes(min(n, 12), b"/abc.\xe9") + b"x" * max(0, n - 12)


def gen_valid(sim):
    if sim.draw_bool(0.5, "v2"):
        cmd = sim.draw_weighted([(1, 6), (0, 1)], "cmd")
        fam = sim.draw_weighted([(1, 4), (2, 4), (3, 2), (0, 1)], "fam")
        tp = sim.draw_weighted([(1, 8), (2, 1), (0, 1)], "tp")
        d = {"v": 2, "cmd": cmd, "fam": fam, "tp": tp, "sport": gen_port(sim), "dport": gen_port(sim)}
        if fam == 1:
            d["src"], d["dst"] = gen_ip4(sim), gen_ip4(sim)
        elif fam == 2:
            d["src"], d["dst"] = gen_ip6(sim), gen_ip6(sim)
        elif fam == 3:
            d["src"], d["dst"] = gen_unix(sim), gen_unix(sim)
        else:
            d["src"] = d["dst"] = b""
        tlvs = []
        for _ in range(sim.draw_weighted([(0, 5), (1, 2), (2, 1), (3, 1)], "ntlv")):
            tlvs.append((sim.draw_choice([0x01, 0x02, 0x03, 0x04, 0x20, 0x30, 0xEE], "tlvtype"),
                         sim.draw_bytes(sim.draw_int(0, 12, "tlvlen"), b"h2\x00\r\nPROXY ")))
        d["tlvs"] = tlvs
        if fam == 0 or cmd == 0:
            d["pad"] = sim.draw_bytes(sim.draw_int(0, 6, "pad"), b"\x00\xffP\r\n")
            if cmd == 0 and sim.draw_bool(0.5, "bare-local"):
                d["omit_block"] = True
                d["tlvs"] = []
                d["pad"] = b""
        return d
    proto = sim.draw_weighted([("TCP4", 140), ("TCP6", 100), ("UNKNOWN", 60), ("UNKNOWN-bare", BARE_UNKNOWN_WEIGHT)], "v1proto")
    if proto == "TCP4":
        return {"v": 1, "proto": "TCP4", "src": str(ipaddress.IPv4Address(gen_ip4(sim))), "dst": str(ipaddress.IPv4Address(gen_ip4(sim))),
                "sport": gen_port(sim), "dport": gen_port(sim)}
    if proto == "TCP6":
        return {"v": 1, "proto": "TCP6", "src": ip6_text(sim, gen_ip6(sim)), "dst": ip6_text(sim, gen_ip6(sim)),
                "sport": gen_port(sim), "dport": gen_port(sim)}
    if proto == "UNKNOWN":
        # the longest valid line has pp.V1_MAX bytes, CRLF included ("PROXY UNKNOWN" + junk + CRLF)
        room = pp.V1_MAX - 16
        n = sim.draw_weighted([(sim.draw_int(0, 60, "junklen"), 8), (room, 2), (room - 1, 1), (sim.draw_int(61, room, "junklen-long"), 1)], "junkkind")
        junk = b" " + sim.draw_bytes(min(n, 24), b"abcf:. 0159TCP") + b"f" * max(0, n - 24)
        return {"v": 1, "proto": "UNKNOWN", "junk": junk}
    return {"v": 1, "proto": "UNKNOWN", "junk": b"", "bare": True}


def gen_invalid(sim):
    """(label, class, bytes).  class 'reject' = must be refused; 'leak' = must be
    refused, and Twisted is known to raise instead of closing."""
    base4 = b"PROXY TCP4 192.0.2.1 198.51.100.7 4242 80\r\n"
    base6 = b"PROXY TCP6 2001:db8::1 2001:db8::2 4242 443\r\n"
    sig = pp.V2_SIGNATURE
    inet_block = bytes([192, 0, 2, 1, 198, 51, 100, 7]) + b"\x10\x92\x00\x50"
    kind = sim.draw_weighted([
        ("not-proxy", 90), ("v1-bad-keyword", 60), ("v1-missing-fields", 60), ("v1-lowercase", 30), ("v1-too-long", 30),
        ("v2-bad-signature", 60), ("v2-bad-version", 60), ("v2-bad-command", 60), ("v2-bad-family", 30), ("v2-bad-transport", 30),
        ("v2-short-address-block", 60), ("v1-non-numeric-port", LEAK_WEIGHT), ("v1-non-ascii-address", LEAK_WEIGHT)], "invalid")
    cls = "reject"
    if kind == "not-proxy":
        data = sim.draw_choice([b"GET / HTTP/1.1\r\nHost: example.org\r\n\r\n", b"\x16\x03\x01\x02\x00\x01\x00\x01\xfc\x03\x03" + bytes(20),
                                b"QUIT\r\n" + b"x" * 20, b"PROXZ TCP4 192.0.2.1 198.51.100.7 4242 80\r\n",
                                b"\r\n\r\n" + b"PROXY TCP4 192.0.2.1 198.51.100.7 4242 80\r\n"], "notproxy")
    elif kind == "v1-bad-keyword":
        data = base4.replace(b"TCP4", sim.draw_choice([b"TCP5", b"tcp4", b"TCP", b"UDP4", b"", b"UNIX"], "keyword"))
    elif kind == "v1-missing-fields":
        line = sim.draw_choice([base4, base6], "line")[:-2].split(b" ")
        data = b" ".join(line[:len(line) - sim.draw_int(1, 4, "drop")]) + b"\r\n"
    elif kind == "v1-lowercase":
        data = sim.draw_choice([b"proxy", b"Proxy", b"PROXy"], "case") + base4[5:]
    elif kind == "v1-too-long":
        data = b"PROXY TCP4 " + b"1" * sim.draw_int(100, 160, "long") + b" 1 2\r\n"
    elif kind == "v2-bad-signature":
        i = sim.draw_int(0, 11, "sigbyte")
        bad = sig[:i] + bytes([sig[i] ^ sim.draw_choice([0x01, 0x80, 0xFF], "flip")]) + sig[i + 1:]
        data = bad + b"\x21\x11\x00\x0c" + inet_block
    elif kind == "v2-bad-version":
        data = sig + bytes([sim.draw_choice([0x11, 0x31, 0x01, 0xF1, 0x41], "verbyte"), 0x11]) + b"\x00\x0c" + inet_block
    elif kind == "v2-bad-command":
        data = sig + bytes([0x20 | sim.draw_int(2, 15, "cmd"), 0x11]) + b"\x00\x0c" + inet_block
    elif kind == "v2-bad-family":
        data = sig + bytes([0x21, (sim.draw_int(4, 15, "fam") << 4) | 1]) + b"\x00\x0c" + inet_block
    elif kind == "v2-bad-transport":
        data = sig + bytes([0x21, 0x10 | sim.draw_int(3, 15, "tp")]) + b"\x00\x0c" + inet_block
    elif kind == "v2-short-address-block":
        fam, need = sim.draw_choice([(1, 12), (2, 36), (3, 216)], "fam")
        n = sim.draw_int(0, need - 1, "have")
        data = sig + bytes([0x21, (fam << 4) | 1]) + n.to_bytes(2, "big") + bytes(n)
    elif kind == "v1-non-numeric-port":
        cls = "leak"
        data = base4.replace(sim.draw_choice([b"4242", b"80"], "which"), sim.draw_choice([b"abc", b"4x", b"-", b"0x50"], "badport"))
    else:
        cls = "leak"
        data = base4.replace(b"192", b"\xff\xfe")
    return kind, cls, data


def gen_unsettled(sim):
    """(label, header bytes): one CRLF-terminated v1 line whose validity the statement leaves open."""
    kind = sim.draw_weighted([("v1-port-out-of-range", 20), ("v1-port-spelling", 20), ("v1-host-not-an-address", 20),
                              ("v1-family-mismatch", 15), ("v1-trailing-field", 15), ("v1-line-one-over-limit", 10),
                              ("v1-overlong-line", OVERLONG_WEIGHT)], "unsettled")
    six = sim.draw_bool(0.4, "tcp6")
    if six:
        src, dst = ip6_text(sim, gen_ip6(sim)), ip6_text(sim, gen_ip6(sim))
    else:
        src, dst = str(ipaddress.IPv4Address(gen_ip4(sim))), str(ipaddress.IPv4Address(gen_ip4(sim)))
    fields = ["TCP6" if six else "TCP4", src, dst, str(gen_port(sim)), str(gen_port(sim))]
    tail = ""
    if kind == "v1-port-out-of-range":
        fields[sim.draw_choice([3, 4], "which")] = str(sim.draw_weighted(
            [(65536, 2), (sim.draw_int(65537, 99999, "bigport"), 3), (2 ** 32, 1), (10 ** 20, 1)], "bigkind"))
    elif kind == "v1-port-spelling":
        fields[sim.draw_choice([3, 4], "which")] = sim.draw_choice(["0080", "00", "+2", "-5", "1_0"], "spelling")
    elif kind == "v1-host-not-an-address":
        fields[sim.draw_choice([1, 2], "which")] = sim.draw_choice(
            ["999.1", "hello", "1.2.3", "256.1.1.1", "1.2.3.4.5", "::g", "1::2::3", "[::1]"], "nohost")
    elif kind == "v1-family-mismatch":
        fields[0] = "TCP4" if six else "TCP6"
    elif kind == "v1-trailing-field":
        tail = " " + sim.draw_bytes(sim.draw_int(1, 12, "taillen"), b"abcf:. 0159TCP").decode("ascii")
    else:
        # a line longer than the specification's limit that is otherwise well formed
        total = pp.V1_MAX + 1 if kind == "v1-line-one-over-limit" else sim.draw_weighted(
            [(pp.V1_MAX + 2, 2), (pp.V1_MAX + 3, 1), (sim.draw_int(pp.V1_MAX + 4, 200, "linelen"), 4)], "lenkind")
        form = sim.draw_choice(["unknown", "padded-port", "trailing"], "longform")
        if form == "unknown":
            return kind, b"PROXY UNKNOWN " + b"f" * (total - 16) + b"\r\n"
        short = len(" ".join(["PROXY"] + fields)) + 2
        if form == "padded-port":
            fields[4] = "0" * (total - short) + fields[4]
        else:
            tail = " " + "f" * (total - short - 1)
    line = (" ".join(["PROXY"] + fields) + tail + "\r\n").encode("ascii")
    if kind not in ("v1-line-one-over-limit", "v1-overlong-line") and len(line) > pp.V1_MAX:
        # keep the other kinds within the limit: the same oddity on a short line
        fields[1:3] = [f if len(f) < 16 else "::1" for f in fields[1:3]]
        fields[3:5] = [f[:12] for f in fields[3:5]]
        line = (" ".join(["PROXY"] + fields) + tail + "\r\n").encode("ascii")
    return kind, line


# ------------------------------------------------------------------ scenario

def cut_stream(sim, stream, hdr_len, first_min, marks=()):
    """Deliveries.  first_min > 0: keep the first delivery at least that long.  marks = message boundaries of the
    stream (end of the header, start of a following header)."""
    n = len(stream)
    if n <= 1:
        return [stream] if n else []
    marks = tuple(m for m in marks if 0 < m < n)
    how = sim.draw_weighted([("header-cut", 5), ("cut", 4), ("whole", 1), ("boundary-cut", 2)], "cutmode")
    if how == "boundary-cut" and not marks:
        how = "cut"
    if how == "whole":
        pieces = [stream]
    elif how == "header-cut":
        p = sim.draw_int(1, min(hdr_len + 1, n - 1), "hdrcut")
        sim.fault("segmentation")
        pieces = [stream[:p]] + net.cut(sim, stream[p:], None, tuple(m - p for m in marks if m > p) or (hdr_len - p,))
    elif how == "boundary-cut":
        # the sender's separate writes arrive as separate deliveries: a cut exactly at one message boundary
        b = sim.draw_choice(marks, "boundary")
        sim.fault("segmentation")
        pieces = (net.cut(sim, stream[:b], None, tuple(m for m in marks if m < b))
                  + net.cut(sim, stream[b:], None, tuple(m - b for m in marks if m > b)))
    else:
        pieces = net.cut(sim, stream, None, marks or (hdr_len,))
    if first_min:
        while len(pieces) > 1 and len(pieces[0]) < first_min:
            pieces[0:2] = [pieces[0] + pieces[1]]
    return pieces


class Transport(net.SimTransport):
    """SimTransport that remembers how much the application had received when the close was first requested."""
    rec = None
    close_mark = None

    def loseConnection(self, _reason=None):
        if self.close_mark is None:
            self.close_mark = len(self.rec)
        net.SimTransport.loseConnection(self, _reason)

    def abortConnection(self):
        if self.close_mark is None:
            self.close_mark = len(self.rec)
        net.SimTransport.abortConnection(self)


def run(sim):
    valid = sim.draw_bool(0.7, "valid")
    rec = []
    pos = [0]

    class A(App):
        pass
    A.rec = rec
    A.pos = pos
    # what the application asks its transport in connectionMade, i.e. before any header byte
    A.made_looks = sim.draw_weighted([(LOOKS[0], 6), (LOOKS[1], 1), (LOOKS[2], 1), (LOOKS[3], 1), (LOOKS[4], 1)], "made-looks")
    observer = sim.draw_bool(0.5, "observer")     # somebody holding the application's transport asks between deliveries
    factory = HAProxyWrappingFactory(Factory.forProtocol(A))
    w = factory.buildProtocol(address.IPv4Address("TCP", "10.0.0.2", 2002))
    t = Transport(sim, "S")
    t.rec = rec
    t.protocol = w
    real_peer, real_host = norm(t.getPeer()), norm(t.getHost())
    payload = sim.draw_bytes(sim.draw_int(0, 40, "paylen"), b"ab\r\n\x00PROXY \xff")
    avoid = sim.draw_bool(AVOID_KNOWN_P, "avoid-known")
    follow = b""
    keep = False
    unsettled = False

    if valid:
        desc = gen_valid(sim)
        header = pp.build(desc)
        expect = pp.addresses(desc)
        label = "v%d:%s" % (desc["v"], desc.get("proto") or "cmd%d-fam%d-tp%d" % (desc["cmd"], desc["fam"], desc["tp"]))
        if desc.get("bare"):
            label += "-bare"
        first_min = pp.min_first_segment(desc) if avoid else 0
    elif sim.draw_bool(UNSETTLED_P, "unsettled"):
        unsettled = True
        label, header = gen_unsettled(sim)
        cls = "unsettled"
        first_min = 16 if avoid else 0
        keep = sim.draw_bool(KEEP_DELIVERING_P, "transport-keeps-delivering")
        sim.probe("unsettled_stream")
        if len(header) > pp.V1_MAX + 1:
            sim.probe("overlong_line")
    else:
        label, cls, header = gen_invalid(sim)
        # an invalid stream is refused whatever the first delivery looks like; keeping the
        # first delivery long lets the parsers (not the first-delivery shortcut) do the refusing
        first_min = 16 if avoid else 0
        # the sender tries again with a proper header: still a stream that does not BEGIN with a valid header
        if sim.draw_bool(FOLLOW_P, "valid-header-follows"):
            follow = pp.build(gen_valid(sim)) + sim.draw_bytes(sim.draw_int(1, 12, "followlen"), b"ab\r\nPROXY ")
        keep = sim.draw_bool(KEEP_DELIVERING_P, "transport-keeps-delivering")
    stream = header + payload + follow
    pieces = cut_stream(sim, stream, len(header), first_min, (len(header), len(header) + len(payload)))
    # a second, concurrent connection to the same factory whose (valid) header is still incomplete: its deliveries are
    # interleaved with the checked connection's; connections must not see each other's bytes
    bg_pieces = []
    if sim.draw_bool(0.25, "background-connection"):
        desc2 = gen_valid(sim)
        header2 = pp.build(desc2)
        part = header2[:sim.draw_int(1, len(header2) - 1, "bgprefix")]
        bg_pieces = net.cut(sim, part, None, ()) if len(part) > 1 and sim.draw_bool(0.5, "bgcut") else [part]
        w2 = factory.buildProtocol(address.IPv4Address("TCP", "10.0.0.3", 3003))
        t2 = net.SimTransport(sim, "S2")
        t2.protocol = w2
        w2.makeConnection(t2)
        sim.fault("concurrent_connection_mid_header")
    sim.config = {"valid": valid, "label": label, "header_len": len(header), "payload_len": len(payload),
                  "pieces": [len(p) for p in pieces][:12], "avoid_known": avoid, "background_pieces": [len(p) for p in bg_pieces][:8],
                  "made_looks": list(A.made_looks), "observer": observer, "follow_len": len(follow), "keeps_delivering": keep}
    sim.event("stream", label, header, payload, follow)

    def deliver_bg():
        piece2 = bg_pieces.pop(0)
        sim.event("deliver-bg", piece2)
        if t2.disconnecting:
            return
        try:
            w2.dataReceived(piece2)
        except Violation:
            raise
        except Exception as e:  # not the checked connection (single-connection runs check this)
            sim.event("bg-raised", type(e).__name__)

    with sim.guard("wrapper-raised", "connectionMade"):
        w.makeConnection(t)
    app = w.wrappedProtocol
    raised = None
    delivered = 0
    after_close = 0
    for piece in pieces:
        sim.step(5000)
        while bg_pieces and sim.draw_bool(0.6, "bg-first"):
            deliver_bg()
        if t.disconnecting:
            if not keep:
                break
            # the transport had already received this; a close request does not take it back
            after_close += 1
        elif observer:
            which = sim.draw_weighted([(LOOKS[0], 4), (LOOKS[1], 1), (LOOKS[2], 1), (LOOKS[3], 1), (LOOKS[4], 1)], "looks")
            if which:
                sim.event("look", delivered, "+".join(which))
                with sim.guard("wrapper-raised", "getPeer/getHost"):
                    app.look("between", which)
        sim.event("deliver", piece)
        delivered += len(piece)
        pos[0] = delivered
        try:
            w.dataReceived(piece)
        except Violation:
            raise
        except Exception as e:  # classified below
            raised = e
            break
    if after_close:
        sim.fault("delivery_after_close_request", after_close)
    got = b"".join(e[1] for e in rec if e[0] == "data")
    sim.event("app-got", got, "closing" if t.disconnecting else "open", type(raised).__name__ if raised else "-")
    first = len(pieces[0]) if pieces else 0
    ctx = lambda: "%s header %r + payload %r%s delivered as %r: app got %r, close requested=%s, raised=%r" % (
        label, header, payload, " + following %r" % (follow,) if follow else "", pieces[:8], got, t.disconnecting, raised)

    if valid:
        short = first < pp.min_first_segment(desc) and first < len(stream)
        if raised is not None:
            sim.fail("wrapper-raised", "%s:%s" % (label.split(":")[0], type(raised).__name__), ctx)
        if t.disconnecting:
            why = "short-first-segment" if short else ("v1-unknown-without-trailing-text" if desc.get("bare") else "other")
            sim.fail("valid-header-rejected", why, ctx)
        sim.check("application-bytes", got == payload, label.split(":")[0], ctx)
        want_peer = real_peer if expect is None else ((expect[0], expect[1]) if expect[0] == "unix" else (expect[0], expect[1], expect[2]))
        want_host = real_host if expect is None else ((expect[0], expect[2]) if expect[0] == "unix" else (expect[0], expect[3], expect[4]))
        early = set()
        for e in rec:
            if e[0] == "data":
                sim.check("addresses", e[2] == want_peer and e[3] == want_host, label,
                          lambda: "app saw peer %r host %r, header says %r / %r; %s" % (e[2], e[3], want_peer, want_host, ctx()))
            elif e[0] == "look":
                if e[4] < len(header):
                    early.add(e[2])      # asked before the header was complete: no verdict on the answer
                else:
                    sim.check("addresses", e[3] == (want_peer if e[2] == "peer" else want_host), label,
                              lambda: "asked between deliveries after %d bytes, get%s() gave %r, header says %r / %r; %s" % (
                                  e[4], "Peer" if e[2] == "peer" else "Host", e[3], want_peer, want_host, ctx()))
                    sim.probe("address_asked_between_deliveries_after_header")
        if delivered >= len(header):
            seen = (norm(app.transport.getPeer()), norm(app.transport.getHost()))
            sim.check("addresses", seen == (want_peer, want_host), label,
                      lambda: "after the header getPeer/getHost give %r, header says %r; %s" % (seen, (want_peer, want_host), ctx()))
            if early:
                sim.probe("address_asked_before_and_after_header")
                if expect is not None:
                    sim.fault("early_look_then_header_addresses")
        sim.check("no-spurious-loss", ("lost",) not in rec, label, ctx)
    elif unsettled and not t.disconnecting and raised is None:
        # read as valid: then the application gets exactly what follows the line (no verdict on the addresses)
        sim.check("application-bytes", got == payload, "unsettled", ctx)
        sim.check("no-spurious-loss", ("lost",) not in rec, label, ctx)
    else:
        mark = len(rec) if t.close_mark is None else t.close_mark
        before = b"".join(e[1] for e in rec[:mark] if e[0] == "data")
        sim.check("invalid-bytes-passed", before == b"", label, ctx)
        if raised is not None:
            if STRICT_NO_RAISE:
                # one witness for the two leak inputs (UnicodeDecodeError is a ValueError)
                exc = "ValueError" if isinstance(raised, ValueError) else type(raised).__name__
                sim.fail("invalid-header-raised", "%s:%s" % ("v1-tcp-field" if cls == "leak" else label, exc), ctx)
            sim.probe("invalid_header_raised")
        else:
            sim.check("invalid-header-accepted", t.disconnecting, label, ctx)
        if not unsettled:
            sim.probe("invalid_" + cls)
        if follow:
            sim.probe("invalid_then_valid_header")
        # bytes of the refused stream that the transport still delivered after the close request (checked last: finding 4)
        sim.check("delivered-after-refusal", got == before, "valid-header-follows" if follow else "no-header-follows", ctx)
    if unsettled:
        # whichever way the line is read, the reading must not depend on how the stream was cut: the same stream in one
        # delivery to a fresh wrapper of a fresh factory gives the reference verdict
        rec2 = []

        class B(App):
            pass
        B.rec = rec2
        B.pos = [len(stream)]
        w3 = HAProxyWrappingFactory(Factory.forProtocol(B)).buildProtocol(address.IPv4Address("TCP", "10.0.0.2", 2002))
        t3 = Transport(sim, "R")
        t3.rec = rec2
        t3.protocol = w3
        raised3 = None
        try:
            w3.makeConnection(t3)
            w3.dataReceived(stream)
        except Violation:
            raise
        except Exception as e:  # a refusal by exception is still a refusal for this comparison
            raised3 = e
        verdict = "refused" if (t.disconnecting or raised is not None) else "accepted"
        reference = "refused" if (t3.disconnecting or raised3 is not None) else "accepted"
        sim.event("verdicts", verdict, reference)
        sim.check("verdict-depends-on-segmentation", verdict == reference, label,
                  lambda: "in one delivery the stream is %s, cut it is %s; %s" % (reference, verdict, ctx()))
    sim.state((label, min(first, 17), len(pieces) > 1, bool(A.made_looks), keep))
    sim.nontrivial = len(pieces) > 1


# Sensitivity (tools/mutate.py C47 --sub src/twisted/protocols/haproxy/<file> OLD NEW, the three known
# signatures suppressed while testing).  All caught (exit 1).
MUTANTS = [
    "_wrapper.py: drop 'if remaining: self.wrappedProtocol.dataReceived(remaining)' (bytes after the header in the same delivery lost) : caught (application-bytes:v1/v2)",
    "_v2parser.py: size '[0] + 16' -> '[0] + 15' (v2 length off by one) : caught (valid-header-rejected:other, application-bytes:v2)",
    "_v2parser.py: size = min(len, 36) + 16 (TLV length not honoured) : caught (application-bytes:v2)",
    "_v1parser.py: 'self.buffer += data' -> 'self.buffer = data' (state lost across deliveries) : caught (valid-header-rejected:other, application-bytes:v1, invalid-header-accepted)",
    "_v2parser.py: 'self.buffer += data' -> 'self.buffer = data' : caught (valid-header-rejected:other, application-bytes:v2)",
    "_wrapper.py getPeer: 'return self._proxyInfo.source' -> '.destination' : caught (addresses:*)",
    "_v2parser.py: 'source, dest, sPort, dPort = info' -> ports swapped : caught (addresses:v2:*)",
    "_v2parser.py: UNIXAddress(source.rstrip(b'\\x00')) -> UNIXAddress(source) : caught (addresses:v2:cmd1-fam3-*)",
    "_v2parser.py _bytesToIPv6: 'range(0, 32, 4)' -> 'range(0, 28, 4)' : caught (addresses:v2:cmd1-fam2-*)",
    "_v1parser.py: 'split(self.NEWLINE, 1)' -> 'split(self.NEWLINE)' (payload containing CRLF mangled) : caught (valid-header-rejected:other)",
    "_wrapper.py: 'except InvalidProxyHeader: self.loseConnection()' -> 'pass' : caught (invalid-header-accepted:*)",
    "_wrapper.py: getPeer()/getHost() answers cached per connection (first answer kept) : caught via connectionMade / between-delivery looks (addresses:v1:TCP4, addresses:v1:TCP6, addresses:v2:cmd1-fam1-tp1)",
    "_wrapper.py: only getHost() cached : caught (addresses:*)",
    "_wrapper.py: header addresses answered only while dataReceived is running (flag set/cleared around the delivery) : caught by the looks between deliveries (addresses:*)",
    "_wrapper.py: 'except InvalidProxyHeader: self.loseConnection()' + 'self._proxyInfo = ProxyInfo(data, None, None)' (later bytes of a refused stream passed through) : caught only on the keep-delivering transport (delivered-after-refusal:no-header-follows)",
    "_v1parser.py feed (before fc40009): 'len(self.buffer) > 107' -> '> 106' (limit one byte early, still only while no CRLF has arrived) : caught by the 108-byte lines (verdict-depends-on-segmentation:v1-line-one-over-limit); '> 105' : also valid-header-rejected:other on the valid UNKNOWN lines of exactly 107 bytes",
    "any validation of a v1 line that runs only when the line arrives complete in one delivery, or only when it does not : caught by the unsettled streams (verdict-depends-on-segmentation:<kind>)",
    "GENUINE DEFECT (finding 5), REPAIRED in /repo fc40009 (found with OVERLONG_WEIGHT > 0): V1Parser.feed applied its length limit only while no CRLF had "
    "arrived - b'PROXY UNKNOWN ' + b'f'*150 + CRLF + data was accepted in one delivery and refused when a delivery ended between byte 108 and the LF "
    "(verdict-depends-on-segmentation:v1-overlong-line); the repair (end = buffer.find(CRLF); refuse when end > 106 or (end < 0 and len(buffer) > 107)) : "
    "check passes with OVERLONG_WEIGHT = 12 (130000 runs, 688 over-long lines, exit 0)",
    "repair of finding 4, in /repo d9065ac (wrapper remembers the refusal: self._refused = True at both loseConnection() sites, dataReceived returns at once when set) : check passes with FOLLOW_P=0.3, KEEP_DELIVERING_P=0.25 (130000 runs, exit 0); without it: delivered-after-refusal:valid-header-follows",
    "repairs of findings 1-3, in /repo 9245dd3, 515f838, b52cead (buffer undecided first bytes in the wrapper; V1Parser: partition() for the protocol keyword, convertError(ValueError, InvalidProxyHeader) around decode()/int()) : check passes with AVOID_KNOWN_P=0, BARE_UNKNOWN_WEIGHT=12, LEAK_WEIGHT=10 (60000 runs, exit 0)",
]
