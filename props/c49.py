"""C49 — thread pools run every task exactly once within their worker limit.

Two families, chosen by the tape:

(a) "team": the real twisted._threads.pool() -> Team + LockWorker coordinator,
    with ThreadWorker replaced by simulator-owned in-memory workers whose queued
    items the scheduler (tape) executes one at a time.  Explores the order in
    which workers execute relative to do/grow/shrink/quit.

(b) "threadpool": the real twisted.python.threadpool.ThreadPool -> pool() ->
    Team + LockWorker + ThreadWorker on E5 baton threads: Thread, Queue, Lock and
    thread-local storage are simulator objects, several caller threads issue
    operations concurrently, and line events inside _team.py, _threadworker.py
    and threadpool.py are pre-emption points with tape-drawn probability.

Both families also contain two environment families (tape-chosen per run):
  * worker creation that FAILS (the worker/thread factory raises, as a process that cannot get another thread does): the
    operation that needed the worker reports the error to its caller, everything accepted before and after still has to
    run exactly once and quit/stop still has to stop every worker;
  * (b) limit changes over the whole legal range of adjustPoolsize - including 0 ("no workers at all") and the forms that
    give only one of the two values - checked against a harness-side model of the limit in force (the value last
    requested), never against the pool's own attributes;
  * (a) a limit callable whose answer CHANGES while the Team is in use (a tape-chosen operation sets it to another value of 0..3, 0 = "no
    worker can be had right now"): work collected while no worker could be had has to run once a later request (do, grow) finds that a
    worker can be created, and a task is excused from running only when no worker existed and none could be created at its own submission
    and at every later request;
  * (b) stop() at any point of the pool's life - also on a pool that was never started - followed by USE AFTER STOP: a few tape-chosen
    operations on the finished object (submissions, start(), limit changes, startAWorker/stopAWorker).  Each may be ignored or refused with
    AlreadyQuit; none may make a task submitted after stop() run or report, create a worker or leave a pool thread alive.
(b) also varies the CALLER's side of a submission (tape-chosen per run and per submission): onResult callbacks that themselves
raise - an Exception or a bare BaseException, every time they are called or only the first time, after a function that succeeded as
well as after one that failed - and plain callInThread submissions (no callback).  Every call of a callback is recorded before the
callback does anything else: a second report is a violation the moment it is made; whatever a task or a callback raises must stay
inside the pool thread's loop (the thread serves the next task, stop() still joins it).
"""
from twisted._threads import _pool, AlreadyQuit
from twisted.python import log as _tplog, threadpool
from twisted.python.failure import Failure

from detsim import threads as T
from detsim.sim import StepLimit, Violation

ID = "C49"
ENGINE = "threads"
LEVEL = "exploration"
TECHNIQUE = "deterministic simulation: real Team/ThreadPool on simulator-owned workers and baton-passing threads, tape-chosen interleaving incl. line-level pre-emption"
QUICK_RUNS = 12000
BATCH = 50
COMPONENTS = {"real": ["twisted._threads._team.Team", "twisted._threads._pool.pool", "twisted._threads._threadworker.LockWorker/ThreadWorker (family b)",
                       "twisted.python.threadpool.ThreadPool (family b)"],
              "stub": ["family a: worker threads (in-memory workers stepped by the scheduler)",
                       "family b: OS thread scheduling and Thread/Queue/Lock/local (detsim.threads baton objects)"]}
RULE = ("run = family a: 4..30 tape-chosen operations (do task that succeeds/raises, grow, shrink, quit, late do, 'worker i executes its next queued item'; in 40% of the runs also "
        "'the limit callable now answers v', v in 0..3) on a Team built by the real pool(); "
        "family b: 1..3 caller threads issuing callInThreadWithCallback (in 2 of 3 runs 30%/60% of the onResult callbacks raise - Exception or bare BaseException, always or on their first call only - "
        "whether the function succeeded or failed; in half of the runs 20% of the submissions are plain callInThread)/adjustPoolsize (max 0..3, min 0..max, both values or only one)/startAWorker/stopAWorker concurrently with pool threads, then stop() "
        "(in 30% of the late-start runs the pool was never started), then 0..4 operations on the stopped pool (submit/start/adjustPoolsize/startAWorker/stopAWorker); "
        "both: in some runs the worker factory (a: createWorker's worker class, b: ThreadPool.threadFactory) raises with tape-drawn probability; "
        "non-trivial = some task had to wait in the backlog or a shrink/limit change happened while a worker was busy, or (b) a line-level pre-emption fired")
ASSUMPTIONS = ["family a: the limit function is constant in 60% of the runs; where it changes it changes between Team operations (the Team is told nothing: it finds out at its "
               "next do/grow, so work backlogged under limit 0 that no later request follows gets no verdict), and lowering it does not oblige the Team to stop workers",
               "tasks do not submit further tasks",
               "use after stop(): the statement says submissions are refused, not how - silence and AlreadyQuit are both accepted for every operation except the first "
               "plain submission (silently ignored, as documented by the existing clause late-submit-raised); a second stop() is not issued; tasks submitted BEFORE stop() to a "
               "pool that was never started get no verdict when they never ran (no worker could ever be created: the limit of an unstarted pool is 0)",
               "a worker creation fails by the factory raising before any thread object exists (a Thread whose start() fails stays in ThreadPool.threads and makes "
               "stop() raise from join() on the unchanged tree; the statement is silent on that, so that variant is not injected)",
               "what the pool logs (an exception escaping from an onResult callback, the failure of a function submitted without a callback) is recorded instead of printed "
               "(Team._logException and twisted.python.log.err are replaced for the run); the statement says nothing about logging, so no clause reads that record",
               "an onResult callback that raises has still been told the outcome: it owes the pool nothing and must not be called again",
               "family b: the limit in force is a well-defined number only while no adjustPoolsize/start/stop is in flight; creations that overlap one get no verdict; "
               "tasks that never ran get no verdict when the limit may have been 0 at stop(), when overlapping limit setters left a set of possible limits containing 0, "
               "or when start() was aborted by a torn (min, max) pair / a failed worker creation"]

# Share of the family-b runs in which a limit change that RAISES the maximum from (possibly) 0 may keep the minimum at 0.
# Before the round-4 repair of /repo (a218f55) such a change did not hand the backlog to a worker (nothing grew: workers >= min), so tasks accepted
# while the limit was 0 stayed stranded until some later submission happened to create a worker, and stop() dropped them: reported as
# accepted-task-ran-and-reported-once:threadpool:limit-raised-from-zero (fixed entry in known_findings.json).  In the other runs such a
# change always asks for min >= 1 (adjustPoolsize then grows a worker, which takes the backlog).  The precondition is let into this
# share (0.6) of the family-b runs; 0 is only for dev-time comparison with a tree without the repair.
ZERO_RAISE_KEEPS_MIN0_P = 0.6

# Share of the family-a runs in which the answer of the Team's limit callable changes while the Team is in use.
LIVE_LIMIT_P = 0.4

# Share of the late-start runs of family b in which the pool is stopped without ever having been started.
NEVER_STARTED_P = 0.3


# ------------------------------------------------------------------ family a

class TaskExit(BaseException):
    """A task may raise anything, including exceptions that are not Exception subclasses
    (sys.exit() in a task raises SystemExit; a custom class is used so that a leak cannot end the harness)."""


def _raise_kind(sim):
    # first item = simplest; a quarter of the raising tasks raise a bare BaseException subclass
    return sim.draw_weighted([("RuntimeError", 3), ("BaseException", 1)], "raise_kind")


def _do_raise(kind, i):
    if kind == "BaseException":
        raise TaskExit("task %d" % i)
    raise RuntimeError("task %d" % i)


class CallbackBug(RuntimeError):
    """What a caller-supplied onResult callback raises (an application bug in the callback, a callFromThread on a reactor
    that is shutting down ...); a class of its own so that the harness recognises its own fault."""


class WorkerCreationFailed(RuntimeError):
    """What the worker/thread factory raises when the simulated environment cannot provide another worker
    (threading raises RuntimeError("can't start new thread")); a subclass so that the harness recognises its own fault."""


def _run_item(sim, item):
    """Execute one queued worker item; nothing a task raises may escape from the worker's loop."""
    try:
        with sim.guard("task-exception-escaped", "team"):
            item()
    except TaskExit:
        sim.fail("task-exception-escaped", "team:BaseException", "a task's BaseException escaped from the item the Team queued on the worker")


class MemWorker:
    """In-memory IWorker: queued items are executed one at a time by the scheduler."""

    def __init__(self, world):
        self.world = world
        self.idx = len(world.workers)
        self.queue = []
        self.quit_calls = 0
        self.in_task = False      # a task body is running on this worker right now
        world.workers.append(self)

    def __hash__(self):
        return self.idx

    def __eq__(self, o):
        return self is o

    def do(self, item):
        w = self.world
        w.sim.check("no-work-for-quit-worker", self.quit_calls == 0, "team", "worker %d was given work after quit()" % self.idx)
        w.sim.check("no-task-for-busy-worker", not self.queue and not self.in_task, "team",
                    "worker %d was handed a task while it still has unfinished work" % self.idx)
        self.queue.append(item)

    def quit(self):
        self.quit_calls += 1
        self.world.sim.check("worker-quit-once", self.quit_calls == 1, "team", "worker %d quit() called %d times" % (self.idx, self.quit_calls))
        self.world.sim.check("quit-only-idle-worker", not self.queue and not self.in_task, "team", "worker %d quit while it has unfinished work" % self.idx)


class WorldA:
    def __init__(self, sim):
        self.sim = sim
        self.workers = []
        self.current = None   # worker executing an item right now


class _NullLock:
    def acquire(self):
        return True

    def release(self):
        pass


class _Local:
    pass


def family_a(sim):
    limit0 = sim.draw_choice([2, 1, 3, 0], "limit")
    nops = sim.draw_int(4, 30, "nops")
    create_fail_p = sim.draw_choice([0.0, 0.0, 0.15, 0.35], "create_fail_p")
    # the limit is a callable the Team consults whenever it wants a worker: in some runs what it answers changes while the Team is in
    # use (0 = "no worker can be had right now": a pool that is not open yet, a resource that is exhausted for a while)
    live_limit = sim.draw_bool(LIVE_LIMIT_P, "live_limit")
    sim.config = {"family": "team", "limit": limit0, "nops": nops, "create_fail_p": create_fail_p, "live_limit": live_limit}
    w = WorldA(sim)
    lim = {"now": limit0, "lowered": False}
    # one entry per operation at which the Team was asked for something that needs a worker (an accepted do, a grow): True when the
    # Team could not have had a worker for it (no worker existed and the limit allowed none, or the factory failed during the operation)
    no_worker_possible = []
    submitted_at = {}      # task id -> index into no_worker_possible of its own submission
    saved = (_pool.ThreadWorker, _pool.Lock, _pool.LocalStorage, _pool.Queue)

    def make_worker(startThread, queue):
        live = sum(1 for x in w.workers if x.quit_calls == 0)
        limit = lim["now"]
        sim.check("worker-created-within-limit", live < limit, "team", "worker created while %d live workers exist and the limit is %d" % (live, limit))
        if create_fail_p and sim.draw_bool(create_fail_p, "worker_create_fails"):
            sim.fault("worker_creation_failed")
            raise WorkerCreationFailed("can't start new thread")
        return MemWorker(w)

    _pool.ThreadWorker = make_worker
    _pool.Lock = _NullLock
    _pool.LocalStorage = _Local
    _pool.Queue = lambda: None
    logged = []
    ran = {}          # task id -> times run
    accepted = []     # task ids whose do() returned normally before quit
    flags = {"backlog": 0, "busy_change": 0}
    try:
        team = _pool.pool(lambda: lim["now"])
        team._logException = lambda: logged.append(1)
        quit_done = False
        tid = 0

        def worker_out_of_reach():
            # harness-side view, taken before an operation: no live worker at all and the limit allows none
            return not any(x.quit_calls == 0 for x in w.workers) and lim["now"] == 0

        for _ in range(nops):
            sim.step(500)
            runnable = [x for x in w.workers if x.queue]
            ops = [("do", 6), ("exec", 8 if runnable else 0), ("grow", 1), ("shrink", 1), ("quit", 1 if not quit_done else 0),
                   ("limit", 2 if live_limit else 0)]
            op = sim.draw_weighted(ops, "op")
            limit = lim["now"]
            if op == "limit":
                new = sim.draw_choice([v for v in (0, 1, 2, 3) if v != limit], "new_limit")
                sim.event("limit", new)
                backlog = team.statistics().backloggedWorkCount
                if new < limit:
                    lim["lowered"] = True
                    if any(x.quit_calls == 0 and (x.queue or x.in_task) for x in w.workers):
                        flags["busy_change"] += 1
                        sim.probe("limit_lowered_while_busy")
                elif limit == 0:
                    sim.probe("team_limit_raised_from_zero")
                    if backlog:
                        sim.probe("team_limit_raised_from_zero_with_backlog")
                lim["now"] = limit = new
            elif op == "do":
                tid += 1
                raises = sim.draw_bool(0.25, "raises")
                kind = _raise_kind(sim) if raises else None
                if kind == "BaseException":
                    sim.probe("task_raised_bare_BaseException")

                def task(i=tid, raises=raises, kind=kind):
                    ran[i] = ran.get(i, 0) + 1
                    wk = w.current
                    sim.check("one-task-at-a-time-per-worker", not wk.in_task, "team", "worker %d started a task while running another" % wk.idx)
                    wk.in_task = True
                    try:
                        if raises:
                            _do_raise(kind, i)
                    finally:
                        wk.in_task = False

                sim.event("do", tid, "raises" if raises else "ok", "after-quit" if quit_done else "")
                failed = False
                out_of_reach = worker_out_of_reach()
                try:
                    team.do(task)
                    refused = False
                except AlreadyQuit:
                    refused = True
                except WorkerCreationFailed:
                    # the submitter was told that the worker this task needed could not be created: not accepted, no verdict on it
                    refused = quit_done
                    failed = True
                    sim.event("do-failed", tid)
                sim.check("refused-iff-quit", refused == quit_done, "team", "do() refused=%s but quit=%s" % (refused, quit_done))
                if not quit_done:
                    no_worker_possible.append(failed or out_of_reach)
                if not refused and not failed:
                    accepted.append(tid)
                    submitted_at[tid] = len(no_worker_possible) - 1
                    if team.statistics().backloggedWorkCount:
                        flags["backlog"] += 1
                        sim.probe("task_backlogged")
            elif op == "exec":
                wk = sim.draw_choice(runnable, "worker")
                item = wk.queue.pop(0)
                w.current = wk
                sim.event("exec", wk.idx)
                _run_item(sim, item)
                w.current = None
            elif op in ("grow", "shrink"):
                n = sim.draw_int(1, 3, "n")
                busy = team.statistics().busyWorkerCount
                sim.event(op, n)
                out_of_reach = worker_out_of_reach()
                failed = False
                try:
                    (team.grow if op == "grow" else team.shrink)(n)
                    refused = False
                except AlreadyQuit:
                    refused = True
                except WorkerCreationFailed:
                    refused = quit_done
                    failed = True
                    sim.event("grow-failed")
                if op == "grow" and not quit_done:
                    no_worker_possible.append(failed or out_of_reach)
                sim.check("refused-iff-quit", refused == quit_done, "team", "%s refused=%s quit=%s" % (op, refused, quit_done))
                if busy and op == "shrink":
                    flags["busy_change"] += 1
                    sim.probe("shrink_while_busy")
            else:
                sim.event("quit")
                team.quit()
                quit_done = True
            for i, n in ran.items():
                sim.check("task-at-most-once", n <= 1, "team", "task %d ran %d times" % (i, n))
            live = sum(1 for x in w.workers if x.quit_calls == 0)
            if not lim["lowered"]:
                # a Team does not stop workers by itself when the limit is lowered under it: the bound on LIVE workers is only the
                # current limit while the limit never went down (the bound at creation time is checked in make_worker, always)
                sim.check("live-workers-within-limit", live <= lim["now"], "team", "%d live workers, limit %d" % (live, lim["now"]))
            sim.state((min(live, 3), min(team.statistics().busyWorkerCount, 3), min(team.statistics().backloggedWorkCount, 3), quit_done))
        # drain: execute everything that is queued
        n = 0
        while True:
            runnable = [x for x in w.workers if x.queue]
            if not runnable:
                break
            n += 1
            sim.check("drain-terminates", n < 2000, "team", "workers still have queued items after 2000 executions")
            wk = sim.draw_choice(runnable, "worker")
            item = wk.queue.pop(0)
            w.current = wk
            _run_item(sim, item)
            w.current = None
        for i, cnt in ran.items():
            sim.check("task-at-most-once", cnt <= 1, "team", "task %d ran %d times" % (i, cnt))
        # "every task submitted before quit runs exactly once (unless no worker could ever be created)": a Team learns about the limit
        # only when it is asked for something (do, grow), so a task that never ran is excused exactly when, at its own submission and at
        # every later request, no worker existed and none could be created (limit 0 at that moment, or the factory failed).  Whenever a
        # worker existed - busy ones come back and take waiting work - or could be created, nothing may be left behind once all
        # workers have finished what they were given.
        missing = [i for i in accepted if ran.get(i, 0) != 1 and not all(no_worker_possible[submitted_at[i]:])]
        if [i for i in accepted if ran.get(i, 0) != 1] and not missing:
            sim.probe("team_never_ran_no_verdict_no_worker_ever")
        sim.check("accepted-task-ran-once", not missing, "team",
                  "accepted tasks that never ran after everything drained although a worker existed or could be created at or after their submission: %r" % missing[:5])
        if not live_limit and limit0 == 0:
            sim.check("no-worker-when-limit-zero", not w.workers, "team", "workers created with limit 0")
        if quit_done:
            alive = [x.idx for x in w.workers if x.quit_calls != 1]
            sim.check("all-workers-stopped-after-quit", not alive, "team", "after quit and drain these workers were not quit exactly once: %r" % alive)
    finally:
        _pool.ThreadWorker, _pool.Lock, _pool.LocalStorage, _pool.Queue = saved
    sim.nontrivial = bool(flags["backlog"] or flags["busy_change"])


# ------------------------------------------------------------------ family b

class LimitModel:
    """Harness-side model of ThreadPool's (min, max, started): the SETS of values each may hold, given the limit operations issued.

    A limit operation (adjustPoolsize, start) is registered when it begins and when it ends.  While operations are in flight - and
    after operations that overlapped - the value is only known to be one of several; after an operation that ran alone and gave an
    explicit value it is exactly that value.  `epoch` changes at every begin/end, so an observer can tell whether the limit was
    stable between two of its own steps."""

    def __init__(self, mn, mx):
        self.mn = {mn}
        self.mx = {mx}
        self.started = {False}
        self.epoch = 0
        self.in_flight = 0
        self.group_n = 0
        self.g_mx = set()
        self.g_mn = set()
        self.g_explicit = True
        self.zero_torn = False     # overlapping setters left "0 or something else" as the possible maximum
        self.zero_seen = False

    def begin(self, mn=None, mx=None, start=False):
        self.epoch += 1
        if self.in_flight == 0:
            self.group_n = 0
            self.g_mx = set()
            self.g_mn = set()
            self.g_explicit = True
        self.in_flight += 1
        self.group_n += 1
        if mx is None or mn is None:
            self.g_explicit = False    # the operation re-stores whatever it reads
        if mx is not None:
            self.g_mx.add(mx)
            self.mx.add(mx)
        if mn is not None:
            self.g_mn.add(mn)
            self.mn.add(mn)
        if start:
            self.started = self.started | {True}
        if 0 in self.mx:
            self.zero_seen = True

    def end(self, stored=True, start=False):
        self.epoch += 1
        self.in_flight -= 1
        if start:
            self.started = {True}
        if self.in_flight == 0:
            if self.group_n == 1:
                if stored:
                    if self.g_mx:
                        self.mx = set(self.g_mx)
                    if self.g_mn:
                        self.mn = set(self.g_mn)
            else:
                if self.g_explicit and stored:
                    self.mx = set(self.g_mx)
                    self.mn = set(self.g_mn)
                if 0 in self.mx and len(self.mx) > 1:
                    self.zero_torn = True

    def stable_limit(self):
        """The limit in force if it is a single well-defined number right now, else None."""
        if self.in_flight or len(self.mx) != 1 or len(self.started) != 1:
            return None
        return min(self.mx) if True in self.started else 0


def family_b(sim):
    maxthreads = sim.draw_int(1, 3, "max")
    minthreads = 0 if sim.draw_bool(0.4, "min0") else sim.draw_int(0, maxthreads, "min")   # min 0: no worker exists until one is needed
    ncallers = sim.draw_int(1, 3, "ncallers")
    preempt = sim.draw_choice([0.0, 0.05, 0.2], "preempt_p")
    start_late = sim.draw_bool(0.4, "start_late")
    # stop() may come at any point of the pool's life, also before start() was ever reached (a shutdown hook that runs although
    # start-up did not get that far): in some of the late-start runs nobody starts the pool before it is stopped
    never_started = start_late and sim.draw_bool(NEVER_STARTED_P, "stopped_before_started")
    policy = sim.draw_choice(["uniform", "pct"], "sched_policy")
    if policy == "pct":
        preempt = sim.draw_choice([0.004, 0.015], "pct_change_p")   # few, long-lasting pre-emptions
    create_fail_p = sim.draw_choice([0.0, 0.0, 0.2, 0.5], "create_fail_p")
    keep_min0 = sim.draw_bool(ZERO_RAISE_KEEPS_MIN0_P, "raise_from_zero_may_keep_min0")
    adjust_w = sim.draw_choice([1, 1, 5], "adjust_weight")     # some runs churn the limit: several changes between few submissions
    if keep_min0:
        adjust_w = 5
    # the caller's side of callInThreadWithCallback: in some runs onResult callbacks themselves raise (after a function that succeeded
    # as well as after one that failed), and some submissions are plain callInThread (no callback: nothing to report to)
    cb_raise_p = sim.draw_choice([0.0, 0.3, 0.6], "onresult_raise_p")
    no_cb_p = sim.draw_choice([0.0, 0.2], "no_callback_p")
    sim.config = {"family": "threadpool", "min": minthreads, "max": maxthreads, "callers": ncallers, "preempt_p": preempt, "start_late": start_late, "never_started": never_started, "policy": policy,
                  "create_fail_p": create_fail_p, "raise_from_zero_may_keep_min0": keep_min0, "adjust_weight": adjust_w,
                  "onresult_raise_p": cb_raise_p, "no_callback_p": no_cb_p}
    L = LimitModel(minthreads, maxthreads)
    sched = T.Scheduler(sim, trace_files=("_threads/_team.py", "_threads/_threadworker.py", "python/threadpool.py") if preempt else (), preempt_p=preempt, policy=policy)
    saved = (_pool.Queue, _pool.Lock, _pool.LocalStorage, _pool.ThreadWorker)
    saved_log_err = _tplog.err
    real_TW = _pool.ThreadWorker
    quit_calls = []
    created = []
    state = {"faults_armed": False, "creating_epoch": None, "after_stop": ""}

    class RecordingWorker(real_TW):
        def __init__(self, startThread, queue):
            live = len(created) - len(quit_calls)
            # the limit is only a well-defined number while nobody changes it concurrently: it must have been one number, the one last
            # requested through adjustPoolsize()/the constructor (0 before start()), from the moment the creator was asked for a worker
            # until now (adjustPoolsize / start() / stop() racing with the creator's own check get no verdict)
            lim = L.stable_limit()
            if lim is not None and state["creating_epoch"] == L.epoch and not stop_called[0]:
                sim.probe("creation_checked_against_requested_limit")
                sim.check("worker-created-within-limit", live < lim, "threadpool", "worker thread created while %d live workers exist and the limit is %d" % (live, lim))
            # once stop() has returned and every caller that raced with it is done, the pool is finished: whatever is done with the
            # object afterwards, no further worker may come into existence
            sim.check("no-worker-created-after-stop", not state["after_stop"], "threadpool", "a worker thread was created after stop() had returned (operation: %s)" % state["after_stop"])
            self._idx = len(created)   # Team keeps idle workers in a set: hash by creation order, not by address
            real_TW.__init__(self, startThread, queue)   # raises when the thread factory does: then no worker came into existence
            created.append(self)

        def __hash__(self):
            return self._idx

        def __eq__(self, o):
            return self is o

        def quit(self):
            quit_calls.append(self)
            real_TW.quit(self)

    _pool.Queue = lambda: T.SimQueue(sched, "wq")
    _pool.Lock = lambda: T.SimLock(sched, "coord")
    _pool.LocalStorage = lambda: T.SimLocal(sched)
    _pool.ThreadWorker = RecordingWorker
    ran = {}
    results = {}
    no_callback = set()     # ids submitted through callInThread: there is nobody to report to
    logged = []             # what the pool handed to the log (a raising callback, a failed task nobody listens to) instead of stderr
    in_progress = [0]
    submitted_before_stop = []
    stop_called = [False]
    try:
        pool = threadpool.ThreadPool(minthreads, maxthreads, name="pool")
        # where the pool logs: the Team's logException (whatever escapes from a submitted item, e.g. from a raising onResult) and
        # log.err (a failed function nobody listens to).  Recorded, not printed; the statement says nothing about logging: no verdict.
        pool._team._logException = lambda: logged.append("item")
        _tplog.err = lambda *a, **kw: logged.append("err")

        def thread_factory(*a, **kw):
            if state["faults_armed"] and create_fail_p and sim.draw_bool(create_fail_p, "thread_create_fails"):
                sim.fault("thread_creation_failed")
                raise WorkerCreationFailed("can't start new thread")
            target = kw.get("target")

            def pool_thread_main(*ta, **tkw):
                # nothing a task or a result callback raises may end a pool thread (the scheduler would hand it to the harness)
                try:
                    return target(*ta, **tkw)
                except (T.Abort, T.Deadlock, Violation, StepLimit):
                    raise
                except TaskExit:
                    sim.fail("task-exception-escaped", "threadpool:BaseException", "a BaseException raised by a task or its onResult callback escaped from the pool thread's loop")
                except Exception as e:
                    sim.fail("task-exception-escaped", "threadpool:" + type(e).__name__, "%s escaped from the pool thread's loop: %s" % (type(e).__name__, str(e)[:200]))

            if target is not None:
                kw = dict(kw, target=pool_thread_main)
            return sched.thread_factory(*a, **kw)

        pool.threadFactory = thread_factory
        in_coord = [0]
        real_coordinate = pool._team._coordinateThisTask

        def coordinate(task):
            in_coord[0] += 1
            try:
                return real_coordinate(task)
            finally:
                in_coord[0] -= 1

        pool._team._coordinateThisTask = coordinate
        real_create = pool._team._createWorker

        def create():
            # a cooperative pre-emption point right after a refused creation (the creator has just read the limit and the
            # worker counts; whatever the coordinator does next is based on that reading): legal anywhere for real threads,
            # placed here because this is where a concurrent limit change / start() matters
            state["creating_epoch"] = L.epoch    # creations are serialised by the coordinator: one slot is enough
            w = real_create()
            if w is None:
                sim.probe("creation_refused_by_limit")
                sched.point("after-limit-check", demote=True)
            return w

        pool._team._createWorker = create
        if not start_late:
            L.begin(start=True)
            pool.start()
            L.end(start=True)
        state["faults_armed"] = True
        ids = [0]

        def make_task(i, raises, steps):
            kind = _raise_kind(sim) if raises else None
            if kind == "BaseException":
                sim.probe("task_raised_bare_BaseException")

            def task():
                ran[i] = ran.get(i, 0) + 1
                in_progress[0] += 1
                for _ in range(steps):
                    sched.point("task-step")
                in_progress[0] -= 1
                if raises:
                    _do_raise(kind, i)
                return i * 10
            return task

        def on_result(i, raises, cb_raises, cb_kind, cb_every):
            def cb(ok, res):
                got = results.setdefault(i, [])
                got.append(ok)
                # a second report is a violation the moment it is made, whatever the callback did with the first one
                sim.check("result-exactly-once", len(got) == 1, "threadpool", "task %d: onResult called %d times: %r (function raises=%s, callback raises=%s)"
                          % (i, len(got), got, raises, cb_raises))
                sim.check("result-flag-correct", ok == (not raises) and (res == i * 10 if ok else isinstance(res, Failure)), "threadpool",
                          "task %d raises=%s reported ok=%s" % (i, raises, ok))
                if cb_raises and (cb_every or len(got) == 1):
                    sim.fault("onresult_raised_after_success" if ok else "onresult_raised_after_failure")
                    if cb_kind == "BaseException":
                        sim.probe("onresult_raised_bare_BaseException")
                        raise TaskExit("callback of task %d" % i)
                    raise CallbackBug("callback of task %d" % i)
            return cb

        def caller(k, nops):
            for _ in range(nops):
                op = sim.draw_weighted([("submit", 8), ("adjust", adjust_w), ("startw", 1), ("stopw", 1), ("yield", 2)], "cop")
                if op == "submit":
                    ids[0] += 1
                    i = ids[0]
                    raises = sim.draw_bool(0.25, "raises")
                    before_stop = not stop_called[0]
                    plain = bool(no_cb_p) and sim.draw_bool(no_cb_p, "no_callback")
                    cb_raises = not plain and bool(cb_raise_p) and sim.draw_bool(cb_raise_p, "onresult_raises")
                    cb_kind = _raise_kind(sim) if cb_raises else None
                    cb_every = cb_raises and sim.draw_bool(0.5, "onresult_raises_every_time")   # else: only the first time it is called
                    sim.event("submit", i, "plain" if plain else "cb-raises" if cb_raises else "")
                    try:
                        if plain:
                            no_callback.add(i)
                            sim.probe("submitted_without_callback")
                            pool.callInThread(make_task(i, raises, sim.draw_int(0, 2, "steps")))
                        else:
                            pool.callInThreadWithCallback(on_result(i, raises, cb_raises, cb_kind, cb_every), make_task(i, raises, sim.draw_int(0, 2, "steps")))
                        if before_stop and not stop_called[0]:
                            submitted_before_stop.append(i)
                    except AlreadyQuit:
                        sim.check("refused-only-after-stop", stop_called[0], "threadpool", "submission refused before stop()")
                    except WorkerCreationFailed:
                        sim.event("submit-failed", i)    # the submitter was told: not accepted, no verdict on this task
                elif op == "adjust":
                    # the whole legal range: max 0 means "no workers at all" (reactor.suggestThreadPoolSize(0) does that)
                    mx = sim.draw_weighted([(1, 3), (2, 3), (3, 2), (0, 3)], "newmax")
                    from_zero = 0 in L.mx and mx > 0
                    if from_zero:
                        mn = 0 if keep_min0 else sim.draw_int(1, mx, "newmin")     # see ZERO_RAISE_KEEPS_MIN0_P
                    else:
                        mn = sim.draw_int(0, mx, "newmin")
                    form = "both"
                    if not from_zero and L.in_flight == 0 and len(L.mx) == 1 and len(L.mn) == 1:
                        # the forms that give one value only are legal when the pair stays ordered (known here: nobody else is changing it now)
                        form = sim.draw_weighted([("both", 6), ("max_only", 1 if mx >= min(L.mn) else 0), ("min_only", 1 if mn <= min(L.mx) else 0)], "adjust_form")
                    if form == "max_only":
                        mn = None
                    elif form == "min_only":
                        mx = None
                    sim.event("adjust", mn, mx)
                    if mx == 0:
                        sim.probe("limit_set_to_zero")
                    if from_zero:
                        sim.probe("limit_raised_from_zero")
                        if mn == 0:
                            state["raised_from_zero_keeping_min0"] = True
                            sim.probe("limit_raised_from_zero_keeping_min0")
                    if form != "both":
                        sim.probe("limit_changed_one_value_only")
                    L.begin(mn, mx)
                    alone = L.group_n == 1
                    stored = True
                    try:
                        if form == "both":
                            pool.adjustPoolsize(mn, mx)
                        elif form == "max_only":
                            pool.adjustPoolsize(maxthreads=mx)
                        else:
                            pool.adjustPoolsize(mn)
                    except AlreadyQuit:
                        pass
                    except WorkerCreationFailed:
                        state["grow_failed_in_adjust"] = True     # values stored, the workers the new minimum asks for could not be created
                    except AssertionError:
                        stored = False
                        # adjustPoolsize stores min and max in two steps; a concurrent adjust/start can observe the torn pair
                        # and trip its own sanity assertion.  The statement says nothing about that: no verdict - but a request that
                        # names both values (0 <= min <= max) cannot be out of order whatever anybody else does, and one that names a
                        # single value which is in order with the other one cannot either while nobody else changes the pair.
                        sim.probe("torn_limit_pair_seen")
                        sim.check("legal-limit-change-accepted", not (form == "both" or (alone and L.group_n == 1)), "threadpool",
                                  "adjustPoolsize(%r, %r) (%s) was rejected although the pair is in order" % (mn, mx, form))
                    L.end(stored=stored)
                    sim.probe("limit_changed")
                elif op == "startw":
                    try:
                        pool.startAWorker()
                    except (AlreadyQuit, WorkerCreationFailed):
                        pass
                elif op == "stopw":
                    try:
                        pool.stopAWorker()
                    except AlreadyQuit:
                        pass
                    sim.probe("stop_a_worker")
                else:
                    sched.point("caller-yield")

        # a late start is raced by few operations per caller: a submission stranded by the race stays visible (a later submission would rescue it);
        # likewise the runs in which a limit raised from 0 may keep min 0
        callers = [sched.spawn("caller%d" % k, caller, k, sim.draw_int(1, 3 if start_late else 4 if keep_min0 else 8, "nops")) for k in range(ncallers)]
        concurrent_stop = sim.draw_bool(0.3, "concurrent_stop")
        limit_maybe_zero_at_stop = False
        starter = None
        if never_started:
            sim.probe("pool_never_started_before_stop")
        elif start_late:
            # let callers queue work before the pool starts, then start it - on a thread of its own, so that start() interleaves
            # with submissions in progress at line granularity (a submission may be between reading the limit and enqueueing)
            for _ in range(sim.draw_int(0, 10, "prestart")):
                if not sched.step():
                    break

            def do_start():
                if in_coord[0]:
                    sim.probe("start_during_coordination")   # reach probe: start() begins while a submission is being coordinated
                    if not pool._team.statistics().backloggedWorkCount:
                        sim.probe("start_during_coordination_backlog_not_yet_recorded")
                L.begin(start=True)
                try:
                    pool.start()
                except WorkerCreationFailed:
                    # start() could not create a worker it wanted: it reports that to its caller, half-way like below.  No verdict on never-ran tasks.
                    state["start_aborted_by_torn_limits"] = True
                    pool.started = True
                except AssertionError:
                    # see adjust: start() read min/max between a concurrent adjustPoolsize's two stores and tripped its own assert
                    # half-way (after `started = True`, before the backlog was handed to workers).  The statement makes no claim about
                    # concurrent limit setters: from here on the run gives no verdict on tasks that never ran.
                    sim.probe("torn_limit_pair_seen")
                    state["start_aborted_by_torn_limits"] = True
                    pool.started = True
                L.end(start=True)
                sim.probe("started_with_backlog") if pool._team.statistics().backloggedWorkCount else None

            starter = sched.spawn("starter", do_start)
        try:
            if not concurrent_stop:
                sched.run(max_steps=20000, until=lambda: all(c.state == "done" for c in callers))
            else:
                for _ in range(sim.draw_int(0, 30, "before_stop")):
                    if not sched.step():
                        break
            if starter is not None:
                sched.run(max_steps=20000, until=lambda: starter.state == "done")   # a start() that was begun is finished before stop()
            stop_called[0] = True
            limit_maybe_zero_at_stop = 0 in L.mx
            sim.event("stop")
            with sim.guard("stop-raised", "threadpool"):
                pool.stop()   # main thread: block_until drives the scheduler while joining
            not_done = [t.name for t in pool.threads if t.state != "done"]
            sim.check("stop-returns-after-threads-ended", not not_done, "threadpool", "stop() returned while pool threads still alive: %r" % not_done)
            sched.run(max_steps=20000)
        except T.Deadlock as e:
            sim.fail("deadlock", "threadpool", str(e))
        for i, n in ran.items():
            sim.check("task-at-most-once", n <= 1, "threadpool", "task %d ran %d times" % (i, n))
        for i, r in results.items():
            sim.check("result-exactly-once", len(r) == 1 and ran.get(i) == 1, "threadpool", "task %d: onResult %d times, ran %s" % (i, len(r), ran.get(i)))
        if logged:
            sim.probe("pool_logged_an_exception")

        def want(i):
            return 0 if i in no_callback else 1     # reports owed for a task that ran

        missing = [i for i in submitted_before_stop if ran.get(i, 0) != 1 or len(results.get(i, [])) != want(i)]
        witness = "threadpool"
        if never_started:
            # "unless no worker could ever be created": the limit of a pool that is not started is 0 from the first submission to stop()
            # (creations are checked against that limit where they happen): no verdict on tasks that never ran
            sim.probe("never_ran_no_verdict_pool_never_started") if missing else None
            missing = [i for i in missing if ran.get(i, 0) > 1 or len(results.get(i, [])) > 1]
        elif state.get("start_aborted_by_torn_limits"):
            missing = [i for i in missing if ran.get(i, 0) > 1 or len(results.get(i, [])) > 1]   # never-ran gets no verdict; twice still does
        elif limit_maybe_zero_at_stop or L.zero_torn or (L.zero_seen and state.get("grow_failed_in_adjust")):
            # "unless no worker could ever be created": the limit was (possibly) 0 when the pool was stopped, or concurrent limit setters
            # (no claim about those) / a failed creation stood between a backlog collected under limit 0 and the worker that would take it
            sim.probe("never_ran_no_verdict_limit_zero")
            missing = [i for i in missing if ran.get(i, 0) > 1 or len(results.get(i, [])) > 1]
        elif state.get("raised_from_zero_keeping_min0"):
            witness = "threadpool:limit-raised-from-zero"
        sim.check("accepted-task-ran-and-reported-once", not missing, witness,
                  "tasks submitted before stop() that did not run/report exactly once: %r (ran=%r)" % (missing[:5], {i: ran.get(i) for i in missing[:5]}))
        # use after stop(): the pool is finished.  A submission is silently ignored; whatever else is done with the object afterwards
        # (further submissions, start(), limit changes, startAWorker/stopAWorker - each may be ignored or refused with AlreadyQuit, the
        # statement does not say which) no task submitted after stop() ever runs or reports, no worker is created, no pool thread lives.
        before = dict(ran)
        before_results = {i: list(r) for i, r in results.items()}
        late = {"ran": [], "reported": []}
        state["after_stop"] = "submit"
        with sim.guard("late-submit-raised", "threadpool"):
            pool.callInThreadWithCallback(None, lambda: late["ran"].append("late"))
        sched.run(max_steps=200)
        sim.check("no-task-after-stop", ran == before and not late["ran"], "threadpool", "a task submitted after stop() ran")
        for k in range(sim.draw_int(0, 4, "after_stop_ops")):
            aop = sim.draw_weighted([("start", 3), ("submit", 3), ("adjust", 1), ("startw", 1), ("stopw", 1)], "after_stop_op")
            state["after_stop"] = aop
            sim.event("after-stop", aop)
            sim.probe("used_after_stop_" + aop)
            try:
                if aop == "start":
                    pool.start()
                elif aop == "submit":
                    pool.callInThreadWithCallback(lambda ok, res, k=k: late["reported"].append(k), lambda k=k: late["ran"].append(k))
                elif aop == "adjust":
                    mx = sim.draw_int(1, 3, "newmax")
                    pool.adjustPoolsize(sim.draw_int(0, mx, "newmin"), mx)
                elif aop == "startw":
                    pool.startAWorker()
                else:
                    pool.stopAWorker()
            except AlreadyQuit:
                sim.probe("use_after_stop_refused_with_AlreadyQuit")
            except AssertionError:
                # start() re-reads the stored (min, max) pair, which overlapping limit setters may have left out of order (see adjust above): no verdict
                sim.check("legal-limit-change-accepted", aop == "start", "threadpool:after-stop", "%s after stop() tripped an assertion" % aop)
                sim.probe("torn_limit_pair_seen")
            except T.Deadlock as e:
                sim.fail("deadlock", "threadpool:after-stop", str(e))
            try:
                sched.run(max_steps=2000)
            except T.Deadlock as e:
                sim.fail("deadlock", "threadpool:after-stop", str(e))
            sim.check("no-task-after-stop", not late["ran"] and not late["reported"], "threadpool",
                      "tasks submitted after stop() ran %r / reported %r (after %s)" % (late["ran"][:5], late["reported"][:5], aop))
            alive = [t.name for t in pool.threads if t.state != "done"]
            sim.check("no-live-thread-after-stop", not alive, "threadpool", "pool threads alive after stop() had returned (after %s): %r" % (aop, alive))
        sim.check("no-report-after-stop", results == before_results, "threadpool", "an onResult callback of a task submitted before stop() was called again during use after stop()")
    finally:
        sched.shutdown()
        _pool.Queue, _pool.Lock, _pool.LocalStorage, _pool.ThreadWorker = saved
        _tplog.err = saved_log_err
    sim.nontrivial = bool(sim.probes.get("line_preemption") or sim.probes.get("limit_changed") or sim.probes.get("stop_a_worker") or sim.probes.get("started_with_backlog"))


def run(sim):
    if sim.draw_weighted([("team", 5), ("threadpool", 5)], "family") == "team":
        family_a(sim)
    else:
        family_b(sim)


MUTANTS = [
    "_team._recycleWorker: pending task not re-dispatched (pass instead of _coordinateThisTask) -> CAUGHT accepted-task-ran-once / Deadlock",
    "_team._recycleWorker: _toShrink decremented without worker.quit() -> CAUGHT all-workers-stopped-after-quit / worker-created-within-limit",
    "_team doWork: except BaseException -> except ZeroDivisionError -> CAUGHT task-exception-escaped",
    "_threadworker.ThreadWorker.quit without StopThread -> CAUGHT stop-raised:Deadlock",
    "threadpool.inContext: onResult called twice -> CAUGHT result-exactly-once",
    "_team._coordinateThisTask: _busyCount not incremented -> CAUGHT worker-created-within-limit",
    "_team._coordinateThisTask: prefer creating a worker over an idle one -> survives (equivalent for the property: still within the limit)",
    "round 4 (limit range 0..3 with a harness-side limit model; failing worker factory):",
    "threadpool.adjustPoolsize: self.max = max(maxthreads, 1) -> CAUGHT worker-created-within-limit:threadpool",
    "threadpool.currentLimit: return self.max or 1 -> CAUGHT worker-created-within-limit:threadpool",
    "threadpool.adjustPoolsize: None defaults written as `x or self.x` (0 taken for 'not given') -> CAUGHT worker-created-within-limit:threadpool / legal-limit-change-accepted",
    "_threadworker.LockWorker.do: `local.working = None` dropped from the finally (stale re-entrancy marker after a raising job) -> CAUGHT accepted-task-ran-once:team / "
    "all-workers-stopped-after-quit:team / accepted-task-ran-and-reported-once:threadpool",
    "threadpool.adjustPoolsize + `grow(0); grow(backlog)` after the min/max adjustment (the repair of limit-raised-from-zero, in /repo a218f55) -> check holds with ZERO_RAISE_KEEPS_MIN0_P = 1.0; "
    "without the serialising grow(0) a submission pre-empted between the limit read and the backlog append is still stranded -> CAUGHT",
    "round 5 (raising onResult callbacks, callback-less submissions, pool-thread containment):",
    "threadpool.inContext: onResult(True, result) called inside the try whose except arm reports (False, Failure()) -> CAUGHT result-exactly-once:threadpool",
    "threadpool.inContext: `inContext.onResult(ok, result)` wrapped in try/except Exception that reports (False, Failure()) to the same callback -> CAUGHT result-exactly-once:threadpool",
    "_team doWork: except BaseException -> except Exception -> now also CAUGHT in family b (task-exception-escaped:threadpool:BaseException: a callback raising a bare BaseException ends the pool thread)",
    "threadpool.inContext: `elif not ok` -> `else` (log.err for every callback-less task) -> survives (logging only: outside the statement)",
    "round 6 (limit callable that changes under a Team; stop() on a never-started pool; use after stop()):",
    "_team._coordinateThisTask: a task that finds no worker is dropped instead of queued when a backlog exists and nobody is busy -> CAUGHT accepted-task-ran-once:team / accepted-task-ran-and-reported-once:threadpool",
    "_pool.limitedWorkerCreator: compares with the highest limit ever seen instead of the current one -> CAUGHT worker-created-within-limit:team (limit lowered live) / :threadpool",
    "threadpool.stop: `self._team.quit()` only when the pool has threads (a never-started pool is not finished by stop()) -> CAUGHT no-worker-created-after-stop:threadpool",
    "threadpool.callInThreadWithCallback: `if self.joined and self.threads: return` -> CAUGHT late-submit-raised:threadpool:AlreadyQuit",
    "_team.grow: grown worker put into _idle without _recycleWorker (does not take the backlog) -> CAUGHT accepted-task-ran-and-reported-once:threadpool",
    "observations on the unchanged tree, outside the statement (no clause): ThreadPool.adjustPoolsize computes its shrink from `workers`, which still counts busy workers already "
    "marked by an earlier deferred shrink (4 busy, max 4 -> 3 -> 2 leaves 1 worker: fewer than the limit allows, never more; no task is lost); Team doWork: a logException that itself "
    "raises skips idleAndPending (the worker stays counted busy) - the statement quantifies over tasks that raise, not over a raising log hook",
]
