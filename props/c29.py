"""C29 — HTTP/2 server respects flow control and delivers each stream intact.

Engine E3 (net): a real twisted.web._http2.H2Connection (with real H2Stream and
real twisted.web.http.Request objects, send loop on the simulated clock,
registered as streaming producer of its transport exactly as
twisted.web.http._GenericHTTPChannelProtocol does) talks over a simulated link
to an h2 *client* state machine driven by the tape.  1..8 concurrent streams;
the response side of each stream is a small application that writes a known
byte pattern in tape-chosen chunks (directly, through a push producer or through
a pull producer; with Request.write only, or - half of the runs - through a mix
of Request.write, the channel's ITransport.writeSequence with 1..4 pieces given
as list / tuple / iterator, empty pieces included, and writes of NO data: empty
sequence, b"") at tape-chosen moments; the client sends WINDOW_UPDATE
(stream / connection), SETTINGS (INITIAL_WINDOW_SIZE down to 0, MAX_FRAME_SIZE),
PRIORITY at tape-chosen moments; both directions are segmented by the tape; the
server's transport applies back-pressure.  Streams also GO AWAY while the others
are in flight (more often while the transport holds the send loop paused): the
client resets one (RST_STREAM, always delivered to the server in a segment of
its own, see D below) or its application aborts it (abortConnection of the
request's channel).  Nothing is claimed for the removed stream; every other
stream still owes its complete body, resumption and bounded liveness.

The way a body is produced changes in mid-response (knob producer_changes): plain
writes first and a producer registered after them, a producer unregistered
(paused or not) and plain writes or another producer (push / pull) after it - so
that a producer meets whatever earlier phases of the same stream left behind.
Push producers that produce inside resumeProducing write one chunk or chunk after
chunk until they are paused again.  The client may give the credit of every DATA
frame back at once (knob auto_ack: WINDOW_UPDATE of the same size for the stream
and / or the connection, besides the scripted WINDOW_UPDATEs), and in SYNC_LINK_P
of the runs the link is a synchronous in-memory pipe (detsim.net.SyncLink): what
either side writes reaches the other side's dataReceived from inside write(), so
the client's WINDOW_UPDATE for a frame re-enters H2Connection.dataReceived while
the send loop is still inside the transport.write() that carries the frame, and
producers resumed by it write (or finish) before that write() returns.  In the
final phase the client sends only the WINDOW_UPDATEs that are needed (knob
lazy_open): a window larger than what is left, or open and refilled frame by
frame, is not opened again.

Oracles
 * referee: the h2 client raises (FlowControlError, FrameTooLargeError, ...) when
   the server overruns a window or otherwise breaks the protocol;
 * independent ledger: both byte streams are parsed by this module's own 9-byte
   frame-header parser, in the order the server saw/produced them, and the send
   windows (connection, per stream, SETTINGS deltas, WINDOW_UPDATE increments)
   are recomputed from that frame log alone: no DATA frame may exceed the stream
   or the connection window or the peer's MAX_FRAME_SIZE; no DATA/HEADERS frame
   for a stream after its END_STREAM / RST_STREAM;
 * integrity: every DATA payload is the next slice of what the application
   wrote; every stream the client did not reset ends exactly once with exactly
   the bytes written;
 * resumption ("no-resume"): at quiescent points (network drained, send loop
   idle or spinning) a stream with queued data / a paused producer / a pending
   END_STREAM whose stream and connection windows are both open must have made
   progress;
 * bounded liveness: after the client finally opens every window with
   WINDOW_UPDATE frames, all streams complete within a step budget.

Signatures seen on twisted 24.7.0.post0, the tree as first examined (all reproduced outside the harness;
docs/C29_candidate_fix.patch made the check hold; A, B, C and E are genuine defects REPAIRED in /repo
db3fcd2, 8b11fd5, 940589d, 9fde5a6; D is outside the statement):
 A  server-raised:send-loop:FlowControlError     negative window after SETTINGS lowered INITIAL_WINDOW_SIZE: frameData[:negative]
                                                 slices the wrong way, h2 refuses send_data, the send loop dies, bytes are lost
 B  no-resume:after-wu:parked:queued-data        _handleWindowUpdate unblocks the stream but never fires _sendingDeferred
 C  no-resume:after-settings:*                   a SETTINGS that raises INITIAL_WINDOW_SIZE (RemoteSettingsChanged) is ignored
 D  server-raised:app:StreamIDTooLowError, server-raised:send-loop:StreamClosedError, server-raised:dataReceived:StreamClosedError
                                                 RST_STREAM in the same segment as earlier frames of the stream: h2 has closed (or
                                                 forgotten) the stream before Twisted handles the earlier events
                                                 (outside the statement, DESIGN.md 11.4: the scenario never lets a RST_STREAM share a
                                                 dataReceived call with other frames)
 E  server-raised:dataReceived:RuntimeError      connection-level WINDOW_UPDATE resumes a producer that finishes its request:
                                                 self.streams changes size while _handleWindowUpdate iterates over it
"""
import struct
import traceback

from zope.interface import implementer

import h2.config
import h2.connection
import h2.events
import h2.exceptions
import h2.settings

from twisted.internet import interfaces, task
from twisted.web import http
from twisted.web._http2 import H2Connection

from detsim import net
from detsim.sim import Violation

ID = "C29"


def _map_resets(choice):
    # "late": the client resets streams whose response headers it has seen; "any": any stream it has requested.
    # Either way the RST_STREAM frame reaches the server in a segment of its own (Harness.reset), never behind
    # other frames in one dataReceived call (family D, no verdict).
    return choice

ENGINE = "net"
LEVEL = "exploration"
TECHNIQUE = ("deterministic simulation: real H2Connection/H2Stream/Request against a tape-driven h2 client over a segmenting "
             "simulated link; window ledger recomputed from the frame log + h2 client as referee")
QUICK_RUNS = 5600
SYNC_LINK_P = 0.3     # share of the runs whose link is a synchronous in-memory pipe (detsim.net.SyncLink): write() hands the bytes to the peer at once
FORCE_RESETS = None   # dev-time only (sensitivity runs on a patched copy): force the `resets` knob to "none" / "late" / "any"
TWIN_P = 0.08   # this share of the runs drives two independent instances of the scenario one after the other (detsim.runner._run_scenario)
BATCH = 40
COMPONENTS = {
    "real": ["twisted.web._http2.H2Connection", "twisted.web._http2.H2Stream", "twisted.web.http.Request (write/finish/registerProducer)",
             "twisted.internet._producer_helpers._PullToPush", "twisted.internet.task.Cooperator (one work unit per tick, simulated clock)",
             "h2 4.4.1 / hpack / hyperframe (third-party, real): server state machine inside H2Connection and the client peer"],
    "stub": ["`priority` package: /verif/vendor/priority (API-compatible RFC 7540 5.3 dependency tree, weighted fair sharing among siblings, deterministic)",
             "TCP transport, segmentation and sender-side back-pressure (detsim.net.Link / SimTransport); in SYNC_LINK_P of the runs a synchronous "
             "in-memory pipe instead (detsim.net.SyncLink: write() hands the bytes to the peer protocol at once, per-direction FIFO kept, a protocol "
             "is never re-entered while it is inside dataReceived)",
             "reactor time (detsim.clock.SimClock passed as H2Connection(reactor=...))",
             "HTTP/2 client behaviour (tape-driven script on top of the real h2 client state machine; its per-stream inbound window "
             "manager is relaxed to accept a zero-length DATA frame on a negative window, which RFC 7540 6.9.1 allows and h2 rejects)",
             "termination predicate of the global Cooperator (wall-clock 10 ms slice replaced by one work unit per tick)"],
}
RULE = ("run = 1..8 GET streams against one H2Connection (initial INITIAL_WINDOW_SIZE 0..100000, transport high-water mark none..70000); "
        "per stream a body of 0 B..~2.5 windows (families: around the window, exactly the window, small, medium, 16-100 kB) written in "
        "tape-chosen chunks (direct writes / push producer, optionally producing inside resumeProducing / pull producer; part of it possibly "
        "inside process()); knob entry_points (50% of runs): each stream then either keeps to Request.write or mixes, per write, "
        "Request.write / request.channel.writeSequence(list|tuple|iterator of 1..4 pieces cut anywhere, so empty pieces occur) / a write of "
        "no data (writeSequence([]), writeSequence(iter(())), writeSequence([b''] * 1..3), channel.write(b''), Request.write(b'')) that ends "
        "the application's step, so that the send loop turns before anything else is queued on the stream; "
        "10..160 tape-chosen events among: network move (with cut), send-loop tick (with time passing), new request, "
        "application write/finish, WINDOW_UPDATE (stream or connection, 1..200000), SETTINGS (INITIAL_WINDOW_SIZE 0..300000 and/or "
        "MAX_FRAME_SIZE 16384..1000000, one un-ACKed at a time), PRIORITY (weight), quiescence check with the resumption oracle, and stream "
        "removal: client RST_STREAM (knob: never / streams whose response headers arrived / any requested stream; earlier client bytes are "
        "delivered first and the frame then reaches the server alone) or the application aborting its stream (knob, 30% of runs), both "
        "six times likelier while the server's transport has its producer paused, so that the send loop is parked behind the transport "
        "with a stream in hand; removed streams are exempt from every clause, all the others are not; "
        "knob producer_changes (50% of runs): a push / pull application makes 0..4 plain writes before it registers its producer, and a `change` "
        "event unregisters the current producer of a stream (paused or not; up to 3 times per stream) and lets the rest be written plainly or by "
        "a new push / pull producer registered after 0..3 plain writes; push producers that produce inside resumeProducing write one chunk or "
        "(loop style) chunk after chunk until paused again; chunk size choices include the initial window itself; "
        "knob auto_ack (off / both / stream / conn / mixed = tape-chosen per frame): the client answers every DATA frame it receives at once with "
        "WINDOW_UPDATE frames of the frame's size (at most ACK_BUDGET frames before the final phase), and then sends WINDOW_UPDATE / SETTINGS of "
        "its own four times less often when it refills both levels; knob sync_link (SYNC_LINK_P of the runs): detsim.net.SyncLink instead of "
        "the network, whole or tape-cut pieces, mostly with an acknowledging client and more often with the `exact` family (writes as large "
        "as the windows), so that the client's WINDOW_UPDATE re-enters the server from inside the transport.write() of the frame it answers and "
        "resumed producers write / finish there; "
        "then every window is opened by WINDOW_UPDATE (knob lazy_open, 50%: only where needed - not a window larger than what is left, nor an open "
        "one that an acknowledging client refills frame by frame within 300 frames) and the rest must drain within a round budget. Knobs drawn per run switch off, "
        "in a fraction of runs, the preconditions of the defects found (SETTINGS lowering / raising the window, early or any RST_STREAM, "
        "producers that produce inside resumeProducing, the resumption oracle) so that every clause is also exercised on full-length runs. "
        "non-trivial = at least one stream was blocked on a zero/negative flow-control window while it had data queued AND the wire was cut at least once")
LEVEL_NOTE = ("inputs (stream sets, body sizes, chunking) are sampled by a seeded grammar and schedules (interleaving of application writes, "
              "send-loop turns, client frames, segmentation, back-pressure) by the tape: exploration, not enumeration; the `priority` dependency "
              "is a vendored stub, so nothing is claimed about priority policy")
ASSUMPTIONS = [
    "the `priority` dependency is the vendored stub; PRIORITY frames only change weights (no dependencies), since the statement does not quantify over priorities",
    "requests are GET without body; the client never violates the protocol",
    "applications stop writing when notifyFinish reports the stream lost",
    "an application that writes to its channel directly (ITransport.write / writeSequence of request.channel) has started the response first "
    "(Request.write(b'') hands status and headers to the channel); a write of no data (empty sequence, empty piece, b'') is a legal argument of "
    "every entry point and owes the client nothing: 'arbitrary amounts of data' includes none",
    "settle() treats a send-loop turn that takes a piece off a stream's send queue as progress even when nothing reaches the wire (empty piece); "
    "this reads the connection's private queues for pacing only, no verdict depends on it",
    "SETTINGS_MAX_FRAME_SIZE cannot go below 16384 (RFC 7540 6.5.2), so 'tiny' values are only explored for INITIAL_WINDOW_SIZE",
    "at most one un-ACKed SETTINGS frame of the client is in flight (the h2 client cannot attribute ACKs otherwise and would be a wrong referee)",
    "a client RST_STREAM never shares a dataReceived call with other frames (the statement quantifies over WINDOW_UPDATE and SETTINGS; on the "
    "unchanged tree a reset coalesced with earlier frames lets h2 exceptions escape, DESIGN.md 11.4); h2's automatic RST_STREAM replies to "
    "frames on a stream the client has already reset concern a stream the server has forgotten and are sent as they come",
    "an application that aborted its stream (unregisterProducer, then abortConnection on the request's channel) does not touch the request again; "
    "the server may send exactly one RST_STREAM on such a stream and on no other",
    "a frame that the server sends on a stream after it has processed the peer's RST_STREAM for it (buffered HEADERS flushed late) gets no verdict: "
    "the statement is silent about it (counted in probe frame_after_rst_received)",
    "an application may register a producer at any point of its response, unregister it at any time (also while it is paused) and go on with plain "
    "writes or with another producer; a producer that is no longer registered ignores calls it still gets (no verdict; none seen on the unchanged tree)",
    "a transport may hand written bytes to the peer from inside write() (in-memory pipe); the peer's answer then reaches H2Connection.dataReceived "
    "while the server is inside transport.write(), but never while it is inside dataReceived itself (FIFO kept, rule of detsim.net.SyncLink); "
    "the frame log orders what the server wrote before those bytes ahead of them; such a pipe has no buffer, hence applies no back-pressure",
    "a client that has already granted more credit than the rest of a body needs (or keeps refilling both windows frame by frame) owes no further "
    "WINDOW_UPDATE: with lazy_open the bounded-liveness clause is evaluated without one; a window that the rest of the body would use up exactly "
    "is still opened, because a producer paused on a window that ran out exactly waits for the client",
    "server-raised: an exception escaping from H2Connection.dataReceived, from its send loop or from Request.write/finish is a violation, because on a "
    "real reactor it tears the connection down or kills the send loop, so no stream of the connection can complete",
]
RUN_WALL_LIMIT_S = 30

PREFACE_LEN = 24
T_DATA, T_HEADERS, T_PRIORITY, T_RST, T_SETTINGS, T_PUSH, T_PING, T_GOAWAY, T_WU, T_CONT = range(10)
TNAMES = ["DATA", "HEADERS", "PRIORITY", "RST", "SETTINGS", "PUSH", "PING", "GOAWAY", "WU", "CONT"]
S_IWS, S_MFS = 4, 5

_BASE = b"".join(struct.pack(">I", i) for i in range(260000))   # ~1 MB, every aligned word unique


# ------------------------------------------------------------------ frame log / window ledger

class _Parser:
    """Incremental HTTP/2 frame splitter (own code; no h2/hyperframe)."""

    def __init__(self, skip=0):
        self.buf = bytearray()
        self.skip = skip

    def feed(self, data):
        if self.skip:
            n = min(self.skip, len(data))
            self.skip -= n
            data = data[n:]
        self.buf += data
        out = []
        while len(self.buf) >= 9:
            ln = (self.buf[0] << 16) | (self.buf[1] << 8) | self.buf[2]
            if len(self.buf) < 9 + ln:
                break
            typ, flags = self.buf[3], self.buf[4]
            sid = struct.unpack(">I", bytes(self.buf[5:9]))[0] & 0x7FFFFFFF
            payload = bytes(self.buf[9:9 + ln])
            del self.buf[:9 + ln]
            out.append((typ, flags, sid, payload))
        return out


class Ledger:
    """The server's send windows as implied by the frames alone."""

    def __init__(self, h):
        self.h = h
        self.conn_win = 65535
        self.iws = 65535
        self.mfs = 16384
        self.st = {}          # sid -> dict
        self.pin = _Parser(PREFACE_LEN)
        self.pout = _Parser(0)
        self.outpos = 0
        self.blocked_with_data = False

    def eff(self, s):
        return min(self.conn_win, s["win"])

    def _opened(self, before, kind):
        for sid in sorted(self.st):
            s = self.st[sid]
            if sid in before and self.eff(s) > before[sid]:
                s["opener"] = kind

    def feed_in(self, data):
        for typ, flags, sid, p in self.pin.feed(data):
            before = {k: self.eff(v) for k, v in self.st.items()}
            if typ == T_HEADERS:
                if sid not in self.st:
                    self.st[sid] = {"win": self.iws, "sent": 0, "ended": False, "rst_out": False, "rst_in": False,
                                    "hdr": 0, "opener": "none", "was_closed": False}
            elif typ == T_SETTINGS and not (flags & 1):
                for i in range(0, len(p), 6):
                    ident, val = struct.unpack(">HI", p[i:i + 6])
                    if ident == S_IWS:
                        delta = val - self.iws
                        self.iws = val
                        for s in self.st.values():
                            if not (s["ended"] or s["rst_out"] or s["rst_in"]):
                                s["win"] += delta
                    elif ident == S_MFS:
                        self.mfs = val
                self._opened(before, "settings")
            elif typ == T_WU:
                inc = struct.unpack(">I", p)[0] & 0x7FFFFFFF
                if sid == 0:
                    self.conn_win += inc
                    self._opened(before, "wu")
                elif sid in self.st:
                    self.st[sid]["win"] += inc
                    self._opened(before, "wu")
            elif typ == T_RST:
                if sid in self.st:
                    self.st[sid]["rst_in"] = True

    def feed_out(self, written):
        if len(written) == self.outpos:
            return
        data = bytes(written[self.outpos:])
        self.outpos = len(written)
        sim = self.h.sim
        for typ, flags, sid, p in self.pout.feed(data):
            name = TNAMES[typ] if typ < len(TNAMES) else "T%d" % typ
            sim.event("S>", name, sid, len(p), flags)
            if typ == T_DATA:
                s = self.st.get(sid)
                sim.check("data-on-unknown-stream", s is not None, "DATA", "stream %d" % sid)
                closed = "END_STREAM" if s["ended"] else "RST-sent" if s["rst_out"] else None
                sim.check("frame-after-close", closed is None, "DATA-after-%s" % closed,
                          "DATA (%d bytes) on stream %d after %s" % (len(p), sid, closed))
                if s["rst_in"]:
                    sim.probe("frame_after_rst_received")   # no verdict: the statement is silent (see report)
                n = len(p)
                body = p
                if flags & 0x8:
                    pad = p[0]
                    body = p[1:len(p) - pad]
                sim.check("frame-too-large", n <= self.mfs, "DATA", "DATA of %d bytes on stream %d, peer MAX_FRAME_SIZE %d" % (n, sid, self.mfs))
                if n:
                    sim.check("window-overrun", n <= s["win"], "stream",
                              "DATA of %d bytes on stream %d with stream window %d (conn %d)" % (n, sid, s["win"], self.conn_win))
                    sim.check("window-overrun", n <= self.conn_win, "connection",
                              "DATA of %d bytes on stream %d with connection window %d" % (n, sid, self.conn_win))
                s["win"] -= n
                self.conn_win -= n
                app = self.h.app_by_sid[sid]
                exp = app.body[s["sent"]:s["sent"] + len(body)]
                sim.check("body-order", s["sent"] + len(body) <= app.pos and exp == body, "frame-log",
                          lambda: "stream %d: DATA at offset %d len %d is not the next slice of what the application wrote (written %d)"
                          % (sid, s["sent"], len(body), app.pos))
                s["sent"] += len(body)
                if flags & 0x1:
                    s["ended"] = True
                    sim.check("body-complete", s["sent"] == app.pos and app.finished, "frame-log",
                              "stream %d ended after %d of %d bytes (finished=%s)" % (sid, s["sent"], app.pos, app.finished))
                if app.pos > s["sent"] and self.eff(s) <= 0:
                    self.blocked_with_data = True
                    s["was_closed"] = True
            elif typ == T_HEADERS:
                s = self.st.get(sid)
                sim.check("data-on-unknown-stream", s is not None, "HEADERS", "stream %d" % sid)
                closed = "END_STREAM" if s["ended"] else "RST-sent" if s["rst_out"] else None
                sim.check("frame-after-close", closed is None, "HEADERS-after-%s" % closed, "HEADERS on stream %d after %s" % (sid, closed))
                if s["rst_in"]:
                    sim.probe("frame_after_rst_received")   # buffered control frame flushed after the peer's RST_STREAM: no verdict
                s["hdr"] += 1
                if flags & 0x1:
                    s["ended"] = True
            elif typ == T_RST:
                s = self.st.get(sid)
                code = struct.unpack(">I", p)[0]
                app = self.h.app_by_sid.get(sid)
                # only a stream whose application aborted it may be reset by the server, and only once
                sim.check("server-reset-stream", s is not None and app is not None and app.aborted and not s["rst_out"], "RST_STREAM",
                          "server sent RST_STREAM(%d) on stream %d (known=%s, aborted by its application=%s)"
                          % (code, sid, s is not None, bool(app and app.aborted)))
                sim.check("frame-after-close", not s["ended"], "RST-after-END_STREAM", "RST_STREAM on stream %d after END_STREAM" % sid)
                s["rst_out"] = True
            elif typ == T_GOAWAY:
                code = struct.unpack(">I", p[4:8])[0]
                sim.check("server-goaway", False, "GOAWAY", "server sent GOAWAY error=%d %r" % (code, p[8:60]))


# ------------------------------------------------------------------ application side

class App:
    def __init__(self, h, k):
        self.h = h
        self.k = k
        self.sid = 2 * k + 1
        self.body = b""
        self.pos = 0
        self.mode = "direct"
        self.maxchunk = 1
        self.eager = 0            # push producer: produces inside resumeProducing (1: one chunk, 2: until paused again)
        self.sync = 0
        self.request = None
        self.registered = False
        self.paused = False
        self.finished = False
        self.dead = False
        self.nwrites = 0
        self.requested = False
        self.client_reset = False
        self.aborted = False
        self.producer = None
        self.style = "plain"      # entry points of the response channel the application uses for its body (see emit)
        self.started = False      # the response has been started (headers handed to the channel)
        self.late = 0             # plain writes the application still makes before it registers its producer
        self.nproducers = 0       # producers registered so far
        self.busy = 0             # the application is inside one of its own write calls
        self.nchanges = 0         # changes of the way the body is produced (change_producer)

    def removed(self):
        """The stream was taken away (peer's RST_STREAM / aborted by the application): nothing is owed for it."""
        return self.client_reset or self.aborted

    # what the harness may do next for this stream
    def can_act(self):
        if self.request is None or self.dead or self.finished:
            return False
        if self.mode == "pull":
            return not self.registered
        if self.mode == "push":
            return (not self.registered) or (not self.paused)
        return True

    def lost(self, failure):
        self.dead = True
        self.h.sim.event("app-lost", self.k)
        return None

    def write_chunk(self, big=False):
        self.busy += 1
        try:
            return self._write_chunk(big)
        finally:
            self.busy -= 1

    def _write_chunk(self, big=False):
        h = self.h
        sim = h.sim
        left = len(self.body) - self.pos
        if left <= 0:
            return False
        how = "write"
        if self.style != "plain":
            how = sim.draw_weighted([("write", 3), ("seq", 4), ("nothing", 0 if big else 3)], "how")
        if how == "nothing":
            # a write of NO data: legal through every entry point, changes nothing the client can see, and the step ends here
            # (whatever the server scheduled for this stream runs before the application queues anything else)
            self.write_nothing()
            return True
        n = min(left, self.maxchunk)
        if n > 1 and not big and not sim.draw_bool(0.5, "partial"):
            # part of a chunk; of a large one not less than an eighth (keeps the number of writes of a big body - and of an
            # exhausted replay tape, which draws the minimum every time - small)
            n = sim.draw_int(1 if n < 2000 else n // 8, n, "chunk")
        data = self.body[self.pos:self.pos + n]
        self.pos += n
        self.nwrites += 1
        if h.in_nested_delivery:
            sim.probe("application_wrote_while_server_was_inside_transport_write")
        if how == "write":
            sim.event("app-write", self.k, n)
            self.started = True
            with sim.guard("server-raised", "app"):
                self.request.write(data)
            return True
        # ITransport.writeSequence of the request's channel: the same bytes as 1..4 pieces (some possibly empty), handed over
        # as a list, a tuple or a one-shot iterator
        npieces = sim.draw_choice([1, 2, 3, 4], "npieces")
        cuts = sorted(sim.draw_int(0, n, "piece-cut") for _ in range(npieces - 1))
        pieces = [data[a:b] for a, b in zip([0] + cuts, cuts + [n])]
        self.nwrites += len(pieces) - 1
        form = sim.draw_choice(["list", "iter", "tuple"], "seq-form")
        self.start_response()
        sim.event("app-write-seq", self.k, form, *[len(x) for x in pieces])
        sim.probe("write_sequence")
        if any(not x for x in pieces):
            sim.probe("write_sequence_with_empty_piece")
        seq = pieces if form == "list" else tuple(pieces) if form == "tuple" else iter(pieces)
        with sim.guard("server-raised", "app"):
            self.request.channel.writeSequence(seq)
        return True

    def start_response(self):
        """Hand status line and headers to the channel before writing to the channel directly (Request.write of no data)."""
        if not self.started:
            self.started = True
            self.h.sim.event("app-start", self.k)
            with self.h.sim.guard("server-raised", "app"):
                self.request.write(b"")

    def write_nothing(self):
        sim = self.h.sim
        kind = sim.draw_choice(["seq-empty-list", "write-empty", "seq-empty-iter", "seq-of-empties", "channel-write-empty"], "nothing")
        if kind != "write-empty":
            self.start_response()
        sim.event("app-write-nothing", self.k, kind)
        self.nothings = getattr(self, "nothings", 0) + 1     # pacing of settle() only: an answer that carries no data is still an answer
        sim.probe("write_nothing_" + kind.replace("-", "_"))
        led = self.h.ledger.st.get(self.sid)
        if led is not None and self.pos == led["sent"] and self.h.ledger.eff(led) > 0:
            sim.probe("write_nothing_on_idle_stream_with_open_window")
        if kind == "write-empty":
            self.started = True
            with sim.guard("server-raised", "app"):
                self.request.write(b"")
            return
        channel = self.request.channel
        with sim.guard("server-raised", "app"):
            if kind == "seq-empty-list":
                channel.writeSequence([])
            elif kind == "seq-empty-iter":
                channel.writeSequence(iter(()))
            elif kind == "seq-of-empties":
                k = sim.draw_choice([1, 2, 3], "nempties")
                self.nwrites += k           # each empty piece may cost the send loop one turn (drain budget)
                channel.writeSequence([b""] * k)
            else:
                self.nwrites += 1
                channel.write(b"")

    def finish(self):
        h = self.h
        self.finished = True
        h.sim.event("app-finish", self.k)
        if h.in_nested_delivery:
            h.sim.probe("application_finished_while_server_was_inside_transport_write")
        with h.sim.guard("server-raised", "app"):
            if self.registered:
                self.request.unregisterProducer()
            self.request.finish()

    def abort(self):
        """The application gives up on its response: ITransport.abortConnection of its channel (RST_STREAM)."""
        h = self.h
        self.aborted = True
        self.dead = True
        h.sim.event("app-abort", self.k)
        with h.sim.guard("server-raised", "app"):
            if self.registered:
                self.request.unregisterProducer()
            self.request.channel.abortConnection()

    def act(self, big=False):
        """One application step (harness-initiated)."""
        h = self.h
        if self.mode in ("push", "pull") and not self.registered:
            if self.late > 0 and self.pos < len(self.body):
                # the part of the body that goes out before the producer exists: plain writes, nobody to pause
                self.late -= 1
                h.sim.probe("plain_write_before_producer")
                self.write_chunk(big)
                return
            self.registered = True
            self.paused = False
            self.nproducers += 1
            self.producer = PushProducer(self) if self.mode == "push" else PullProducer(self)
            h.sim.event("app-register", self.k, self.mode)
            led = h.ledger.st.get(self.sid)
            if self.pos > 0:
                h.sim.probe("producer_registered_after_plain_writes")
                if led is not None and led["was_closed"] and self.pos == led["sent"] and h.ledger.eff(led) > 0:
                    # everything written so far has left, the windows had been used up on the way and are open again
                    h.sim.probe("producer_registered_after_window_reopened")
            if self.nproducers > 1:
                h.sim.probe("second_producer_registered")
            with h.sim.guard("server-raised", "app"):
                self.request.registerProducer(self.producer, self.mode == "push")
            return
        if not self.write_chunk(big):
            self.finish()

    def change_producer(self):
        """The application changes how it produces the rest of the body: the current producer (if any; paused or not) is
        unregistered, and the rest is written plainly or by a new producer registered after 0..3 plain writes."""
        h = self.h
        sim = h.sim
        if self.registered:
            sim.event("app-unregister", self.k, self.mode, int(self.paused))
            sim.fault("producer_unregistered_in_mid_response")
            if self.paused:
                sim.fault("paused_producer_unregistered")
            self.registered = False
            self.paused = False
            self.producer = None
            with sim.guard("server-raised", "app"):
                self.request.unregisterProducer()
        self.mode = sim.draw_choice(["push", "direct", "pull"], "new-mode")
        self.late = sim.draw_choice([0, 1, 3], "new-late")
        sim.event("app-mode", self.k, self.mode, self.late)


@implementer(interfaces.IPushProducer)
class PushProducer:
    def __init__(self, app):
        self.app = app

    def pauseProducing(self):
        if self.app.producer is not self:
            return      # a producer that is no longer registered ignores what it is told (no verdict: the statement is silent)
        self.app.paused = True
        self.app.h.sim.event("producer-paused", self.app.k)
        self.app.h.sim.probe("producer_paused")

    def resumeProducing(self):
        app = self.app
        if app.producer is not self:
            return
        app.paused = False
        app.h.sim.event("producer-resumed", app.k)
        app.h.sim.probe("producer_resumed")
        if app.eager and not app.dead and not app.finished and not app.busy:
            # a producer that produces synchronously when told to resume: one chunk, or (eager 2) chunk after chunk until it
            # is paused again or has finished, as producers that run a write loop do (not from inside a write call of its own:
            # "what the application wrote" would have no defined order)
            for _ in range(40 if app.eager == 2 else 1):
                if app.paused or app.dead or app.finished or app.producer is not self:
                    break
                if not app.write_chunk():
                    app.finish()

    def stopProducing(self):
        if self.app.producer is self:
            self.app.dead = True


@implementer(interfaces.IPullProducer)
class PullProducer:
    def __init__(self, app):
        self.app = app

    def resumeProducing(self):
        app = self.app
        if app.producer is not self:
            return
        if app.dead or app.finished:
            return
        app.h.sim.probe("pull_produce")
        if not app.write_chunk():
            app.finish()

    def stopProducing(self):
        if self.app.producer is self:
            self.app.dead = True


class SimRequest(http.Request):
    harness = None

    def process(self):
        self.harness.on_request(self)


# ------------------------------------------------------------------ client peer

class Peer:
    """Tape-driven HTTP/2 client on the real h2 state machine; scripted peer and referee."""

    def __init__(self, h):
        self.h = h
        self.conn = h2.connection.H2Connection(config=h2.config.H2Configuration(client_side=True, header_encoding=None))
        self.transport = None
        self.lost = False
        self.cl = {}   # sid -> dict(data, ended, hdr, reset)
        self.pending_settings = 0
        self.rbuf = bytearray()
        self.acks_left = ACK_BUDGET     # auto_ack: DATA frames still to be answered before the final phase

    def makeConnection(self, t):
        self.transport = t
        self.conn.initiate_connection()
        self.pending_settings += 1
        self.flush()

    def flush(self):
        d = self.conn.data_to_send()
        if d:
            self.transport.write(d)

    def connectionLost(self, reason):
        self.lost = True
        self.h.sim.event("client-connection-lost")

    def dataReceived(self, data):
        sim = self.h.sim
        # h2 fixes its inbound frame-size limit once per receive_data() call, so a SETTINGS ACK coalesced with a
        # following larger frame would be refused although the server is right: feed h2 one frame per call
        self.rbuf += data
        events = []
        while len(self.rbuf) >= 9:
            ln = (self.rbuf[0] << 16) | (self.rbuf[1] << 8) | self.rbuf[2]
            if len(self.rbuf) < 9 + ln:
                break
            frame = bytes(self.rbuf[:9 + ln])
            del self.rbuf[:9 + ln]
            try:
                events.extend(self.conn.receive_data(frame))
            except h2.exceptions.ProtocolError as e:
                sim.check("client-rejected", False, type(e).__name__, "h2 client refused the server's bytes: %s: %s" % (type(e).__name__, str(e)[:200]))
        for ev in events:
            if isinstance(ev, h2.events.ResponseReceived):
                c = self.cl[ev.stream_id]
                c["hdr"] += 1
                sim.event("C<", "response", ev.stream_id)
                sim.check("response-once", c["hdr"] == 1 and not c["data"] and not c["ended"], "client", "stream %d" % ev.stream_id)
                k = (ev.stream_id - 1) // 2
                hd = dict(ev.headers)
                sim.check("response-headers", hd.get(b":status") == b"200" and hd.get(b"x-stream") == b"stream-%d-%s" % (k, b"abcdefgh"[k:k + 1] * (k + 3)),
                          "client", lambda: "stream %d got headers %r" % (ev.stream_id, ev.headers))
            elif isinstance(ev, h2.events.DataReceived):
                c = self.cl[ev.stream_id]
                app = self.h.app_by_sid[ev.stream_id]
                sim.check("ended-once", not c["ended"], "data-after-end", "stream %d got DATA after END_STREAM" % ev.stream_id)
                off = len(c["data"])
                c["data"] += ev.data
                sim.check("body-order", bytes(c["data"][off:]) == app.body[off:off + len(ev.data)] and len(c["data"]) <= app.pos, "client",
                          lambda: "stream %d: bytes at offset %d differ from what was written" % (ev.stream_id, off))
                self.acknowledge(ev, app, c)
            elif isinstance(ev, h2.events.StreamEnded):
                c = self.cl[ev.stream_id]
                sim.event("C<", "end", ev.stream_id, len(c["data"]))
                c["ended"] += 1
                sim.check("ended-once", c["ended"] == 1, "ended-twice", "stream %d" % ev.stream_id)
            elif isinstance(ev, h2.events.StreamReset):
                sim.event("C<", "reset", ev.stream_id)
                if ev.stream_id in self.cl:
                    self.cl[ev.stream_id]["srv_reset"] = True
            elif isinstance(ev, h2.events.ConnectionTerminated):
                sim.event("C<", "goaway", int(ev.error_code))
            elif isinstance(ev, h2.events.SettingsAcknowledged):
                self.pending_settings -= 1
        self.flush()


def _acknowledge(self, ev, app, c):
    """Knob auto_ack: the client gives back the credit a DATA frame used as soon as it has the frame (what a client that
    consumes the body at once does): WINDOW_UPDATE of the same size for the stream (while it is open) and / or the connection."""
    sim = self.h.sim
    mode = self.h.cfg["auto_ack"]
    n = ev.flow_controlled_length
    if mode == "off" or not n:
        return
    if self.acks_left <= 0:
        sim.probe("auto_ack_budget_used_up")       # keeps runs short (tiny windows refilled frame by frame): a harness budget
        return
    how = mode if mode != "mixed" else sim.draw_choice(["both", "none", "stream", "conn"], "ack")
    if how == "none":
        return
    self.acks_left -= 1
    stream_open = ev.stream_ended is None and not app.client_reset and not c["srv_reset"]
    sim.event("C>", "ack", ev.stream_id, n, how, int(stream_open))
    sim.probe("auto_ack")
    if self.h.in_server:
        sim.probe("auto_ack_while_server_is_inside_a_call")
    if how in ("both", "stream") and stream_open:
        try:
            self.conn.increment_flow_control_window(n, ev.stream_id)
        except (h2.exceptions.StreamClosedError, h2.exceptions.NoSuchStreamError, KeyError):
            pass        # END_STREAM came in a later frame of the same segment: nothing to give back on the stream
    if how in ("both", "conn"):
        self.conn.increment_flow_control_window(n)


Peer.acknowledge = _acknowledge


def _lenient(wm):
    """RFC 7540 6.9.1 lets an empty DATA frame (END_STREAM) be sent when no window is available, also when a
    SETTINGS change made the window negative; h2's receive path raises FlowControlError for a zero-length frame
    on a negative window.  The referee is relaxed for exactly that case."""
    orig = wm.window_consumed

    def window_consumed(size):
        if size == 0:
            return None
        return orig(size)

    wm.window_consumed = window_consumed


class _Inside:
    """Marks the extent of a harness-initiated call into the server side (clock call, application step)."""

    def __init__(self, h):
        self.h = h

    def __enter__(self):
        self.h.in_server += 1

    def __exit__(self, *exc):
        self.h.in_server -= 1
        return False


class ServerTap:
    """Sits between the link and the real H2Connection so that the frame log
    records inbound frames before the server's reaction to them."""

    def __init__(self, h):
        self.h = h

    def makeConnection(self, t):
        self.h.server.makeConnection(t)

    def dataReceived(self, data):
        h = self.h
        # whatever the server wrote before these bytes reached it comes first in the frame log (on a synchronous link the
        # client's answer to a frame arrives from inside the write() that carries the frame)
        h.ledger.feed_out(h.link.a.written)
        nested = h.in_server > 0
        if nested:
            h.sim.probe("server_reentered_from_its_own_write")
        h.ledger.feed_in(data)
        h.in_server += 1
        h.in_nested_delivery += nested
        try:
            with h.sim.guard("server-raised", "dataReceived"):
                h.server.dataReceived(data)
        finally:
            h.in_server -= 1
            h.in_nested_delivery -= nested
        h.after()

    def connectionLost(self, reason):
        self.h.sim.event("server-connection-lost")
        self.h.server.connectionLost(reason)


# ------------------------------------------------------------------ the run

ACK_BUDGET = 300
IWS_CHOICES = [65535, 0, 1, 2, 5, 17, 100, 1000, 16384, 100000, 300000]
MFS_CHOICES = [16384, 16385, 20000, 32768, 65536, 1000000]
INC_CHOICES = [1, 2, 10, 100, 1000, 16384, 65535, 200000]
AMOUNTS = [None, 1, 2, 9, 10, 17, 100, 1000, 16393, 40000]


class Harness:
    def __init__(self, sim):
        self.sim = sim
        self.clock = sim.clock
        self.apps = []
        self.app_by_sid = {}
        self.prio_used = False
        self.in_nested_delivery = 0   # inside a dataReceived of the server that was called from inside a write() of the server
        self.in_server = 0        # depth of calls into the server (dataReceived, clock calls, application calls) the harness is inside

    # --- construction
    def build(self):
        sim = self.sim
        n = sim.draw_int(1, 8, "nstreams")
        init_iws = sim.draw_choice([65535, 0, 1, 7, 100, 1000, 20000, 100000], "init_iws")
        hwm = sim.draw_choice([None, 0, 1, 100, 5000, 70000], "hwm")
        family = sim.draw_choice(["window", "small", "medium", "big", "exact"], "family")
        cfg = {"nstreams": n, "init_iws": init_iws, "hwm": hwm, "family": family,
               "settings_shrink": sim.draw_bool(0.7, "settings_shrink"),   # SETTINGS may lower INITIAL_WINDOW_SIZE (windows can go negative)
               "settings_open": sim.draw_bool(0.7, "settings_open"),   # SETTINGS may raise INITIAL_WINDOW_SIZE
               "eager": sim.draw_bool(0.6, "eager"),                   # push producers write synchronously inside resumeProducing
               # streams that go away while the others are in flight.  RST_STREAM from the client: never / only after the
               # response headers arrived / at any time.  The statement quantifies over WINDOW_UPDATE and SETTINGS, so nothing
               # is claimed about the removed stream itself; the OTHER streams still owe everything.  A reset that shares a
               # segment (one dataReceived call) with earlier frames makes exceptions escape _http2 on the unchanged tree
               # (DESIGN.md 11.4, "family D", no verdict): every RST_STREAM is delivered in a segment of its own.
               "resets": _map_resets(sim.draw_choice(["none", "late", "none", "any"], "resets")),
               "aborts": sim.draw_bool(0.3, "aborts"),                # applications may abort their stream (channel.abortConnection)
               "resume_check": sim.draw_bool(0.75, "resume_check"),   # evaluate the resumption oracle at quiescent points
               "prio": sim.draw_bool(0.3, "prio"),
               # applications may hand their body to the channel through its other ITransport entry points (writeSequence of
               # lists / tuples / iterators of 0..4 pieces, empty pieces) and may write no data at all (empty sequence, b"")
               "entry_points": sim.draw_bool(0.5, "entry_points"),
               "nops": sim.draw_int(10, 160, "nops"),
               # the application changes how it produces its body in mid-response: plain writes first and a producer later,
               # a producer unregistered (paused or not) and plain writes or another producer (push / pull) after it
               "producer_changes": sim.draw_bool(0.5, "producer_changes"),
               # the client answers the DATA it receives with WINDOW_UPDATE frames of the same size at once (stream and
               # connection / one of them / tape-chosen per frame), besides the WINDOW_UPDATEs the script sends on its own
               "auto_ack": sim.draw_choice(["off", "both", "off", "mixed", "stream", "conn"], "auto_ack"),
               # in-memory pipe instead of a network: what either side writes reaches the other side's dataReceived from inside
               # write(), so the client's reaction to a DATA frame re-enters the server while it is still sending that frame
               # (a peer on such a pipe that never reacts to what it gets adds little: it mostly does react)
               "sync_link": sim.draw_bool(SYNC_LINK_P, "sync_link"),
               # final phase: the client sends only the WINDOW_UPDATEs that are still needed (a window that already covers what
               # is left, or that the client refills frame by frame, is not opened again)
               "lazy_open": sim.draw_bool(0.5, "lazy_open")}
        if FORCE_RESETS is not None:
            cfg["resets"] = FORCE_RESETS
        if cfg["sync_link"]:
            if cfg["auto_ack"] == "off" and sim.draw_bool(0.8, "sync-reacts"):
                cfg["auto_ack"] = sim.draw_choice(["mixed", "both", "stream"], "sync-ack")
            # nothing ever waits in an instantaneous pipe, so windows only run out (and producers only get paused) when
            # writes are as large as the windows: that family more often
            if sim.draw_bool(0.4, "sync-exact"):
                family = cfg["family"] = "exact"
        self.cfg = cfg
        sim.config = cfg
        self.cur_iws = init_iws       # value of the client's last INITIAL_WINDOW_SIZE sent
        off = 0
        for k in range(n):
            app = App(self, k)
            w = max(init_iws, 1)
            if family == "window":
                base = min(w, 70000)
                L = sim.draw_choice([base, 0, base - 1, base + 1, 2 * base, 2 * base + 1, base // 2 + 1, 3], "len")
                L += 0 if base > 2000 else sim.draw_int(0, 40, "extra")
            elif family == "exact":
                # bodies that exhaust the stream (or, for the first sender, the connection) window exactly
                base = min(w, 65535)
                L = sim.draw_choice([base, base, base + 1, base - 1, 0, 2 * base, 3 * base if base <= 20000 else 2 * base], "len")
            elif family == "small":
                L = sim.draw_int(0, 300, "len")
            elif family == "medium":
                L = sim.draw_int(0, 9000, "len")
            else:
                L = sim.draw_choice([20000, 40000, 65535, 65536, 70000, 100000, 16384, 16385], "len")
            L = max(0, L)
            start = off + sim.draw_int(0, 3, "align")
            off = start + L + 4
            assert off < len(_BASE)
            app.body = _BASE[start:start + L]
            app.mode = sim.draw_choice(["direct", "push", "pull", "direct"] if family != "exact" else ["push", "direct", "push", "pull"], "mode")
            if family == "exact":
                mc = sim.draw_choice([1 << 30, "window", 1000, "window", 1 << 30, 7, 16384], "maxchunk")
            else:
                mc = sim.draw_choice([1 << 30, 1, 7, 100, 1000, 16384, 20000, "window"], "maxchunk")
            if mc == "window":
                mc = max(1, init_iws)      # an application whose writes are as large as the window the client started with
            if L > 3000 and mc < 100:
                mc = 1000      # keep runs short
            if L > 30000 and mc < 16384:
                mc = 16384
            app.maxchunk = mc
            app.eager = (1 + int(sim.draw_bool(0.5, "eager-loop"))) if cfg["eager"] and sim.draw_bool(0.8, "eager1") else 0
            app.sync = sim.draw_choice([0, 1, 2, 9], "sync")   # chunks written synchronously inside process(); 9 = everything + finish
            # entry points used for the body: Request.write only, or a mix of Request.write, channel.writeSequence and writes of no data
            app.style = sim.draw_choice(["plain", "mixed"], "style") if cfg["entry_points"] else "plain"
            # plain writes that precede the registration of the producer
            app.late = sim.draw_choice([0, 0, 1, 2, 4], "late") if cfg["producer_changes"] and app.mode != "direct" else 0
            self.apps.append(app)
            self.app_by_sid[app.sid] = app
            cfg.setdefault("streams", []).append([L, app.mode, mc if mc < (1 << 30) else "all", int(app.eager), app.sync, app.style, app.late])

        # deterministic stand-in for the global cooperator (its default slice is 10 ms of wall clock)
        self._old_coop = task._theCooperator
        task._theCooperator = task.Cooperator(terminationPredicateFactory=lambda: (lambda: True),
                                              scheduler=lambda f: self.clock.callLater(1e-8, f))
        self.server = H2Connection(reactor=self.clock)
        # pass-through instrumentation: an exception leaving the send loop is recorded even when a Deferred
        # swallows it (the loop is re-entered from _sendingDeferred / _consumerBlocked callbacks)
        real_loop = self.server._sendPrioritisedData

        def loop_wrapper(*a):
            try:
                return real_loop(*a)
            except Violation:
                raise
            except Exception as e:
                tb = traceback.extract_tb(e.__traceback__)[-1]
                sim.check("server-raised", False, "send-loop:%s" % type(e).__name__,
                          "%s: %s (at %s:%s %s)" % (type(e).__name__, str(e)[:200], tb.filename.split("/")[-1], tb.lineno, tb.name))

        self._loop_wrapper = loop_wrapper
        self.server._sendPrioritisedData = loop_wrapper
        for dc in self.clock.getDelayedCalls():     # the first turn was scheduled by __init__ with the bare method
            if dc.func == real_loop:
                dc.func = loop_wrapper
        SimReq = type("SimReq", (SimRequest,), {"harness": self})
        self.server.requestFactory = SimReq
        self.server.site = None
        self.server.factory = None
        self.server.timeOut = None
        self.server.callLater = self.clock.callLater
        self.peer = Peer(self)
        self.ledger = Ledger(self)
        self.tap = ServerTap(self)
        self.sync = bool(cfg["sync_link"])
        if self.sync:
            # an in-memory pipe: whatever one side writes is handed to the other side's dataReceived from inside write(), FIFO per
            # direction (bytes for a protocol that is busy with a delivery wait until that call has returned); no buffer between
            # the two sides, hence no back-pressure (hwm unused).  Corked while both ends are being attached.
            sim.fault("synchronous_link")
            self.link = net.SyncLink(sim, self.tap, self.peer, pieces=sim.draw_choice(["whole", "mixed"], "pieces"),
                                     amounts=tuple(reversed(AMOUNTS)), reenter=False)
            self.link.held = True
        else:
            self.link = net.Link(sim, self.tap, self.peer, hwm_a=hwm)
        self.link.connect()
        # as twisted.web.http._GenericHTTPChannelProtocol does after switching to h2
        self.link.a.registerProducer(self.server, True)
        if self.sync:
            self.link.release()
        if init_iws != 65535:
            self.peer.conn.update_settings({h2.settings.SettingCodes.INITIAL_WINDOW_SIZE: init_iws})
            self.peer.pending_settings += 1
            self.peer.flush()
        self.after()

    def cleanup(self):
        task._theCooperator = self._old_coop

    # --- hooks
    def on_request(self, request):
        sim = self.sim
        try:
            k = int(request.path.rsplit(b"/", 1)[1])
        except Exception:
            sim.check("request-delivered", False, "path", "bad path %r" % (request.path,))
        app = self.apps[k]
        sim.check("request-delivered", app.request is None and app.requested, "twice", "stream %d" % k)
        app.request = request
        sim.event("app-request", k)
        request.notifyFinish().addErrback(app.lost)
        # per-stream header values go through the HPACK dynamic table, so header blocks that leave the server
        # in another order than they were encoded in do not decode to the same thing
        request.setHeader(b"x-stream", b"stream-%d-%s" % (k, b"abcdefgh"[k:k + 1] * (k + 3)))
        # some applications produce (part of) the response inside render()/process()
        for _ in range(400 if app.sync == 9 else app.sync):
            if not app.can_act():
                break
            app.act()

    def after(self):
        """Bring the frame log up to date with what the server has written."""
        if self.sim.violation is not None:
            raise self.sim.violation      # recorded inside a Deferred callback and swallowed there
        self.ledger.feed_out(self.link.a.written)

    # --- event kinds
    def net_step(self):
        ev = self.link.enabled()
        if not ev:
            return False
        sim = self.sim
        kind, name = sim.draw_choice(ev, "net")
        amount = None
        if kind in ("xmit", "deliver"):
            amount = sim.draw_choice(AMOUNTS, "amount")
            if amount is not None:
                sim.fault("segmentation")
        with sim.guard("server-raised", "transport-resume"):
            self.link.do(kind, name, amount)
        self.after()
        return True

    def due(self):
        nt = self.clock.next_time()
        return nt is not None and nt <= self.clock.now

    def tick(self, dt=0.0):
        clock = self.clock
        if not clock.pending():
            return False
        if dt:
            clock.now += dt
        nt = clock.next_time()
        if nt > clock.now:
            clock.now = nt
        with _Inside(self), self.sim.guard("server-raised", "clock-call"):
            clock.run_next()
        self.after()
        return True

    def next_request(self):
        for app in self.apps:
            if not app.requested:
                return app
        return None

    def send_request(self, app):
        app.requested = True
        self.sim.event("C>", "request", app.sid)
        self.peer.cl[app.sid] = {"data": bytearray(), "ended": 0, "hdr": 0, "srv_reset": False}
        self.peer.conn.send_headers(app.sid, [(b":method", b"GET"), (b":path", b"/s/%d" % app.k), (b":scheme", b"http"),
                                              (b":authority", b"sim")], end_stream=True)
        _lenient(self.peer.conn.streams[app.sid]._inbound_window_manager)
        self.peer.flush()

    def client_open(self):
        """Streams the client may still send WINDOW_UPDATE / RST_STREAM on."""
        out = []
        for app in self.apps:
            if app.requested and not app.client_reset:
                c = self.peer.cl[app.sid]
                if not c["ended"] and not c["srv_reset"]:
                    out.append(app)
        return out

    def wu_stream(self, app, inc):
        self.sim.event("C>", "wu", app.sid, inc)
        self.peer.conn.increment_flow_control_window(inc, app.sid)
        self.peer.flush()

    def wu_conn(self, inc):
        self.sim.event("C>", "wu", 0, inc)
        self.peer.conn.increment_flow_control_window(inc)
        self.peer.flush()

    def settings(self):
        sim = self.sim
        new = {}
        which = sim.draw_choice(["iws", "mfs", "both"], "which")
        if which in ("iws", "both"):
            choices = list(IWS_CHOICES)
            if not self.cfg["settings_open"]:
                choices = [v for v in choices if v <= self.cur_iws]
            if not self.cfg["settings_shrink"]:
                # never shrink below what any open stream may already have consumed: only allow growth or equality
                choices = [v for v in choices if v >= self.cur_iws]
            if choices:
                v = sim.draw_choice(choices, "iws")
                new[h2.settings.SettingCodes.INITIAL_WINDOW_SIZE] = v
                self.cur_iws = v
        if which in ("mfs", "both") or not new:
            new[h2.settings.SettingCodes.MAX_FRAME_SIZE] = sim.draw_choice(MFS_CHOICES, "mfs")
        sim.event("C>", "settings", *["%d=%d" % (int(k), v) for k, v in sorted(new.items())])
        self.peer.conn.update_settings(new)
        self.peer.pending_settings += 1
        self.peer.flush()

    def flush_to_server(self):
        """Hand everything the client has written so far to the server, unsegmented.  False when the server no longer reads."""
        link = self.link
        for _ in range(3):
            if link.b.out:
                link.do("xmit", "B", None)
            if link.flight["A"]:
                if ("deliver", "A") not in link.enabled():
                    return False
                link.do("deliver", "A", None)      # ServerTap guards and logs
        return not link.b.out and not link.flight["A"] and not link.a.disconnected

    def removal_probes(self, kind):
        sim = self.sim
        others = [a for a in self.apps if a.requested and not a.removed() and not self.peer.cl[a.sid]["ended"]]
        if others:
            sim.probe("removal_with_other_streams_unfinished")
        if self.link.a.producer_paused:
            sim.fault(kind + "_while_transport_paused")
            if others:
                sim.probe("removal_transport_paused_others_unfinished")

    def reset(self, app):
        """Client RST_STREAM, in a segment of its own: earlier client bytes are delivered first, then the one frame."""
        sim = self.sim
        if not self.flush_to_server():
            return
        if app not in self.client_open():
            return                      # the flush let the server finish it
        sim.event("C>", "rst", app.sid)
        sim.fault("client_rst")
        app.client_reset = True
        self.removal_probes("client_rst")
        self.peer.conn.reset_stream(app.sid, error_code=8)
        self.peer.flush()
        self.flush_to_server()
        self.after()

    def abort(self, app):
        self.sim.fault("app_abort")
        self.removal_probes("app_abort")
        with _Inside(self):
            app.abort()
        self.after()

    def prioritize(self):
        sim = self.sim
        cands = [a for a in self.client_open()]
        nxt = self.next_request()
        if nxt is not None:
            cands.append(nxt)     # PRIORITY ahead of HEADERS
        if not cands:
            return
        app = sim.draw_choice(cands, "prio-stream")
        w = sim.draw_choice([16, 4, 64], "weight")
        sim.event("C>", "priority", app.sid, w)
        sim.probe("priority_frame")
        self.prio_used = True
        self.peer.conn.prioritize(app.sid, weight=w)
        self.peer.flush()

    # --- quiescence and the resumption oracle
    def settle(self, check=True):
        sim = self.sim
        K = 140 if self.prio_used else 20
        quiet = 0
        guard = 0
        while quiet < K:
            guard += 1
            if guard >= 300000:
                # a harness budget, not a property clause: a big body trickling out in 1-byte frames (peer acknowledging
                # byte by byte) can legitimately need very many rounds; give no verdict for this settle
                sim.probe("settle_budget_exhausted_no_verdict")
                return
            progressed = False
            n = 0
            while True:
                ev = self.link.enabled()
                if not ev or n > 1000:
                    break
                n += 1
                with sim.guard("server-raised", "transport-resume"):
                    self.link.do(ev[0][0], ev[0][1], None)
                self.after()
                progressed = True
            if self.clock.pending():
                # due calls first; otherwise time passes to the next timer (pull producers run on the cooperator's timer)
                before = (len(self.link.a.written), self.progress_mark(), self.queue_mark())
                self.tick(1e-6)
                if (len(self.link.a.written), self.progress_mark(), self.queue_mark()) != before or self.link.enabled():
                    progressed = True
            elif not progressed:
                break
            quiet = 0 if progressed else quiet + 1
        if check and self.cfg["resume_check"]:
            self.check_resumed()

    def loop_state(self):
        """Diagnostic label only (reads private state of the connection): is the send loop parked on its
        wake-up Deferred, scheduled/waiting behind the transport, or gone."""
        srv = self.server
        if srv._sendingDeferred is not None:
            return "parked"
        if srv._consumerBlocked is not None:
            return "running"
        for dc in self.clock.getDelayedCalls():
            if dc.func is self._loop_wrapper:
                return "running"
        return "dead"

    def queue_mark(self):
        """Pacing of settle() only, never part of a verdict (reads private state of the connection): the number of pieces
        in each stream's send queue.  A turn of the send loop that consumes an EMPTY piece puts nothing on the wire, yet it
        is progress: without this, a few empty pieces queued behind other streams spinning on closed windows would use up
        the patience of settle() and the resumption oracle would be evaluated before the loop has got to the data."""
        queues = getattr(self.server, "_outboundStreamQueues", None)
        try:
            return tuple(sorted((sid, len(q)) for sid, q in queues.items()))
        except Exception:
            return ()

    def progress_mark(self):
        # `nothings`: a pulled producer that answers with a write of no data has not been paused - the cooperator will ask it again;
        # without it, ten such answers in a row (seen once in 40000 thorough runs) used up settle()'s patience and the resumption
        # oracle took a producer that was being pulled all along for one that had been paused and never resumed
        return tuple((a.pos, a.finished, a.registered, getattr(a, "nothings", 0)) for a in self.apps)

    def check_resumed(self):
        sim = self.sim
        led = self.ledger
        for sid in sorted(led.st):
            s = led.st[sid]
            if s["ended"] or s["rst_out"] or s["rst_in"]:
                continue
            app = self.app_by_sid[sid]
            if app.request is None or app.dead:
                continue
            queued = app.pos - s["sent"]
            eff = led.eff(s)
            loop = self.loop_state()
            detail = lambda: ("stream %d: written %d sent %d finished=%s stream-window %d connection-window %d mode=%s producer-paused=%s; "
                              "window last opened by %s; send loop %s"
                              % (sid, app.pos, s["sent"], app.finished, s["win"], led.conn_win, app.mode, app.paused, s["opener"], loop))
            if queued > 0:
                if eff <= 0:
                    sim.probe("quiescent_blocked_stream")
                sim.check("no-resume", eff <= 0, "after-%s:%s:queued-data" % (s["opener"], loop), detail)
            elif app.finished:
                sim.check("no-resume", False, "after-%s:%s:end-stream-pending" % (s["opener"], loop), detail)
            elif app.registered and (app.paused or app.mode == "pull"):
                # a pull producer runs on the cooperator's timer; settle() lets time pass until nothing moves, so an
                # unfinished pull producer at this point has been paused by the stream and not resumed
                if eff <= 0:
                    sim.probe("quiescent_paused_producer")
                sim.check("no-resume", eff <= 0, "after-%s:%s:paused-producer" % (s["opener"], loop), detail)

    # --- final phase: open everything, everything must complete
    def all_done(self):
        for app in self.apps:
            if not app.requested or app.removed():
                continue
            c = self.peer.cl[app.sid]
            if not c["ended"]:
                return False
        return True

    def drain(self):
        sim = self.sim
        led = self.ledger
        self.settle(check=True)
        # open every window by WINDOW_UPDATE (connection first), by exactly what is missing plus slack.  Knob lazy_open: a
        # window that is larger than what is left (it cannot run out any more) is not opened again, nor is one that is open and that the client refills
        # frame by frame (auto_ack "both"), as long as that does not take too many frames - the client has no reason to send
        # a further WINDOW_UPDATE, and the statement promises the rest of the body without one.
        lazy = self.cfg["lazy_open"]
        refill = self.cfg["auto_ack"] == "both"
        self.peer.acks_left = 1 << 30       # from here on an acknowledging client answers every frame (bounded by the 300-frame rule below)
        extra_frames = 0
        remaining = 0
        for app in self.apps:
            if app.requested and not app.removed():
                s = led.st.get(app.sid)
                sent = s["sent"] if s else 0
                remaining += len(app.body) - sent
        if lazy and led.conn_win > remaining:
            sim.probe("final_opening_not_needed_connection")
        elif lazy and refill and led.conn_win > 0 and remaining // min(led.conn_win, 16384) <= 300:
            sim.probe("final_opening_left_to_refills_connection")
            extra_frames += remaining // min(led.conn_win, 16384) + 1
        else:
            self.wu_conn(max(1, remaining + 1000 - led.conn_win))
        for app in self.client_open():
            s = led.st.get(app.sid)
            win = s["win"] if s else self.cur_iws
            sent = s["sent"] if s else 0
            left = len(app.body) - sent
            if lazy and win > left:      # strictly: a window used up exactly pauses the producer, and the client then has to open it
                sim.probe("final_opening_not_needed_stream")
            elif lazy and refill and win > 0 and left // min(win, 16384) <= 300:
                sim.probe("final_opening_left_to_refills_stream")
                extra_frames += left // min(win, 16384) + 1
            else:
                self.wu_stream(app, max(1, left + 10 - win))
        sim.event("drain")
        frames = 0
        for app in self.apps:
            if app.requested and not app.removed():
                left = len(app.body) - app.pos
                per_write = 1 if app.style == "plain" else 4      # writeSequence: one DATA frame per piece
                frames += app.nwrites + per_write * ((left + app.maxchunk - 1) // max(1, app.maxchunk)) + len(app.body) // 16384 + 4
        budget = 200 + 8 * (frames + extra_frames)
        rounds = 0
        while not self.all_done():
            rounds += 1
            if rounds > budget:
                stuck = [a.sid for a in self.apps if a.requested and not a.removed() and not self.peer.cl[a.sid]["ended"]]
                sim.check("liveness", False, "send-loop-" + self.loop_state(),
                          "after every window was open (WINDOW_UPDATE sent wherever one was needed), streams %r did not complete within %d rounds "
                          "(conn window %d; %s)" % (stuck, budget, led.conn_win,
                                                    ["%d:w%d/sent%d/written%d" % (x, led.st[x]["win"], led.st[x]["sent"], self.app_by_sid[x].pos)
                                                     for x in stuck if x in led.st]))
            n = 0
            while n < 200:
                ev = self.link.enabled()
                if not ev:
                    break
                n += 1
                with sim.guard("server-raised", "transport-resume"):
                    self.link.do(ev[0][0], ev[0][1], None)
                self.after()
            with _Inside(self):
                for app in self.apps:
                    for _ in range(4):
                        if app.can_act():
                            app.act(big=True)
            self.after()
            self.tick(0.001)
            for _ in range(3):
                if self.due():
                    self.tick()
        sim.probe("drain_rounds", rounds)
        self.drain_used = (rounds, budget)
        self.settle(check=False)

    def final_checks(self):
        sim = self.sim
        for app in self.apps:
            if not app.requested or app.removed():
                continue
            c = self.peer.cl[app.sid]
            sim.check("request-delivered", app.request is not None, "never", "stream %d never reached the application" % app.sid)
            sim.check("body-complete", app.finished and c["ended"] == 1 and bytes(c["data"]) == app.body, "client",
                      lambda: "stream %d: client has %d of %d bytes, ended=%d finished=%s" % (app.sid, len(c["data"]), len(app.body), c["ended"], app.finished))
            s = self.ledger.st[app.sid]
            sim.check("body-complete", s["ended"] and s["sent"] == len(app.body) and s["hdr"] == 1, "frame-log",
                      "stream %d: frame log has %d of %d bytes, ended=%s headers=%d" % (app.sid, s["sent"], len(app.body), s["ended"], s["hdr"]))
        sim.check("connection-kept", not self.peer.lost and not self.link.a.disconnecting, "closed", "the server closed the connection")

    # --- main loop
    def main(self):
        sim = self.sim
        cfg = self.cfg
        for _ in range(cfg["nops"]):
            sim.step(5000)
            nxt = self.next_request()
            open_ = self.client_open()
            actors = [a for a in self.apps if a.can_act()]
            rst_cands = []
            if cfg["resets"] != "none":
                rst_cands = [a for a in open_ if cfg["resets"] == "any" or self.peer.cl[a.sid]["hdr"]]
            change_cands = []
            if cfg["producer_changes"]:
                change_cands = [a for a in self.apps if a.request is not None and not a.dead and not a.finished and a.nchanges < 3]
            abort_cands = []
            if cfg["aborts"]:
                abort_cands = [a for a in self.apps if a.request is not None and not a.dead and not a.finished]
            # a stream that goes away matters most while the others are held up behind the transport
            held = 6 if self.link.a.producer_paused else 1
            # a client that gives every frame's credit back at once has little reason for WINDOW_UPDATEs of its own
            spont = 4 if cfg["auto_ack"] != "both" else 1
            ops = [("net", 100 if self.link.enabled() else 0),
                   ("tick", 80 if self.clock.pending() else 0),
                   ("app", 70 if actors else 0),
                   ("req", 40 if nxt is not None else 0),
                   ("wu-stream", 5 * spont if open_ else 0),
                   ("wu-conn", 4 * spont),
                   # h2 (client) cannot attribute SETTINGS ACKs when two SETTINGS frames are in flight: one at a time
                   ("settings", 3 * spont if self.peer.pending_settings == 0 else 0),
                   ("settle", 20 if self.sync else 10),
                   ("rst", 4 * held if rst_cands else 0),
                   ("prio", 6 if cfg["prio"] else 0),
                   ("abort", 3 * held if abort_cands else 0),
                   ("change", 8 if change_cands else 0)]
            op = sim.draw_weighted(ops, "op")
            if op == "net":
                self.net_step()
            elif op == "tick":
                self.tick(sim.draw_choice([0.0, 0.0, 0.001, 0.05], "dt"))
            elif op == "app":
                app = sim.draw_choice(actors, "actor")
                with _Inside(self):
                    for _ in range(sim.draw_choice([1, 1, 2, 5], "burst")):
                        if app.can_act():
                            app.act()
                self.after()
            elif op == "req":
                self.send_request(nxt)
            elif op == "wu-stream":
                self.wu_stream(sim.draw_choice(open_, "stream"), sim.draw_choice(INC_CHOICES, "inc"))
            elif op == "wu-conn":
                self.wu_conn(sim.draw_choice(INC_CHOICES, "inc"))
            elif op == "settings":
                self.settings()
            elif op == "settle":
                sim.event("settle")
                self.settle(check=True)
            elif op == "rst":
                self.reset(sim.draw_choice(rst_cands, "stream"))
            elif op == "prio":
                self.prioritize()
            elif op == "abort":
                self.abort(sim.draw_choice(abort_cands, "stream"))
            elif op == "change":
                app = sim.draw_choice(change_cands, "stream")
                app.nchanges += 1
                with _Inside(self):
                    app.change_producer()
                self.after()
            sim.state((op, min(len(open_), 3), min(len(actors), 3), self.ledger.conn_win <= 0,
                       sum(1 for s in self.ledger.st.values() if s["win"] <= 0 and not s["ended"]) > 0,
                       self.link.a.producer_paused))
        self.drain()
        self.final_checks()
        sim.sim_time = self.clock.now
        sim.nontrivial = bool(self.ledger.blocked_with_data and sim.faults.get("segmentation", 0) > 0)


_CURRENT = []


def run(sim):
    # process-global mutable state (header-name cache) must not leak between runs in a warm worker
    try:
        from twisted.web import http_headers as _hh
        _hh._nameEncoder._canonicalHeaderCache.clear()
    except AttributeError:
        pass
    h = Harness(sim)
    _CURRENT.append(h)
    h.build()
    h.main()


def cleanup(sim):
    while _CURRENT:
        h = _CURRENT.pop()
        if hasattr(h, "_old_coop"):
            h.cleanup()


MUTANTS = [
    # all run with tools/mutate.py on a scratch copy that already carried docs/C29_candidate_fix.patch (the tree as first examined violated
    # the property; those defects have since been REPAIRED in /repo db3fcd2, 9fde5a6, 8b11fd5, 940589d - listed as fixed in
    # known_findings.json), quick tier, exit code 1 = caught
    "M1 _handleWindowUpdate: stream branch no longer unblocks the stream in the priority tree -> caught (no-resume:after-wu:*:queued-data; "
    "on the unfixed tree it also shows as no-resume:after-wu:running:queued-data, distinct from the listed defect's ...:parked:...)",
    "M2 _sendPrioritisedData: maxFrameSize ignores max_outbound_frame_size -> caught (server-raised:send-loop:FrameTooLargeError)",
    "M3 _sendPrioritisedData: excess data re-queued with append() instead of appendleft() -> caught (body-order / body-complete, frame log)",
    "M4 _sendPrioritisedData: maxFrameSize ignores the flow-control window -> caught (server-raised:send-loop:FlowControlError; h2 refuses before any overrun reaches the wire)",
    "M5 H2Stream.windowUpdated: producer.resumeProducing() removed -> caught (no-resume:after-wu:*:paused-producer, liveness)",
    "M9 _sendPrioritisedData: excessData = frameData[maxFrameSize + 1:] (one byte dropped at each split) -> caught (body-order)",
    "M11 endRequest: priority.unblock removed -> caught (no-resume:*:end-stream-pending, liveness)",
    "M12 connection-level window update no longer calls stream.windowUpdated() -> caught (no-resume:*:paused-producer)",
    "M13 _flushBufferedControlData: pop() instead of popleft() (buffered control frames leave in reverse order) -> caught (client-rejected:ProtocolError, HPACK) "
    "after per-stream response headers were added to the workload; survived before",
    "M18 _sendPrioritisedData: stream with empty queue never blocked -> caught (server-raised:send-loop:IndexError)",
    "M20 _requestDone: priority.remove_stream() dropped (a finished/removed stream stays schedulable) -> caught (server-raised:send-loop:KeyError / StreamClosedError)",
    "M22 _requestAborted: _requestDone() dropped (state of a stream the peer reset is kept, the loop sends on it) -> caught "
    "(server-raised:send-loop:StreamClosedError, server-raised:dataReceived:StreamClosedError); needs the client-reset family",
    "M23 abortRequest: _requestDone() dropped -> caught (server-raised:send-loop:StreamClosedError); needs the application-abort family",
    "M21 _sendPrioritisedData keeps the stream it picked across a transport pause (seeded change r4b) -> caught once streams can go away "
    "while the transport is paused (server-raised:send-loop:KeyError / StreamClosedError); survived before (no stream removal at all)",
    "M24 H2Stream.writeSequence batched into one queue.extend() + one round of flow-control bookkeeping (seeded change r5a): an empty sequence "
    "unblocks a stream that has nothing queued -> caught once applications use the channel's writeSequence and write no data "
    "(server-raised:send-loop:IndexError, liveness); survived before (Request.write was the only entry point, never empty)",
    "M25 H2Stream.writeSequence: reversed(list(iovec)) -> caught (body-order); needs the writeSequence family",
    "M27 H2Stream.writeSequence stops at the first empty piece -> caught (body-complete / body-order, frame log)",
    "M26 writeDataToStream: empty data returns early without queueing, before the flow-control bookkeeping -> survives, as it should "
    "(nothing is owed for a write of no data)",
    "M28 _sendPrioritisedData decides 'was that the last chunk of the stream' before transport.write() and blocks the stream after it (seeded change "
    "r6a) -> caught once the link can be a synchronous pipe with a client that answers DATA at once (no-resume:after-wu:parked:queued-data / "
    "...:end-stream-pending, liveness with lazy_open); survived before (deliveries never nested in write(), WINDOW_UPDATE only at scripted moments)",
    "M29 H2Stream remembers 'window exhausted' from flowControlBlocked() and pauses a producer registered later, the flag being cleared only where a "
    "producer is resumed (seeded change r6b) -> caught once producers can be registered after plain writes / after another producer "
    "(no-resume:*:paused-producer, liveness:send-loop-parked with lazy_open); survived before (producers were registered before the first write, once)",
    "M30 H2Stream.registerProducer leaves _producerProducing False (the producer is never paused by flow control and may be told to resume while "
    "it is producing) -> survives, as it should: back-pressure towards the application is outside the statement",
    "M31 H2Stream.unregisterProducer keeps self.producer -> caught (server-raised:app:ValueError on the next registration, "
    "server-raised:send-loop:TaskStopped); needs the producer_changes family",
    "M19 _tryToWriteControlData: always writes directly (ignores transport back-pressure for control frames) -> survived; back-pressure towards the "
    "transport is outside the statement",
]
