"""C16 — framed-message receivers: segmentation invariance and exact limits.

Engine E3 (net).  One run picks one receiver class (LineReceiver,
LineOnlyReceiver, NetstringReceiver, Int8/16/32StringReceiver, or an application
subclass of IntNStringReceiver that defines structFormat / prefixLength itself -
see FORMATS), a small MAX_LENGTH (and delimiter), and either

* "stream" mode: a byte stream from a seeded grammar (messages of length
  MAX_LENGTH-1 / MAX_LENGTH / MAX_LENGTH+1, delimiter bytes inside lines,
  invalid netstrings, over-long prefixes, an unfinished tail) is delivered to a
  real receiver on a SimTransport in tape-chosen pieces (net.cut), while the
  receiver's callbacks follow a tape-drawn script (pause, raw mode for n bytes
  and back with setLineMode(extra), loseConnection) and the harness resumes /
  stalls / coalesces; or
* "send" mode: a second real instance sends messages with sendLine/sendString
  over a net.Link to the receiver under a tape-chosen delivery schedule.

Three further families, each present in a share of the runs:

* "prefix format": IntNStringReceiver is configured the documented way - a
  subclass sets structFormat (one unsigned 8/16/32-bit integer: little-endian,
  big-endian, network, standard-native and native spellings, also with reserved
  pad bytes before/after the integer) and prefixLength = calcsize(structFormat).
  Every format has its own reference framer and its own stream grammar, both
  built on a header layout worked out by hand from the format string (PrefixSpec;
  cross-checked against struct.calcsize/struct.pack at import), pad bytes of the
  header carry tape-drawn junk in stream mode.

* "companion": a second, independent connection of the SAME receiver class (own
  transport, own stream / own sender, own script, own reference) is live during
  the run and its deliveries are interleaved by the tape with the first one's,
  so that either connection is regularly in the middle of a message while the
  other one receives.  Each connection is judged against its own reference only.
* "reconfiguration": the script also lets the application set MAX_LENGTH (every
  class) or the delimiter (LineReceiver) on the receiver from inside the message
  callback k.  The reference applies the new values to everything that follows
  message k in the stream - also to bytes that arrived in the same delivery as
  message k; the grammar then aims the following messages at the NEW limit
  (new-1/new/new+1) and mixes the old delimiter into the payloads.  In "send"
  mode the sender follows the same schedule (its own delimiter / the limit it
  stays within change after it has sent message k).

Two families of re-entrant callbacks (round 6), scripted like the other callback actions:

* "self-resume": the callback of message k calls pauseProducing() and then resumeProducing() before it returns (the
  work the pause was to cover completed synchronously - an already-fired Deferred, a cache hit).  Classes with
  pause/resume only; stream and send mode, split and whole delivery.  The reference is unaffected: every message is
  still due exactly once, in stream order.
* "feed" (stream mode): the connection is a synchronous in-memory pipe and the application reacts to message k by
  writing to a peer whose next bytes come back AT ONCE, i.e. the next piece of the stream (plus whatever the harness
  held back) is handed to dataReceived from inside the callback.  The pipe keeps the stream a FIFO: this happens only
  when an independent reading of the bytes handed over so far (the reference framer) says they END with message k, so
  that nothing of the running delivery can be left unconsumed; otherwise the bytes follow after the running delivery
  as usual.  In these runs most grammar items end a delivery (a peer writes message by message).  The receiver must
  have finished its book-keeping for message k before it calls out: the nested delivery continues with message k+1.

MAX_LENGTH = 0 (only the empty message is within the limit) is a value of every class - for NetstringReceiver in a
share of its runs (NETSTRING_ZERO_P).

Oracle: models/framing.py (whole-stream reference framers).  Checked: the
observed callback sequence up to the first close request == the reference
framing == the sequence observed when a fresh instance gets the same stream in
ONE delivery; no message longer than the MAX_LENGTH in force is ever delivered;
no message within it is rejected; nothing is delivered while paused; every
message sent with the send method arrives equal.
"""
import struct
import sys

from detsim import net
from models import framing

from twisted.protocols import basic

ID = "C16"
ENGINE = "net"
LEVEL = "exploration"
TECHNIQUE = ("deterministic simulation: seeded stream grammar + seeded segmentation/pause/mode-switch schedule on real "
             "receivers vs whole-stream reference framers and vs one-piece delivery")
QUICK_RUNS = 100000
TWIN_P = 0.08   # this share of the runs drives two independent instances of the scenario one after the other (detsim.runner._run_scenario)
BATCH = 100
AVOID_KNOWN_P = 0.1
COMPANION_P = 0.3    # share of the runs with a second live connection of the same class, deliveries interleaved
RECONF_P = 0.4       # share of the runs whose script may change MAX_LENGTH / the delimiter inside a message callback
# LineOnlyReceiver splits a whole delivery on the delimiter before it calls lineReceived (documented as "purely a
# speed optimisation"), so a delimiter change made inside lineReceived cannot reach the rest of that delivery; the
# statement names mode switches "where supported", so delimiter changes are scripted for LineReceiver only.
LINEONLY_DELIM_RECONF = False
# Round 6 families.  "self-resume": the callback of message k pauses the receiver and resumes it before it returns (the
# work the pause was to cover finished synchronously) - pause/resume where supported.  "feed": the application answers
# message k over a synchronous in-memory pipe and the peer's next bytes come back from inside the callback; the pipe keeps
# the stream a FIFO, so the nested delivery happens only when message k ends exactly where the bytes handed over so far
# end (nothing of the running delivery can be left unconsumed - the rule of detsim.net.SyncLink); otherwise the bytes
# arrive after the running delivery, as usual.
SELF_RESUME_W = 2    # weight of ("pauseresume",) among the scripted callback actions of the pausable classes
FEED_P = 0.35        # share of the stream-mode runs whose script may hold ("feed",) actions
FEED_W = 10          # its weight in those runs
# Found by this check and repaired in /repo 520a5fa (IntNStringReceiver.dataReceived was not re-entrant: resumeProducing()
# from inside stringReceived, or a nested delivery, parsed the buffer again from offset 0).  The knob that kept the defect's
# precondition out of most runs stays as a mix knob: this share of the runs of the length-prefixed classes scripts the
# two re-entrant actions, the others keep full-length runs of everything else.
INTN_REENTRY_P = 0.5
# Found by this check and repaired in /repo 39163cd (NetstringReceiver._maxLengthSize: math.log10(0) raised ValueError).
# MAX_LENGTH 0 (the empty netstring b"0:," is the one message within it) joins the values of a NetstringReceiver run - as
# the initial value or through reconfiguration - in this share of its runs (a run that starts at 0 has little else to show).
NETSTRING_ZERO_P = 0.3
COMPONENTS = {
    "real": ["twisted.protocols.basic.LineReceiver", "twisted.protocols.basic.LineOnlyReceiver",
             "twisted.protocols.basic.NetstringReceiver", "twisted.protocols.basic.Int8/16/32StringReceiver",
             "twisted.protocols.basic.IntNStringReceiver (subclasses with their own structFormat/prefixLength)",
             "sendLine/sendString", "_PauseableMixin (also pause + resume from inside a callback)"],
    "stub": ["TCP transport, delivery segmentation, stalls and coalescing (detsim.net.SimTransport / Link / cut)",
             "synchronous in-memory pipe that hands the next piece over from inside a message callback (SplitConn.feed)"],
}
RULE = ("run = one receiver class (1 run in 7: an IntNStringReceiver subclass with a tape-chosen structFormat out of 27 - "
        "byte orders < > ! = @/none, widths 8/16/32 bits, some with pad bytes - framed by that format's own reference) "
        "with tape-chosen MAX_LENGTH (0..1000) and delimiter, fed a grammar-generated stream "
        "(or messages sent by a second real instance) in tape-chosen pieces with tape-scripted pause/raw-mode/close "
        "actions inside callbacks; in 40% of the runs the script may also set MAX_LENGTH (all classes) or the delimiter "
        "(LineReceiver) from inside callback k, the reference framing everything after message k with the new values and "
        "the grammar aiming the following messages at the new limit; in 30% of the runs a second live connection of the "
        "same class with its own stream/sender, script and reference has its deliveries interleaved with the first one's; "
        "the scripts of the pausable classes also hold self-resume actions (pauseProducing() + resumeProducing() inside "
        "callback k); in 35% of the stream-mode runs the connection is a synchronous pipe: most grammar items end a "
        "delivery and a 'feed' action in callback k hands the next piece to dataReceived from inside the callback when "
        "the bytes handed over so far end exactly with message k (for the length-prefixed classes both re-entrant actions "
        "are scripted in the INTN_REENTRY_P share of the runs only; MAX_LENGTH 0 for NetstringReceiver in the "
        "NETSTRING_ZERO_P share - both were preconditions of genuine defects, repaired in /repo 520a5fa / 39163cd, see MUTANTS); "
        "non-trivial = the stream was cut at least once and at least one message or over-length notification was observed")
ASSUMPTIONS = [
    "the over-length handlers keep their default behaviour (request a close), so comparison ends at the first close request",
    "the transport stops delivering once a close has been requested (as real TCP transports do)",
    "MAX_LENGTH / delimiter are changed only from inside a message callback (never between two deliveries, where the "
    "verdict on a partly buffered message would depend on the segmentation by nature); the message in whose callback "
    "the change is made is complete, so every later byte belongs to a later message and must be framed with the new "
    "values whether or not it was already buffered",
    "delimiter changes are scripted for LineReceiver only (LineOnlyReceiver pre-splits a delivery; see LINEONLY_DELIM_RECONF)",
    "two connections of one class share nothing: each is compared with the reference framing of its own stream only",
    "a delivery nested inside a message callback (synchronous pipe) is made only when the bytes handed over so far end "
    "exactly with the message being delivered - judged by the reference framer, not by the receiver - so the order of "
    "the stream is the order of the dataReceived calls whatever the receiver buffers (the rule of detsim.net.SyncLink, "
    "as in C38); a delivery nested while part of the running one is unconsumed would make the stream order depend on "
    "the receiver's buffering and is never made; callbacks that raise are not part of the workload (a transport drops "
    "the connection when dataReceived raises; the statement is silent on using the receiver afterwards)",
    "resumeProducing() is called from inside a callback only after pauseProducing() in the same callback",
    "an IntNStringReceiver subclass chooses its prefix through structFormat / prefixLength = calcsize(structFormat) as "
    "the class documents; the format holds exactly one unsigned integer of 8, 16 or 32 bits (any byte order, optional "
    "pad bytes - PAD_FORMATS); signed and 64-bit formats are not used; only messages that fit the integer are sent",
    "what happens to an unfinished message at the very end of the stream is compared between whole and split delivery, "
    "but the reference accepts both 'still waiting' and 'rejected' when the unfinished message can no longer fit the limit",
]

LINE_KINDS = ("LineReceiver", "LineOnlyReceiver")
INT_KINDS = {"Int8StringReceiver": 1, "Int16StringReceiver": 2, "Int32StringReceiver": 4}
CUSTOM = "IntNStringReceiver"    # an application subclass that defines structFormat / prefixLength itself
KINDS = ["LineOnlyReceiver", "LineReceiver", "NetstringReceiver", "Int8StringReceiver", "Int16StringReceiver",
         "Int32StringReceiver", CUSTOM]
# IntNStringReceiver documents structFormat ("format used for struct packing/unpacking. Define it in subclass") and
# prefixLength ("Define it in subclass, using struct.calcsize(structFormat)") as THE way to make a length-prefixed
# protocol; Int8/16/32StringReceiver are merely the three network-order instances.  A subclass with another byte order
# is still an 8/16/32-bit length-prefixed protocol in the sense of the statement, and the unchanged tree frames it by
# its own structFormat in both directions.  Formats: one unsigned 8/16/32-bit integer in every byte order struct knows
# with standard sizes ("<", ">", "!", "="), the native-order spellings whose size does not depend on the platform's
# long ("B", "H", "I", "@H", "@I"), and - PAD_FORMATS - headers with reserved pad bytes around the integer ("x").
# Not used: signed codes (a negative prefix has no meaning the statement could judge), "Q" and native "L" (64 bits).
PAD_FORMATS = True
FORMATS = ["<H", "<I", ">H", "=H", "<B", "<L", ">I", "=I", "!L", ">L", "=L", ">B", "=B", "!H", "!I", "!B",
           "H", "I", "B", "@H", "@I"]
if PAD_FORMATS:
    FORMATS += ["<xH", "!Hx", "<Hxx", "!xB", ">xxI", "<Ix"]


class PrefixSpec:
    """Where the length sits in the header of one struct format - worked out BY HAND from the format string (struct
    module documentation: byte-order character, "x" = pad byte, B/H/I/L = unsigned 8/16/32/32 bits in standard mode),
    so that the reference framer and the stream grammar do not go through the calls the receiver itself makes; the
    result is cross-checked against struct.calcsize / struct.pack when the module is imported."""

    ORDER = {"<": "little", ">": "big", "!": "big", "=": sys.byteorder, "@": sys.byteorder}
    WIDTH = {"B": 1, "H": 2, "I": 4, "L": 4}

    def __init__(self, fmt):
        self.fmt = fmt
        body = fmt
        self.order = sys.byteorder
        if body[:1] in self.ORDER:
            self.order = self.ORDER[body[0]]
            body = body[1:]
        code = body.strip("x")
        self.lead = len(body) - len(body.lstrip("x"))
        self.trail = len(body) - len(body.rstrip("x"))
        self.width = self.WIDTH[code]
        self.size = self.lead + self.width + self.trail
        self.top = 256 ** self.width - 1
        self.padded = bool(self.lead or self.trail)
        self.network = self.order == "big" and not self.padded

    def decode(self, header):
        return int.from_bytes(header[self.lead:self.lead + self.width], self.order)

    def encode(self, n, pad=None):
        """Header for length n; pad = the lead+trail reserved bytes (zeros, as pack writes them, by default)."""
        pad = pad if pad is not None else bytes(self.lead + self.trail)
        return pad[:self.lead] + n.to_bytes(self.width, self.order) + pad[self.lead:]

    def selfcheck(self):
        ok = struct.calcsize(self.fmt) == self.size
        for n in (0, 1, 2, 5, 127, 128, 255, 256, 300, 0x0102, 0x01020304, self.top):
            if n <= self.top:
                ok = ok and struct.pack(self.fmt, n) == self.encode(n) and self.decode(self.encode(n, b"\xa5" * 8)) == n
        if not ok:
            raise AssertionError("C16 harness: hand-decoded layout of struct format %r disagrees with struct" % self.fmt)
        return self


SPECS = {k: PrefixSpec({1: "!B", 2: "!H", 4: "!I"}[n]).selfcheck() for k, n in INT_KINDS.items()}
for _f in FORMATS:
    SPECS["%s[%s]" % (CUSTOM, _f)] = PrefixSpec(_f).selfcheck()


def maxlens(kind):
    if kind in MAXLENS:
        return MAXLENS[kind]
    return MAXLENS["Int8StringReceiver" if SPECS[kind].width == 1 else "Int16StringReceiver"]
DELIMS = [b"\r\n", b"\n", b"\r\n\r\n", b"ab", b"aab", b"\x00\x00\x01"]
MAXLENS = {
    "Int8StringReceiver": [5, 0, 1, 2, 16, 64, 254, 255],
    "NetstringReceiver": [5, 1, 2, 9, 10, 11, 20, 64, 100, 120, 1000],
    "LineReceiver": [5, 0, 1, 2, 3, 8, 16, 64],
    "LineOnlyReceiver": [5, 0, 1, 2, 3, 8, 16, 64],
    "Int16StringReceiver": [5, 0, 1, 2, 16, 64, 256, 300],
    "Int32StringReceiver": [5, 0, 1, 2, 16, 64, 256, 300],
}
RECONF = ("maxlen", "delim")


class RecTransport(net.SimTransport):
    """SimTransport that records the close request in the shared event log."""

    def __init__(self, sim, name, log, **kw):
        net.SimTransport.__init__(self, sim, name, **kw)
        self.evlog = log

    def loseConnection(self, _reason=None):
        self.evlog.append(("close",))
        net.SimTransport.loseConnection(self, _reason)


class H:
    """Per-instance harness state shared with the recording subclass."""

    def __init__(self, sim, kind, maxlen, delim, script, tag):
        self.sim, self.kind, self.script, self.tag = sim, kind, script, tag
        self.maxlen, self.delim = maxlen, delim     # the values in force (follow the scripted reconfiguration)
        self.log = []
        self.k = 0
        self.hpaused = False
        self.need = 0
        self.exceeded_arg = None
        self.pauses = 0
        self.delivery = 0         # number of the dataReceived / resumeProducing call being processed
        self.reconf_at = None     # delivery number in which the parameters were last changed
        self.feed = None          # feed(messages so far): the synchronous pipe of this connection (SplitConn), if any

    def message(self, proto, kind, msg):
        sim = self.sim
        sim.check("too-long-delivered", len(msg) <= self.maxlen, self.kind,
                  lambda: "%s delivered %d bytes, MAX_LENGTH=%d" % (self.tag, len(msg), self.maxlen))
        sim.check("delivered-while-paused", not self.hpaused, self.kind,
                  lambda: "%s: message %d delivered after pauseProducing()" % (self.tag, self.k))
        self.log.append((kind, msg))
        act = self.script.get(self.k, ("none",))
        self.k += 1
        closed = any(e[0] == "close" for e in self.log)
        if closed:
            return
        if self.reconf_at is not None and self.reconf_at == self.delivery:
            sim.probe("message_after_reconf_in_same_delivery")
        if act[0] == "pause" and hasattr(proto, "pauseProducing"):
            self.hpaused = True
            self.pauses += 1
            proto.pauseProducing()
        elif act[0] == "pauseresume" and hasattr(proto, "pauseProducing"):
            # the work the pause was to cover completed synchronously: resumed before the callback returns
            sim.fault("self_resume_inside_callback")
            proto.pauseProducing()
            proto.resumeProducing()
        elif act[0] == "feed":
            if self.feed is not None:
                self.feed(self.k)
        elif act[0] == "raw":
            self.need = act[1]
            proto.setRawMode()
        elif act[0] == "lose":
            proto.transport.loseConnection()
        elif act[0] == "maxlen":
            sim.probe("reconf_maxlen_raised" if act[1] > self.maxlen else "reconf_maxlen_lowered_or_same")
            self.maxlen = act[1]
            self.reconf_at = self.delivery
            proto.MAX_LENGTH = act[1]
        elif act[0] == "delim":
            sim.probe("reconf_delimiter")
            self.delim = act[1]
            self.reconf_at = self.delivery
            proto.delimiter = act[1]


def make_class(kind, maxlen, delim):
    """The application's receiver class; every connection of a run is an instance of it (its harness state in .h)."""
    if kind in LINE_KINDS:
        base = getattr(basic, kind)

        class R(base):
            MAX_LENGTH = maxlen
            delimiter = delim

            def lineReceived(self, line):
                self.h.message(self, "line", line)

            def rawDataReceived(self, data):
                h = self.h
                h.sim.check("delivered-while-paused", not h.hpaused, kind, "raw data delivered after pauseProducing()")
                take = min(h.need, len(data))
                h.log.append(("raw", data[:take]))
                h.need -= take
                if h.need == 0:
                    self.setLineMode(data[take:])

            def lineLengthExceeded(self, line):
                self.h.log.append(("exceeded",))
                self.h.exceeded_arg = bytes(line)
                return base.lineLengthExceeded(self, line)
    elif kind == "NetstringReceiver":
        class R(basic.NetstringReceiver):
            MAX_LENGTH = maxlen

            def stringReceived(self, s):
                self.h.message(self, "string", s)
    else:
        base = getattr(basic, kind) if kind in INT_KINDS else basic.IntNStringReceiver

        class R(base):
            MAX_LENGTH = maxlen
            if kind not in INT_KINDS:
                # the application defines its own prefix the way the class docstring tells it to
                structFormat = SPECS[kind].fmt
                prefixLength = struct.calcsize(structFormat)

            def stringReceived(self, s):
                self.h.message(self, "string", s)

            def lengthLimitExceeded(self, length):
                self.h.log.append(("exceeded", length))
                return base.lengthLimitExceeded(self, length)
    return R


def make_receiver(cls, h):
    p = cls()
    p.h = h
    return p


def reference(kind, stream, maxlen, delim, script, state_out=None):
    if kind in LINE_KINDS:
        return framing.frame_lines(stream, delim, maxlen, script, state_out)
    if kind == "NetstringReceiver":
        return framing.frame_netstrings(stream, maxlen, script, state_out)
    spec = SPECS[kind]
    return framing.frame_intn(stream, spec.size, maxlen, script, state_out, decode=spec.decode)


def has_reconf(script):
    return any(a[0] in RECONF for a in script.values())


def reconf_only(script):
    return {k: a for k, a in script.items() if a[0] in RECONF}


def tracker(kind, maxlen, delim, script):
    """cur(prefix) -> (MAX_LENGTH, delimiter) in force for the message that starts after `prefix` of the stream
    (the generators aim the next message at these)."""
    if not has_reconf(script):
        return lambda out: (maxlen, delim)

    def cur(out):
        st = {}
        reference(kind, bytes(out), maxlen, delim, script, st)
        return st["maxlen"], st["delim"]
    return cur


# ------------------------------------------------------------------ generators

def payload(sim, n, alpha):
    """n bytes over alpha; long payloads cost one tape entry."""
    if n <= 40:
        return sim.draw_bytes(n, alpha)
    return bytes(alpha[b % len(alpha)] for b in sim.draw_blob(n))


def gen_len(sim, maxlen, cap=None):
    n = sim.draw_weighted([(maxlen, 4), (maxlen - 1, 2), (maxlen + 1, 3), (0, 1), (1, 1),
                           (sim.draw_int(0, maxlen + 3, "len"), 3)], "lenkind")
    n = max(0, n)
    if cap is not None:
        n = min(n, cap)
    return n


def line_alpha(d, delim0):
    # after a delimiter change the old delimiter is ordinary payload
    return b"xy" + d + d[:1] * 2 + b"\r\n" + (delim0 if d != delim0 else b"")


def gen_line_stream(sim, delim0, cur):
    out = bytearray()
    bounds = []
    for _ in range(sim.draw_int(1, 6, "nitems")):
        maxlen, delim = cur(out)
        out += payload(sim, gen_len(sim, maxlen), line_alpha(delim, delim0))
        if sim.draw_bool(0.9, "delim"):
            out += delim
            bounds.append(len(out))
    if sim.draw_bool(0.3, "tail"):
        maxlen, delim = cur(out)
        out += payload(sim, gen_len(sim, maxlen), line_alpha(delim, delim0))
        if sim.draw_bool(0.5, "partial-delim") and len(delim) > 1:
            out += delim[:sim.draw_int(1, len(delim) - 1, "k")]
    return bytes(out), bounds


def gen_int_stream(sim, spec, cur):
    top = spec.top
    npad = spec.lead + spec.trail

    def header(n):
        # reserved pad bytes of the header carry anything on the wire
        return spec.encode(n, sim.draw_bytes(npad, b"\x00\xffx\x01") if npad else None)

    out = bytearray()
    bounds = []
    for _ in range(sim.draw_int(1, 6, "nitems")):
        maxlen = cur(out)[0]
        if sim.draw_bool(0.12, "overlong"):
            n = sim.draw_choice([maxlen + 1, top, min(top, maxlen + 1 + sim.draw_int(0, 300, "over"))], "overlen")
            n = min(n, top)
            out += header(n) + sim.draw_bytes(sim.draw_int(0, 6, "junk"), b"xy\x00")
        else:
            n = min(gen_len(sim, maxlen, top), top)
            out += header(n) + payload(sim, n, b"xy\x00\x01")
        bounds.append(len(out))
    if sim.draw_bool(0.3, "tail"):
        maxlen = cur(out)[0]
        n = min(gen_len(sim, maxlen, top), top)
        frame = header(n) + payload(sim, n, b"xy\x00")
        out += frame[:sim.draw_int(0, len(frame), "tailcut")]
    return bytes(out), bounds


def gen_net_stream(sim, cur):
    out = bytearray()
    bounds = []
    for _ in range(sim.draw_int(1, 6, "nitems")):
        maxlen = cur(out)[0]
        kind = sim.draw_weighted([("ok", 12), ("leading0", 1), ("nocomma", 1), ("nodigit", 1), ("huge", 1),
                                  ("nl", 1), ("badlen", 1)], "item")
        n = gen_len(sim, maxlen)
        body = payload(sim, n, b"xy,:019\n")
        if kind == "ok":
            out += b"%d:" % n + body + b","
        elif kind == "leading0":
            out += b"0%d:" % n + body + b","
        elif kind == "nocomma":
            out += b"%d:" % n + body + sim.draw_choice([b"x", b":", b"1"], "notcomma")
        elif kind == "nodigit":
            out += sim.draw_choice([b":", b",", b"x", b"-1:", b" 1:"], "nodigit") + body + b","
        elif kind == "huge":
            out += sim.draw_choice([b"99999999999999999999", b"1" + b"0" * 30], "hugelen") + b":" + body[:3] + b","
        elif kind == "nl":
            out += b"%d\n" % n + sim.draw_choice([b"", b":" + body + b","], "after-nl")
        else:
            out += b"%d" % n + sim.draw_choice([b"x:", b" :", b";"], "badsep") + body + b","
        bounds.append(len(out))
    if sim.draw_bool(0.3, "tail"):
        maxlen = cur(out)[0]
        n = gen_len(sim, maxlen)
        frame = b"%d:" % n + payload(sim, n, b"xy,") + b","
        out += frame[:sim.draw_int(0, len(frame), "tailcut")]
    return bytes(out), bounds


def gen_script(sim, kind, mode, reconf=False, lens=None, reentry=True, feed=False):
    """lens: MAX_LENGTH values a reconfiguration may choose; reentry: the re-entrant actions may be scripted
    (("pauseresume",) for the pausable classes; ("feed",) in stream mode when feed is set)."""
    script = {}
    lens = lens if lens is not None else maxlens(kind)
    if kind == "LineOnlyReceiver" or (kind == "NetstringReceiver" and mode == "send"):
        acts = [(("none",), 1)]
    elif kind == "NetstringReceiver":
        acts = [(("none",), 12), (("lose",), 1)]
    elif kind == "LineReceiver":
        acts = [(("none",), 8), (("pause",), 3), (("raw",), 3), (("lose",), 1)]
    else:
        acts = [(("none",), 8), (("pause",), 3), (("lose",), 1)]
    if kind == "LineOnlyReceiver" and mode == "stream":
        acts = [(("none",), 12), (("lose",), 1)]
    if mode == "send":
        acts = [(a, w) for a, w in acts if a[0] in ("none", "pause")]
    if reentry and SELF_RESUME_W and any(a[0] == "pause" for a, w in acts):
        acts.append((("pauseresume",), SELF_RESUME_W))
    if reentry and feed and mode == "stream":
        acts = [(a, max(w, 8) if a[0] == "none" else w) for a, w in acts]
        acts.append((("feed",), FEED_W))
    if reconf:
        # the application re-configures the receiver from inside the callback of message k
        acts = [(a, max(w, 8) if a[0] == "none" else w) for a, w in acts]
        acts.append((("maxlen",), 3))
        if kind == "LineReceiver" or (kind == "LineOnlyReceiver" and LINEONLY_DELIM_RECONF):
            acts.append((("delim",), 2))
    if len(acts) == 1:
        return script
    for k in range(10):
        a = sim.draw_weighted(acts, "act")
        if a[0] == "raw":
            a = ("raw", sim.draw_int(1, 9, "rawlen"))
        elif a[0] == "maxlen":
            a = ("maxlen", sim.draw_choice(lens, "new-maxlen"))
        elif a[0] == "delim":
            a = ("delim", sim.draw_choice(DELIMS, "new-delimiter"))
        if a[0] != "none":
            script[k] = a
    return script


def script_config(script):
    return {str(k): [x if isinstance(x, (int, str)) else repr(x) for x in v] for k, v in sorted(script.items())}


# ------------------------------------------------------------------ drivers

def deliver_whole(sim, kind, cls, maxlen, delim, script, stream):
    """Fresh instance, the whole stream in one dataReceived, resume until idle."""
    h = H(sim, kind, maxlen, delim, script, "whole")
    p = make_receiver(cls, h)
    t = RecTransport(sim, "W", h.log)
    t.protocol = p
    p.makeConnection(t)
    with sim.guard("receiver-raised", kind + ":whole"):
        if stream:
            h.delivery += 1
            p.dataReceived(stream)
        n = 0
        while h.hpaused and not t.disconnecting:
            n += 1
            sim.check("harness-resume-loop", n < 200, kind)
            h.hpaused = False
            h.delivery += 1
            p.resumeProducing()
    return h


class SplitConn:
    """One live connection that gets its stream in pieces: step() hands over the next piece (or stalls / resumes /
    pushes while paused), finish() resumes until idle.  Several of them can be stepped alternately.

    It is also the synchronous pipe of the "feed" action: feed(k), called by the application from inside the callback of
    its k-th message, hands over the bytes that follow in the stream (what was held back + the next piece) AT ONCE, nested
    inside the running delivery - but only if an independent reading of the bytes handed over so far (the reference
    framer) says that they end exactly with message k, so that the stream order is kept whatever the receiver buffers."""

    def __init__(self, sim, kind, cls, maxlen, delim, script, pieces, bounds, ext_pause_p, tag, name, stream=b""):
        self.sim, self.kind, self.tag = sim, kind, tag
        self.h = H(sim, kind, maxlen, delim, script, tag)
        self.p = make_receiver(cls, self.h)
        self.t = RecTransport(sim, name, self.h.log)
        self.t.protocol = self.p
        self.p.makeConnection(self.t)
        self.pausable = hasattr(self.p, "pauseProducing")
        self.pieces = list(pieces)
        self.step_cap = 5000
        self.bounds = frozenset(bounds)
        self.ext_pause_p = ext_pause_p
        self.i = 0
        self.held = b""
        self.offset = 0          # bytes handed to the protocol so far
        self.depth = 0           # dataReceived calls in progress
        self.stream, self.maxlen0, self.delim0 = stream, maxlen, delim
        if any(a[0] == "feed" for a in script.values()):
            self.h.feed = self.feed

    def more(self):
        return self.i < len(self.pieces) and not self.t.disconnecting

    def mid_message(self):
        """Handed-over bytes end inside a grammar item (approximation, used for a probe only)."""
        return self.offset > 0 and self.offset not in self.bounds and self.more()

    def _take(self):
        """The bytes that come next in the stream: what was held back + the next piece."""
        data, self.held = self.held, b""
        if self.i < len(self.pieces):
            data += self.pieces[self.i]
            self.i += 1
        return data

    def _hold(self):
        if self.i < len(self.pieces):
            self.held += self.pieces[self.i]
            self.i += 1

    def _give(self, data):
        self.h.delivery += 1
        self.offset += len(data)
        self.depth += 1
        try:
            self.p.dataReceived(data)
        finally:
            self.depth -= 1

    def _resume(self):
        self.h.hpaused = False
        self.h.delivery += 1
        self.p.resumeProducing()

    def feed(self, k):
        """Called from inside the callback of the k-th message (k = messages delivered so far, this one included)."""
        sim, h = self.sim, self.h
        if self.t.disconnecting or h.hpaused or not (self.held or self.i < len(self.pieces)):
            sim.probe("feed_nothing_to_hand_over")
            return
        st = {}
        ev, _tail = reference(self.kind, self.stream[:self.offset], self.maxlen0, self.delim0, h.script, st)
        if st.get("k") != k or st.get("pos") != self.offset or any(e[0] == "close" for e in ev):
            # bytes of the running delivery are still unconsumed: the pipe queues the answer behind them
            sim.probe("feed_queued_behind_running_delivery")
            return
        data = self._take()
        sim.fault("nested_delivery_inside_callback")
        if self.depth == 0:
            sim.probe("nested_delivery_inside_resume")
        sim.event("deliver-nested", self.tag, data)
        self._give(data)

    def step(self):
        sim, h, p, t = self.sim, self.h, self.p, self.t
        sim.step(self.step_cap)
        with sim.guard("receiver-raised", self.kind + ":" + self.tag):
            if h.hpaused:
                what = sim.draw_weighted([("resume", 5), ("hold", 3), ("push", 1)], "while-paused")
                if what == "hold":
                    self._hold()
                    sim.fault("stall_while_paused")
                    return
                if what == "push":
                    # a transport that had already read this piece hands it over although paused
                    sim.fault("delivery_while_paused")
                    self._give(self._take())
                    return
                self._resume()
                n = 0
                while h.hpaused and sim.draw_bool(0.5, "resume-again"):
                    n += 1
                    if n > 50:
                        break
                    self._resume()
                if h.hpaused or t.disconnecting:
                    self._hold()
                    return
                if not (self.held or self.i < len(self.pieces)):
                    return      # a callback run by the resume took the rest through the synchronous pipe
            data = self._take()
            if self.tag == "split":
                sim.event("deliver", data)
            else:
                sim.event("deliver", self.tag, data)
            self._give(data)
            if (self.pausable and self.ext_pause_p and not h.hpaused and not t.disconnecting
                    and sim.draw_bool(self.ext_pause_p, "ext-pause")):
                sim.fault("external_pause")
                h.hpaused = True
                h.pauses += 1
                p.pauseProducing()

    def finish(self):
        sim, h, t = self.sim, self.h, self.t
        with sim.guard("receiver-raised", self.kind + ":" + self.tag):
            n = 0
            while (h.hpaused or self.held) and not t.disconnecting:
                n += 1
                sim.check("harness-resume-loop", n < 400, self.kind)
                if h.hpaused:
                    self._resume()
                elif self.held:
                    data, self.held = self.held, b""
                    self._give(data)


def drive(sim, conns):
    """Deliver every connection's pieces; with more than one connection the tape chooses whose turn it is."""
    # the step cap is a harness safety net, not a verdict: it scales with the work drawn (two long streams delivered a byte at a
    # time need more than 5000 steps - seen once in 2.1 million runs of a soak, as a harness error)
    cap = 5000 + 6 * sum(len(c.pieces) for c in conns)
    for c in conns:
        c.step_cap = cap
    last = None
    while True:
        live = [c for c in conns if c.more()]
        if not live:
            break
        c = live[0]
        if len(live) > 1:
            c = live[sim.draw_int(0, len(live) - 1, "turn")]
            if last is not None and c is not last:
                sim.fault("interleaved_delivery")
                if last.mid_message():
                    sim.probe("other_connection_delivered_mid_message")
        last = c
        c.step()
    for c in conns:
        c.finish()


def split_at(pieces, points):
    """The same deliveries, additionally cut at the given offsets of the stream."""
    out = []
    pos = 0
    pts = sorted(set(points))
    for piece in pieces:
        last = 0
        for b in pts:
            if pos < b < pos + len(piece):
                out.append(piece[last:b - pos])
                last = b - pos
        out.append(piece[last:])
        pos += len(piece)
    return out


def conversation_cut(sim, pieces, bounds):
    """A peer on a synchronous pipe writes message by message: most grammar items end a delivery."""
    pts = [b for b in bounds if sim.draw_bool(0.75, "write-ends-here")]
    return split_at(pieces, pts)


def dangerous(prefix, delim, maxlen):
    """Precondition of the known LineOnlyReceiver finding: the bytes after the
    last complete delimiter are longer than MAX_LENGTH only because they end
    with the beginning of a delimiter."""
    residue = prefix.rsplit(delim, 1)[-1]
    ov = framing.overlap(residue, delim)
    return bool(ov) and len(residue) > maxlen and len(residue) - ov <= maxlen


def merge_dangerous(pieces, delim, maxlen):
    out = []
    sofar = b""
    cur = b""
    for p in pieces:
        cur += p
        if not dangerous(sofar + cur, delim, maxlen):
            out.append(cur)
            sofar += cur
            cur = b""
    if cur:
        out.append(cur)
    return out


def classify_rejection(kind, h):
    """Small stable witness for a premature over-length rejection (h.delim / h.maxlen = values in force then)."""
    arg = h.exceeded_arg
    delim, maxlen = h.delim, h.maxlen
    if kind in LINE_KINDS and arg is not None and len(delim) > 1:
        ov = framing.overlap(arg, delim)
        if ov and len(arg) > maxlen and len(arg) - ov <= maxlen and delim not in arg:
            return kind + ":partial-delimiter"
    return kind + ":other"


def compare(sim, kind, h, exp, tail, delim, maxlen, stream):
    obs = framing.upto_close(framing.coalesce_raw(h.log))
    exp = framing.coalesce_raw(exp)
    if obs == exp:
        return obs
    if tail == "may-exceed" and obs == exp + [("exceeded",), ("close",)]:
        sim.probe("tail_rejected_definitely_too_long")
        return obs
    if tail == "may-close" and obs == exp + [("close",)]:
        sim.probe("tail_closed_on_last_byte")
        return obs
    # first difference
    i = 0
    while i < len(obs) and i < len(exp) and obs[i] == exp[i]:
        i += 1
    o = obs[i] if i < len(obs) else ("nothing",)
    e = exp[i] if i < len(exp) else ("nothing",)
    detail = "%s delivery of %r (MAX_LENGTH=%d delimiter=%r script=%r): event %d observed %r, reference %r" % (
        h.tag, stream, maxlen, delim, h.script, i, o, e)
    if o[0] == "exceeded" and e[0] != "exceeded":
        sim.fail("within-limit-rejected", classify_rejection(kind, h), detail)
    if o[0] == "close" and e[0] in ("string", "line", "nothing") and kind == "NetstringReceiver":
        sim.fail("within-limit-rejected", kind + ":close", detail)
    sim.fail("reference-mismatch", "%s:obs=%s,ref=%s" % (kind, o[0], e[0]), detail)


def gen_stream(sim, kind, maxlen, delim, script, avoid):
    """Grammar stream for one connection -> (stream, item boundaries)."""
    cur = tracker(kind, maxlen, delim, script)
    if kind in LINE_KINDS:
        stream, bounds = gen_line_stream(sim, delim, cur)
    elif kind == "NetstringReceiver":
        stream, bounds = gen_net_stream(sim, cur)
    else:
        stream, bounds = gen_int_stream(sim, SPECS[kind], cur)
    if kind in LINE_KINDS:
        # the stream may END inside the delimiter that follows a line of (nearly) MAX_LENGTH bytes: finish that
        # delimiter so that the reference has a complete line to point at (or cut the partial delimiter off when
        # steering clear)
        if has_reconf(script):
            st = {}
            reference(kind, stream, maxlen, delim, script, st)
            m, d = st["maxlen"], st["delim"]
            risky = dangerous(stream[st["pos"]:], d, m)
        else:
            m, d = maxlen, delim
            risky = dangerous(stream, d, m)
        if risky:
            ov = framing.overlap(stream.rsplit(d, 1)[-1], d)
            stream = stream[:len(stream) - ov] if avoid else stream + d[ov:]
    return stream, bounds


def run(sim):
    kind = sim.draw_choice(KINDS, "kind")
    if kind == CUSTOM:
        kind = "%s[%s]" % (CUSTOM, sim.draw_choice(FORMATS, "struct-format"))
        spec = SPECS[kind]
        sim.probe("custom_prefix_format")
        if spec.padded:
            sim.probe("custom_prefix_with_pad_bytes")
        elif not spec.network:
            sim.probe("custom_prefix_not_network_order")
        else:
            sim.probe("custom_prefix_network_order")
    mode = sim.draw_weighted([("stream", 4), ("send", 1)], "mode")
    lens = maxlens(kind)
    if kind == "NetstringReceiver" and sim.draw_bool(NETSTRING_ZERO_P, "netstring-maxlen-0"):
        # MAX_LENGTH 0: only the empty netstring is within the limit
        lens = lens + [0, 0, 0]
        sim.probe("netstring_maxlen_zero_possible")
    maxlen = sim.draw_choice(lens, "maxlen")
    delim = sim.draw_choice(DELIMS, "delimiter") if kind in LINE_KINDS else b""
    # Finding (LineOnlyReceiver counted a partially received delimiter against MAX_LENGTH), genuine defect of the tree as
    # first examined, REPAIRED in /repo e73d511: AVOID_KNOWN_P = 0.1 of the LineOnlyReceiver runs with a multi-byte delimiter
    # still steer clear of its precondition (kept for dev-time comparison); the rest hit it.
    avoid = False
    if kind == "LineOnlyReceiver" and len(delim) > 1:
        avoid = sim.draw_bool(AVOID_KNOWN_P, "avoid-known")
        if avoid and mode == "send" and maxlen < len(delim) - 1:
            delim = delim[:1]
    reconf = sim.draw_bool(RECONF_P, "reconf") and not avoid
    companion = sim.draw_bool(COMPANION_P, "companion")
    # the re-entrant callback actions (self-resume, synchronous pipe): see INTN_REENTRY_P for the length-prefixed classes
    reentry = sim.draw_bool(INTN_REENTRY_P, "intn-reentry") if kind in SPECS else True
    feed = mode == "stream" and reentry and sim.draw_bool(FEED_P, "feed")
    script = gen_script(sim, kind, mode, reconf, lens, reentry, feed)
    sim.config = {"kind": kind, "mode": mode, "maxlen": maxlen, "delimiter": repr(delim), "avoid_known": avoid,
                  "reconf": reconf, "companion": companion, "reentry": reentry, "feed": feed,
                  "script": script_config(script)}
    cls = make_class(kind, maxlen, delim)

    if mode == "send":
        return run_send(sim, kind, cls, maxlen, delim, script, avoid, reconf, companion, lens, reentry)

    stream, bounds = gen_stream(sim, kind, maxlen, delim, script, avoid)
    sim.event("stream", kind, maxlen, delim, stream)
    pieces = net.cut(sim, stream, None, bounds)
    conversation = feed and sim.draw_bool(0.6, "conversation-cut")
    if conversation:
        pieces = conversation_cut(sim, pieces, bounds)
    if avoid:
        pieces = merge_dangerous(pieces, delim, maxlen)
    ext_pause_p = sim.draw_choice([0.0, 0.0, 0.15], "ext-pause-p")
    exp, tail = reference(kind, stream, maxlen, delim, script)

    conns = [SplitConn(sim, kind, cls, maxlen, delim, script, pieces, bounds, ext_pause_p, "split", "S", stream)]
    if companion:
        # a second live connection of the same class: own stream, own script, own reference
        script2 = gen_script(sim, kind, mode, reconf, lens, reentry, feed)
        stream2, bounds2 = gen_stream(sim, kind, maxlen, delim, script2, avoid)
        sim.event("stream2", stream2)
        pieces2 = net.cut(sim, stream2, None, bounds2)
        if conversation:
            pieces2 = conversation_cut(sim, pieces2, bounds2)
        if avoid:
            pieces2 = merge_dangerous(pieces2, delim, maxlen)
        exp2, tail2 = reference(kind, stream2, maxlen, delim, script2)
        conns.append(SplitConn(sim, kind, cls, maxlen, delim, script2, pieces2, bounds2, ext_pause_p,
                               "companion", "S2", stream2))
        sim.probe("companion_connection")
    drive(sim, conns)
    hs = conns[0].h
    obs = compare(sim, kind, hs, exp, tail, delim, maxlen, stream)
    if companion:
        obs2 = compare(sim, kind, conns[1].h, exp2, tail2, delim, maxlen, stream2)
        for e in obs2:
            sim.event("obs2", *e)
    hw = deliver_whole(sim, kind, cls, maxlen, delim, script, stream)
    obs_w = compare(sim, kind, hw, exp, tail, delim, maxlen, stream)
    sim.check("segmentation-invariant", obs == obs_w, kind,
              lambda: "stream %r pieces %r: split gave %r, whole gave %r" % (stream, pieces, obs, obs_w))
    for e in obs:
        sim.event("obs", *e)
    if hs.pauses:
        sim.probe("paused")
    if any(e[0] == "raw" for e in obs):
        sim.probe("raw_mode")
    if any(e[0] == "exceeded" for e in obs):
        sim.probe("over_length")
    sim.state((kind, min(len(obs), 6), tail, obs[-1][0] if obs else "-"))
    sim.nontrivial = len(pieces) > 1 and len(obs) > 0


class Lane:
    """send mode: one sender instance joined to one receiver instance by its own Link."""

    def __init__(self, sim, kind, cls, maxlen, delim, script, tag, nmsg):
        self.tag, self.script = tag, script
        self.hs = H(sim, kind, maxlen, delim, script, tag)
        self.recv = make_receiver(cls, self.hs)
        self.hsend = H(sim, kind, maxlen, delim, {}, tag + "-sender")
        self.sender = make_receiver(cls, self.hsend)
        self.link = net.Link(sim, self.sender, self.recv)
        self.link.connect()
        self.msgs = []
        self.left = nmsg
        self.cur_max, self.cur_delim = maxlen, delim    # what the sender goes by (follows the script in lockstep)


def run_send(sim, kind, cls, maxlen, delim, script, avoid=False, reconf=False, companion=False, lens=None, reentry=True):
    """A second real instance sends messages with the send method over a Link."""
    top = SPECS[kind].top if kind in SPECS else None
    lanes = [Lane(sim, kind, cls, maxlen, delim, script, "link", sim.draw_int(1, 6, "nmsgs"))]
    interleave = sim.draw_bool(0.5, "interleave")
    if companion:
        lanes.append(Lane(sim, kind, cls, maxlen, delim, gen_script(sim, kind, "send", reconf, lens, reentry), "link2",
                          sim.draw_int(1, 6, "nmsgs2")))
        sim.probe("companion_connection")
    last = [None]

    def net_steps(limit):
        n = 0
        while n < limit:
            sim.step(20000)
            opts = []
            for li, lane in enumerate(lanes):
                opts.extend((w, side, li) for w, side in lane.link.enabled())
                if lane.hs.hpaused:
                    opts.append(("resume", "B", li))
            if not opts:
                return
            what = sim.draw_choice(opts, "net")
            n += 1
            lane = lanes[what[2]]
            if what[0] == "resume":
                lane.hs.hpaused = False
                lane.hs.delivery += 1
                lane.recv.resumeProducing()
                continue
            amount = None
            if what[0] in ("xmit", "deliver"):
                amount = sim.draw_choice([None, 1000, 64, 17, 8, 5, 3, 2, 1], "amount")
                if amount is not None:
                    sim.fault("segmentation")
            if what[0] == "deliver" and what[1] == "B":
                lane.hs.delivery += 1
                if last[0] is not None and last[0] != what[2]:
                    sim.fault("interleaved_delivery")
                last[0] = what[2]
            lane.link.do(what[0], what[1], amount)

    def send_one(lane):
        n = gen_len(sim, lane.cur_max, top)
        n = min(n, lane.cur_max)          # only messages within the receiver's limit
        d = lane.cur_delim
        if avoid:
            n = max(0, min(n, lane.cur_max - len(d) + 1))
        if kind in LINE_KINDS:
            m = payload(sim, n, b"xy\r\n" + d + (delim if d != delim else b""))
            # a line cannot contain the delimiter, nor end with bytes that
            # complete one early together with the delimiter that follows
            if (m + d).find(d) != len(m):
                m = m.replace(d[:1], b"z")
            lane.sender.sendLine(m)
        else:
            m = payload(sim, n, b"xy,:0\x00")
            lane.sender.sendString(m)
        act = lane.script.get(len(lane.msgs), ("none",))
        lane.msgs.append(m)
        lane.left -= 1
        sim.event("send", lane.tag, m)
        # the peers re-negotiate: the receiver changes its parameters in the callback of this message, the sender
        # goes by the new ones from its next message on
        if act[0] == "maxlen":
            lane.cur_max = act[1]
        elif act[0] == "delim":
            lane.cur_delim = act[1]
            lane.sender.delimiter = act[1]

    with sim.guard("receiver-raised", kind + ":link"):
        while True:
            todo = [lane for lane in lanes if lane.left > 0]
            if not todo:
                break
            send_one(todo[0] if len(todo) == 1 else todo[sim.draw_int(0, len(todo) - 1, "sender-turn")])
            if interleave:
                net_steps(sim.draw_int(0, 6, "netsteps"))
        net_steps(100000)
    for lane in lanes:
        hs, msgs = lane.hs, lane.msgs
        wire = bytes(lane.link.a.written)
        got = [e[1] for e in hs.log if e[0] in ("line", "string")]
        other = [e for e in hs.log if e[0] not in ("line", "string")]
        if any(e[0] == "exceeded" for e in other):
            # every message sent is within the receiver's limit
            sim.fail("within-limit-rejected", classify_rejection(kind, hs),
                     "%s delivery: sent %r received %r then %r, wire %r (MAX_LENGTH=%d delimiter=%r script=%r)" % (
                         lane.tag, msgs, got, other, wire, maxlen, delim, lane.script))
        sim.check("sent-equals-received", got == msgs and not other, kind,
                  lambda: "%s: sent %r received %r other events %r wire %r (MAX_LENGTH=%d delimiter=%r script=%r)" % (
                      lane.tag, msgs, got, other, wire, maxlen, delim, lane.script))
        sim.check("sender-quiet", not lane.hsend.log, kind, lambda: "sender saw %r" % (lane.hsend.log,))
        # the wire bytes, parsed by the reference, are exactly the messages
        exp, tail = reference(kind, wire, maxlen, delim, reconf_only(lane.script))
        sim.check("wire-matches-reference",
                  [e[1] for e in exp if e[0] in ("line", "string")] == msgs and tail == "none", kind,
                  lambda: "wire %r frames to %r, sent %r" % (wire, exp, msgs))
    hs = lanes[0].hs
    got = [e for e in hs.log if e[0] in ("line", "string")]
    if hs.pauses:
        sim.probe("paused")
    sim.probe("send_mode")
    sim.state((kind, "send", min(len(lanes[0].msgs), 6)))
    sim.nontrivial = sim.faults.get("segmentation", 0) > 0 and len(got) > 0


# Sensitivity (tools/mutate.py C16 --sub src/twisted/protocols/basic.py OLD NEW; the known
# LineOnlyReceiver finding suppressed while testing).  All caught (exit 1) unless noted.
MUTANTS = [
    "LineReceiver: 'len(self._buffer) >= (self.MAX_LENGTH + len(self.delimiter))' -> 'len(self._buffer) > self.MAX_LENGTH' : caught (within-limit-rejected:LineReceiver:partial-delimiter)",
    "LineReceiver: same threshold '- 1' (off by one) : caught (within-limit-rejected:LineReceiver:partial-delimiter)",
    "LineReceiver: 'if lineLength > self.MAX_LENGTH' -> '>=' : caught (within-limit-rejected:LineReceiver:other)",
    "LineOnlyReceiver: 'if len(line) > self.MAX_LENGTH' -> '>=' : caught (within-limit-rejected:LineOnlyReceiver:other)",
    "IntNStringReceiver: 'if length > self.MAX_LENGTH' -> '>=' : caught (within-limit-rejected:Int8/16/32StringReceiver:other)",
    "NetstringReceiver._extractLength: 'if length > self.MAX_LENGTH' -> '>=' : caught (within-limit-rejected:NetstringReceiver:close, sent-equals-received)",
    "LineReceiver.setLineMode: 'return self.dataReceived(extra)' -> 'return None' (data after a mode switch dropped) : caught (reference-mismatch:LineReceiver:*)",
    "IntNStringReceiver.dataReceived: drop 'and not self.paused' from the loop condition : caught (delivered-while-paused:Int*StringReceiver)",
    "_PauseableMixin.resumeProducing: drop 'self.dataReceived(b\"\")' : caught (reference-mismatch:Int*:obs=nothing,...)",
    "IntNStringReceiver: 'self._unprocessed = alldata[currentOffset:]' -> keep consumed bytes when paused (prefix re-read after a pause) : caught (reference-mismatch)",
    "NetstringReceiver: _LENGTH_PREFIX '(0|[1-9]\\d*)$' -> '(0|[1-9]\\d?)$' (3-digit length split across deliveries rejected) : first SURVIVED (MAX_LENGTH <= 64 only), caught after adding MAX_LENGTH 100/120/1000 (within-limit-rejected:NetstringReceiver:close)",
    "IntNStringReceiver.sendString: prefix 'len(string) or 1' : caught (within-limit-rejected / sent-equals-received)",
    "round 4, reconfiguration family - LineReceiver.dataReceived: delimiter / MAX_LENGTH / MAX_LENGTH+len(delimiter) read once before the loop (seed C16-r4b) : first SURVIVED (no run changed the parameters after makeConnection), caught after scripting ('maxlen', n) / ('delim', d) actions (too-long-delivered:LineReceiver, within-limit-rejected:LineReceiver:other, reference-mismatch:LineReceiver:obs=line,ref=nothing)",
    "IntNStringReceiver.dataReceived: 'maxLength = self.MAX_LENGTH' hoisted before the loop : caught (within-limit-rejected:Int16/32StringReceiver:other, reference-mismatch:*:obs=nothing,ref=exceeded)",
    "LineOnlyReceiver.dataReceived: MAX_LENGTH read once before the for loop : caught (within-limit-rejected:LineOnlyReceiver:other, too-long-delivered:LineOnlyReceiver)",
    "NetstringReceiver: MAX_LENGTH cached in makeConnection and used in _extractLength : caught (within-limit-rejected:NetstringReceiver:close, too-long-delivered, sent-equals-received)",
    "round 4, companion family - NetstringReceiver: '_payload = BytesIO()' as class attribute, no longer created in makeConnection (seed C16-r4a) : first SURVIVED (one live connection per run; the sequential twin instance is harmless because the buffer is rewound per netstring), caught after adding the interleaved companion connection (reference-mismatch:NetstringReceiver:obs=string,ref=string, too-long-delivered:NetstringReceiver, sent-equals-received:NetstringReceiver)",
    "LineReceiver: class attribute '_buffer = bytearray()' (first += of every connection mutates the shared object) : caught (reference-mismatch:LineReceiver:obs=line,ref=exceeded / ref=nothing)",
    "LineOnlyReceiver: residue kept in a class-level list '_chunks' : caught (within-limit-rejected:LineOnlyReceiver:other, reference-mismatch:LineOnlyReceiver:*; companion and twin runs)",
    "round 5, prefix-format family - IntNStringReceiver.dataReceived: prefix decoded with int.from_bytes(..., 'big') instead of unpack(structFormat) (seed C16-r5b) : first SURVIVED (only the three network-order stock classes were run), caught after adding IntNStringReceiver subclasses with their own structFormat, each framed by its own reference (within-limit-rejected:IntNStringReceiver[=H]:other, within-limit-rejected:IntNStringReceiver[@I]:other, reference-mismatch:IntNStringReceiver[H]:obs=exceeded,ref=exceeded; < 1000 runs)",
    "IntNStringReceiver.dataReceived: prefix decoded with int.from_bytes(..., 'little' if fmt[0] == '<' else 'big') : caught (within-limit-rejected:IntNStringReceiver[=H] / [@H] / [@I]:other)",
    "IntNStringReceiver.sendString: prefix built with len(string).to_bytes(self.prefixLength, 'big') instead of pack(structFormat) : caught (within-limit-rejected:IntNStringReceiver[=L] / [<Hxx] / [@I]:other, send mode)",
    "observation (unchanged tree, not checked: LINEONLY_DELIM_RECONF = False): LineOnlyReceiver splits a delivery on the delimiter before calling lineReceived, so a delimiter set inside lineReceived is applied to the rest of the stream only from the next delivery on (b'EOL LF\\r\\none\\ntwo\\n' at once -> 1 line, bytewise -> 3 lines); with the flag on the check reports reference-mismatch:LineOnlyReceiver:obs=line,ref=nothing within ~1000 runs",
    "round 6, re-entrant callbacks - NetstringReceiver._consumePayload: '_state = _PARSING_LENGTH' moved behind _processPayload() (seed C16-r6b: the parser still says 'complete payload waiting' while stringReceived runs) : first SURVIVED (no callback ever re-entered the receiver), caught after adding the synchronous-pipe 'feed' action (reference-mismatch:NetstringReceiver:obs=string,ref=string / ref=nothing / ref=close; ~100 runs)",
    "LineOnlyReceiver.dataReceived: 'self._buffer = lines.pop(-1)' moved behind the for loop (residue stored after the callbacks) : caught by the feed action (reference-mismatch:LineOnlyReceiver:obs=line,ref=line / ref=exceeded, within-limit-rejected:LineOnlyReceiver:other; < 2000 runs)",
    "LineReceiver.dataReceived: drop the '_busyReceiving' early return : SURVIVED, equivalent for this property (the loop keeps its whole state in self._buffer, so a nested call simply parses on and the outer loop finds the buffer empty; only the stack depth differs)",
    "GENUINE DEFECT found, REPAIRED in /repo 520a5fa: IntNStringReceiver.dataReceived was not re-entrant: it stored the WHOLE working buffer in _unprocessed before the loop and every call started at offset 0, so _PauseableMixin.resumeProducing() (-> dataReceived(b'')) called from inside stringReceived, or a nested delivery, handed out again every message of the running delivery: b'\\x00\\x01a\\x00\\x01b\\x00\\x01c' with pause+resume in the callback of b'b' gives a b a b c c; b'\\x00\\x04ping' answered from inside the callback with b'\\x00\\x04pong' gives ping ping pong (reference-mismatch:Int*StringReceiver:obs=string,ref=*, sent-equals-received:Int*StringReceiver, also whole delivery; RecursionError when the application does it for every message).  Share of runs that script it: INTN_REENTRY_P.  The repair: a _busyReceiving flag as in LineReceiver (re-entrant call appends to _unprocessed and returns; the running loop re-reads 'alldata = self._unprocessed' after stringReceived) : check passes with INTN_REENTRY_P = 1.0 (3 x 100000 runs)",
    "GENUINE DEFECT found, REPAIRED in /repo 39163cd: NetstringReceiver._maxLengthSize: math.log10(self.MAX_LENGTH) raised ValueError for MAX_LENGTH = 0, out of dataReceived, for every input holding a digit - b'0:,' (the one message within the limit) included (receiver-raised:NetstringReceiver:*).  Share of runs that allow it: NETSTRING_ZERO_P.  The repair: 'if self.MAX_LENGTH < 1: return 1' : check passes with NETSTRING_ZERO_P = 0.5",
    "observations, outside the statement (over-length handlers overridden so that they do NOT close - ASSUMPTIONS[0]; the statement compares up to the first close request and gives no reference for what follows a notification that was not answered with a close; LineReceiver documents that lineLengthExceeded gets 'the remainder of the buffer ... more than one line, or only the initial portion of the line', i.e. what follows is segmentation-dependent by design): IntNStringReceiver returns from dataReceived with _unprocessed = the whole delivery, so the next delivery hands out the earlier messages and the notification again; LineOnlyReceiver's 'return self.lineLengthExceeded(line)' drops the rest of that delivery's lines (b'ab\\nTOOLONG\\ncd\\n' at once: ab; in two pieces: ab, cd)",
    "repair in /repo e73d511, LineOnlyReceiver: 'if len(self._buffer) > self.MAX_LENGTH' -> '>= self.MAX_LENGTH + len(self.delimiter)' : check passes (exit 0), 48000 runs",
]
