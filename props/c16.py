"""C16 — framed-message receivers: segmentation invariance and exact limits.

Engine E3 (net).  One run picks one receiver class (LineReceiver,
LineOnlyReceiver, NetstringReceiver, Int8/16/32StringReceiver), a small
MAX_LENGTH (and delimiter), and either

* "stream" mode: a byte stream from a seeded grammar (messages of length
  MAX_LENGTH-1 / MAX_LENGTH / MAX_LENGTH+1, delimiter bytes inside lines,
  invalid netstrings, over-long prefixes, an unfinished tail) is delivered to a
  real receiver on a SimTransport in tape-chosen pieces (net.cut), while the
  receiver's callbacks follow a tape-drawn script (pause, raw mode for n bytes
  and back with setLineMode(extra), loseConnection) and the harness resumes /
  stalls / coalesces; or
* "send" mode: a second real instance sends messages with sendLine/sendString
  over a net.Link to the receiver under a tape-chosen delivery schedule.

Oracle: models/framing.py (whole-stream reference framers).  Checked: the
observed callback sequence up to the first close request == the reference
framing == the sequence observed when a fresh instance gets the same stream in
ONE delivery; no message longer than MAX_LENGTH is ever delivered; no message
within MAX_LENGTH is rejected; nothing is delivered while paused; every message
sent with the send method arrives equal.
"""
from detsim import net
from models import framing

from twisted.protocols import basic

ID = "C16"
ENGINE = "net"
LEVEL = "exploration"
TECHNIQUE = ("deterministic simulation: seeded stream grammar + seeded segmentation/pause/mode-switch schedule on real "
             "receivers vs whole-stream reference framers and vs one-piece delivery")
QUICK_RUNS = 120000
TWIN_P = 0.08   # this share of the runs drives two independent instances of the scenario one after the other (detsim.runner._run_scenario)
BATCH = 100
AVOID_KNOWN_P = 0.1
COMPONENTS = {
    "real": ["twisted.protocols.basic.LineReceiver", "twisted.protocols.basic.LineOnlyReceiver",
             "twisted.protocols.basic.NetstringReceiver", "twisted.protocols.basic.Int8/16/32StringReceiver",
             "sendLine/sendString", "_PauseableMixin"],
    "stub": ["TCP transport, delivery segmentation, stalls and coalescing (detsim.net.SimTransport / Link / cut)"],
}
RULE = ("run = one receiver class with tape-chosen MAX_LENGTH (1..64) and delimiter, fed a grammar-generated stream "
        "(or messages sent by a second real instance) in tape-chosen pieces with tape-scripted pause/raw-mode/close "
        "actions inside callbacks; non-trivial = the stream was cut at least once and at least one message or "
        "over-length notification was observed")
ASSUMPTIONS = [
    "the over-length handlers keep their default behaviour (request a close), so comparison ends at the first close request",
    "the transport stops delivering once a close has been requested (as real TCP transports do)",
    "what happens to an unfinished message at the very end of the stream is compared between whole and split delivery, "
    "but the reference accepts both 'still waiting' and 'rejected' when the unfinished message can no longer fit the limit",
]

LINE_KINDS = ("LineReceiver", "LineOnlyReceiver")
INT_KINDS = {"Int8StringReceiver": 1, "Int16StringReceiver": 2, "Int32StringReceiver": 4}
KINDS = ["LineOnlyReceiver", "LineReceiver", "NetstringReceiver", "Int8StringReceiver", "Int16StringReceiver",
         "Int32StringReceiver"]
DELIMS = [b"\r\n", b"\n", b"\r\n\r\n", b"ab", b"aab", b"\x00\x00\x01"]


class RecTransport(net.SimTransport):
    """SimTransport that records the close request in the shared event log."""

    def __init__(self, sim, name, log, **kw):
        net.SimTransport.__init__(self, sim, name, **kw)
        self.evlog = log

    def loseConnection(self, _reason=None):
        self.evlog.append(("close",))
        net.SimTransport.loseConnection(self, _reason)


class H:
    """Per-instance harness state shared with the recording subclass."""

    def __init__(self, sim, kind, maxlen, script, tag):
        self.sim, self.kind, self.maxlen, self.script, self.tag = sim, kind, maxlen, script, tag
        self.log = []
        self.k = 0
        self.hpaused = False
        self.need = 0
        self.exceeded_arg = None
        self.pauses = 0

    def message(self, proto, kind, msg):
        sim = self.sim
        sim.check("too-long-delivered", len(msg) <= self.maxlen, self.kind,
                  lambda: "%s delivered %d bytes, MAX_LENGTH=%d" % (self.tag, len(msg), self.maxlen))
        sim.check("delivered-while-paused", not self.hpaused, self.kind,
                  lambda: "%s: message %d delivered after pauseProducing()" % (self.tag, self.k))
        self.log.append((kind, msg))
        act = self.script.get(self.k, ("none",))
        self.k += 1
        closed = any(e[0] == "close" for e in self.log)
        if closed:
            return
        if act[0] == "pause" and hasattr(proto, "pauseProducing"):
            self.hpaused = True
            self.pauses += 1
            proto.pauseProducing()
        elif act[0] == "raw":
            self.need = act[1]
            proto.setRawMode()
        elif act[0] == "lose":
            proto.transport.loseConnection()


def make_receiver(kind, h, maxlen, delim):
    if kind in LINE_KINDS:
        base = getattr(basic, kind)

        class R(base):
            MAX_LENGTH = maxlen
            delimiter = delim

            def lineReceived(self, line):
                h.message(self, "line", line)

            def rawDataReceived(self, data):
                h.sim.check("delivered-while-paused", not h.hpaused, kind, "raw data delivered after pauseProducing()")
                take = min(h.need, len(data))
                h.log.append(("raw", data[:take]))
                h.need -= take
                if h.need == 0:
                    self.setLineMode(data[take:])

            def lineLengthExceeded(self, line):
                h.log.append(("exceeded",))
                h.exceeded_arg = bytes(line)
                return base.lineLengthExceeded(self, line)
    elif kind == "NetstringReceiver":
        class R(basic.NetstringReceiver):
            MAX_LENGTH = maxlen

            def stringReceived(self, s):
                h.message(self, "string", s)
    else:
        base = getattr(basic, kind)

        class R(base):
            MAX_LENGTH = maxlen

            def stringReceived(self, s):
                h.message(self, "string", s)

            def lengthLimitExceeded(self, length):
                h.log.append(("exceeded", length))
                return base.lengthLimitExceeded(self, length)
    return R()


def reference(kind, stream, maxlen, delim, script):
    if kind in LINE_KINDS:
        return framing.frame_lines(stream, delim, maxlen, script)
    if kind == "NetstringReceiver":
        return framing.frame_netstrings(stream, maxlen, script)
    return framing.frame_intn(stream, INT_KINDS[kind], maxlen, script)


# ------------------------------------------------------------------ generators

def payload(sim, n, alpha):
    """n bytes over alpha; long payloads cost one tape entry."""
    if n <= 40:
        return sim.draw_bytes(n, alpha)
    return bytes(alpha[b % len(alpha)] for b in sim.draw_blob(n))


def gen_len(sim, maxlen, cap=None):
    n = sim.draw_weighted([(maxlen, 4), (maxlen - 1, 2), (maxlen + 1, 3), (0, 1), (1, 1),
                           (sim.draw_int(0, maxlen + 3, "len"), 3)], "lenkind")
    n = max(0, n)
    if cap is not None:
        n = min(n, cap)
    return n


def gen_line_stream(sim, maxlen, delim):
    alpha = b"xy" + delim + delim[:1] * 2 + b"\r\n"
    out = bytearray()
    bounds = []
    for _ in range(sim.draw_int(1, 6, "nitems")):
        out += payload(sim, gen_len(sim, maxlen), alpha)
        if sim.draw_bool(0.9, "delim"):
            out += delim
            bounds.append(len(out))
    if sim.draw_bool(0.3, "tail"):
        out += payload(sim, gen_len(sim, maxlen), alpha)
        if sim.draw_bool(0.5, "partial-delim") and len(delim) > 1:
            out += delim[:sim.draw_int(1, len(delim) - 1, "k")]
    return bytes(out), bounds


def gen_int_stream(sim, maxlen, plen):
    top = 256 ** plen - 1
    out = bytearray()
    bounds = []
    for _ in range(sim.draw_int(1, 6, "nitems")):
        if sim.draw_bool(0.12, "overlong"):
            n = sim.draw_choice([maxlen + 1, top, min(top, maxlen + 1 + sim.draw_int(0, 300, "over"))], "overlen")
            n = min(n, top)
            out += n.to_bytes(plen, "big") + sim.draw_bytes(sim.draw_int(0, 6, "junk"), b"xy\x00")
        else:
            n = min(gen_len(sim, maxlen, top), top)
            out += n.to_bytes(plen, "big") + payload(sim, n, b"xy\x00\x01")
        bounds.append(len(out))
    if sim.draw_bool(0.3, "tail"):
        n = min(gen_len(sim, maxlen, top), top)
        frame = n.to_bytes(plen, "big") + payload(sim, n, b"xy\x00")
        out += frame[:sim.draw_int(0, len(frame), "tailcut")]
    return bytes(out), bounds


def gen_net_stream(sim, maxlen):
    out = bytearray()
    bounds = []
    for _ in range(sim.draw_int(1, 6, "nitems")):
        kind = sim.draw_weighted([("ok", 12), ("leading0", 1), ("nocomma", 1), ("nodigit", 1), ("huge", 1),
                                  ("nl", 1), ("badlen", 1)], "item")
        n = gen_len(sim, maxlen)
        body = payload(sim, n, b"xy,:019\n")
        if kind == "ok":
            out += b"%d:" % n + body + b","
        elif kind == "leading0":
            out += b"0%d:" % n + body + b","
        elif kind == "nocomma":
            out += b"%d:" % n + body + sim.draw_choice([b"x", b":", b"1"], "notcomma")
        elif kind == "nodigit":
            out += sim.draw_choice([b":", b",", b"x", b"-1:", b" 1:"], "nodigit") + body + b","
        elif kind == "huge":
            out += sim.draw_choice([b"99999999999999999999", b"1" + b"0" * 30], "hugelen") + b":" + body[:3] + b","
        elif kind == "nl":
            out += b"%d\n" % n + sim.draw_choice([b"", b":" + body + b","], "after-nl")
        else:
            out += b"%d" % n + sim.draw_choice([b"x:", b" :", b";"], "badsep") + body + b","
        bounds.append(len(out))
    if sim.draw_bool(0.3, "tail"):
        n = gen_len(sim, maxlen)
        frame = b"%d:" % n + payload(sim, n, b"xy,") + b","
        out += frame[:sim.draw_int(0, len(frame), "tailcut")]
    return bytes(out), bounds


def gen_script(sim, kind, mode):
    script = {}
    if kind == "LineOnlyReceiver" or (kind == "NetstringReceiver" and mode == "send"):
        acts = [(("none",), 1)]
    elif kind == "NetstringReceiver":
        acts = [(("none",), 12), (("lose",), 1)]
    elif kind == "LineReceiver":
        acts = [(("none",), 8), (("pause",), 3), (("raw",), 3), (("lose",), 1)]
    else:
        acts = [(("none",), 8), (("pause",), 3), (("lose",), 1)]
    if kind == "LineOnlyReceiver" and mode == "stream":
        acts = [(("none",), 12), (("lose",), 1)]
    if mode == "send":
        acts = [(a, w) for a, w in acts if a[0] in ("none", "pause")]
    if len(acts) == 1:
        return script
    for k in range(10):
        a = sim.draw_weighted(acts, "act")
        if a[0] == "raw":
            a = ("raw", sim.draw_int(1, 9, "rawlen"))
        if a[0] != "none":
            script[k] = a
    return script


# ------------------------------------------------------------------ drivers

def deliver_whole(sim, kind, maxlen, delim, script, stream):
    """Fresh instance, the whole stream in one dataReceived, resume until idle."""
    h = H(sim, kind, maxlen, script, "whole")
    p = make_receiver(kind, h, maxlen, delim)
    t = RecTransport(sim, "W", h.log)
    t.protocol = p
    p.makeConnection(t)
    with sim.guard("receiver-raised", kind + ":whole"):
        if stream:
            p.dataReceived(stream)
        n = 0
        while h.hpaused and not t.disconnecting:
            n += 1
            sim.check("harness-resume-loop", n < 200, kind)
            h.hpaused = False
            p.resumeProducing()
    return h


def deliver_split(sim, kind, maxlen, delim, script, pieces, ext_pause_p):
    h = H(sim, kind, maxlen, script, "split")
    p = make_receiver(kind, h, maxlen, delim)
    t = RecTransport(sim, "S", h.log)
    t.protocol = p
    p.makeConnection(t)
    pausable = hasattr(p, "pauseProducing")
    held = b""
    with sim.guard("receiver-raised", kind + ":split"):
        for piece in pieces:
            sim.step(5000)
            if t.disconnecting:
                break
            if h.hpaused:
                what = sim.draw_weighted([("resume", 5), ("hold", 3), ("push", 1)], "while-paused")
                if what == "hold":
                    held += piece
                    sim.fault("stall_while_paused")
                    continue
                if what == "push":
                    # a transport that had already read this piece hands it over although paused
                    sim.fault("delivery_while_paused")
                    p.dataReceived(held + piece)
                    held = b""
                    continue
                h.hpaused = False
                p.resumeProducing()
                n = 0
                while h.hpaused and sim.draw_bool(0.5, "resume-again"):
                    n += 1
                    if n > 50:
                        break
                    h.hpaused = False
                    p.resumeProducing()
                if h.hpaused or t.disconnecting:
                    held += piece
                    continue
            sim.event("deliver", held + piece)
            p.dataReceived(held + piece)
            held = b""
            if pausable and ext_pause_p and not h.hpaused and not t.disconnecting and sim.draw_bool(ext_pause_p, "ext-pause"):
                sim.fault("external_pause")
                h.hpaused = True
                h.pauses += 1
                p.pauseProducing()
        n = 0
        while (h.hpaused or held) and not t.disconnecting:
            n += 1
            sim.check("harness-resume-loop", n < 400, kind)
            if h.hpaused:
                h.hpaused = False
                p.resumeProducing()
            elif held:
                p.dataReceived(held)
                held = b""
    return h


def dangerous(prefix, delim, maxlen):
    """Precondition of the known LineOnlyReceiver finding: the bytes after the
    last complete delimiter are longer than MAX_LENGTH only because they end
    with the beginning of a delimiter."""
    residue = prefix.rsplit(delim, 1)[-1]
    ov = framing.overlap(residue, delim)
    return bool(ov) and len(residue) > maxlen and len(residue) - ov <= maxlen


def merge_dangerous(pieces, delim, maxlen):
    out = []
    sofar = b""
    cur = b""
    for p in pieces:
        cur += p
        if not dangerous(sofar + cur, delim, maxlen):
            out.append(cur)
            sofar += cur
            cur = b""
    if cur:
        out.append(cur)
    return out


def classify_rejection(kind, h, delim, maxlen):
    """Small stable witness for a premature over-length rejection."""
    arg = h.exceeded_arg
    if kind in LINE_KINDS and arg is not None and len(delim) > 1:
        ov = framing.overlap(arg, delim)
        if ov and len(arg) > maxlen and len(arg) - ov <= maxlen and delim not in arg:
            return kind + ":partial-delimiter"
    return kind + ":other"


def compare(sim, kind, h, exp, tail, delim, maxlen, stream):
    obs = framing.upto_close(framing.coalesce_raw(h.log))
    exp = framing.coalesce_raw(exp)
    if obs == exp:
        return obs
    if tail == "may-exceed" and obs == exp + [("exceeded",), ("close",)]:
        sim.probe("tail_rejected_definitely_too_long")
        return obs
    if tail == "may-close" and obs == exp + [("close",)]:
        sim.probe("tail_closed_on_last_byte")
        return obs
    # first difference
    i = 0
    while i < len(obs) and i < len(exp) and obs[i] == exp[i]:
        i += 1
    o = obs[i] if i < len(obs) else ("nothing",)
    e = exp[i] if i < len(exp) else ("nothing",)
    detail = "%s delivery of %r (MAX_LENGTH=%d delimiter=%r script=%r): event %d observed %r, reference %r" % (
        h.tag, stream, maxlen, delim, h.script, i, o, e)
    if o[0] == "exceeded" and e[0] != "exceeded":
        sim.fail("within-limit-rejected", classify_rejection(kind, h, delim, maxlen), detail)
    if o[0] == "close" and e[0] in ("string", "line", "nothing") and kind == "NetstringReceiver":
        sim.fail("within-limit-rejected", kind + ":close", detail)
    sim.fail("reference-mismatch", "%s:obs=%s,ref=%s" % (kind, o[0], e[0]), detail)


def run(sim):
    kind = sim.draw_choice(KINDS, "kind")
    mode = sim.draw_weighted([("stream", 4), ("send", 1)], "mode")
    if kind == "Int8StringReceiver":
        maxlen = sim.draw_choice([5, 0, 1, 2, 16, 64, 254, 255], "maxlen")
    elif kind == "NetstringReceiver":
        maxlen = sim.draw_choice([5, 1, 2, 9, 10, 11, 20, 64, 100, 120, 1000], "maxlen")
    elif kind in LINE_KINDS:
        maxlen = sim.draw_choice([5, 0, 1, 2, 3, 8, 16, 64], "maxlen")
    else:
        maxlen = sim.draw_choice([5, 0, 1, 2, 16, 64, 256, 300], "maxlen")
    delim = sim.draw_choice(DELIMS, "delimiter") if kind in LINE_KINDS else b""
    # Known finding (LineOnlyReceiver counts a partially received delimiter
    # against MAX_LENGTH): most LineOnlyReceiver runs steer clear of its
    # precondition so that the other clauses get full-length runs; the rest hit it.
    avoid = False
    if kind == "LineOnlyReceiver" and len(delim) > 1:
        avoid = sim.draw_bool(AVOID_KNOWN_P, "avoid-known")
        if avoid and mode == "send" and maxlen < len(delim) - 1:
            delim = delim[:1]
    script = gen_script(sim, kind, mode)
    sim.config = {"kind": kind, "mode": mode, "maxlen": maxlen, "delimiter": repr(delim), "avoid_known": avoid,
                  "script": {str(k): list(v) for k, v in sorted(script.items())}}

    if mode == "send":
        return run_send(sim, kind, maxlen, delim, script, avoid)

    if kind in LINE_KINDS:
        stream, bounds = gen_line_stream(sim, maxlen, delim)
    elif kind == "NetstringReceiver":
        stream, bounds = gen_net_stream(sim, maxlen)
    else:
        stream, bounds = gen_int_stream(sim, maxlen, INT_KINDS[kind])
    if kind in LINE_KINDS and dangerous(stream, delim, maxlen):
        # the stream would END inside the delimiter that follows a line of (nearly)
        # MAX_LENGTH bytes: finish that delimiter so that the reference has a complete
        # line to point at (or cut the partial delimiter off when steering clear)
        ov = framing.overlap(stream.rsplit(delim, 1)[-1], delim)
        stream = stream[:len(stream) - ov] if avoid else stream + delim[ov:]
    sim.event("stream", kind, maxlen, delim, stream)
    pieces = net.cut(sim, stream, None, bounds)
    if avoid:
        pieces = merge_dangerous(pieces, delim, maxlen)
    ext_pause_p = sim.draw_choice([0.0, 0.0, 0.15], "ext-pause-p")
    exp, tail = reference(kind, stream, maxlen, delim, script)

    hs = deliver_split(sim, kind, maxlen, delim, script, pieces, ext_pause_p)
    obs = compare(sim, kind, hs, exp, tail, delim, maxlen, stream)
    hw = deliver_whole(sim, kind, maxlen, delim, script, stream)
    obs_w = compare(sim, kind, hw, exp, tail, delim, maxlen, stream)
    sim.check("segmentation-invariant", obs == obs_w, kind,
              lambda: "stream %r pieces %r: split gave %r, whole gave %r" % (stream, pieces, obs, obs_w))
    for e in obs:
        sim.event("obs", *e)
    if hs.pauses:
        sim.probe("paused")
    if any(e[0] == "raw" for e in obs):
        sim.probe("raw_mode")
    if any(e[0] == "exceeded" for e in obs):
        sim.probe("over_length")
    sim.state((kind, min(len(obs), 6), tail, obs[-1][0] if obs else "-"))
    sim.nontrivial = len(pieces) > 1 and len(obs) > 0


def run_send(sim, kind, maxlen, delim, script, avoid=False):
    """A second real instance sends messages with the send method over a Link."""
    hs = H(sim, kind, maxlen, script, "link")
    recv = make_receiver(kind, hs, maxlen, delim)
    hsend = H(sim, kind, maxlen, {}, "sender")
    sender = make_receiver(kind, hsend, maxlen, delim)
    link = net.Link(sim, sender, recv)
    link.connect()
    top = 256 ** INT_KINDS[kind] - 1 if kind in INT_KINDS else None
    msgs = []
    nmsg = sim.draw_int(1, 6, "nmsgs")
    interleave = sim.draw_bool(0.5, "interleave")

    def net_steps(limit):
        n = 0
        while n < limit:
            sim.step(20000)
            ev = link.enabled()
            opts = list(ev)
            if hs.hpaused:
                opts.append(("resume", "B"))
            if not opts:
                return
            what = sim.draw_choice(opts, "net")
            n += 1
            if what[0] == "resume":
                hs.hpaused = False
                recv.resumeProducing()
                continue
            amount = None
            if what[0] in ("xmit", "deliver"):
                amount = sim.draw_choice([None, 1000, 64, 17, 8, 5, 3, 2, 1], "amount")
                if amount is not None:
                    sim.fault("segmentation")
            link.do(what[0], what[1], amount)

    with sim.guard("receiver-raised", kind + ":link"):
        for _ in range(nmsg):
            n = gen_len(sim, maxlen, top)
            n = min(n, maxlen)          # only messages within the receiver's limit
            if avoid:
                n = max(0, min(n, maxlen - len(delim) + 1))
            if kind in LINE_KINDS:
                m = payload(sim, n, b"xy\r\n" + delim)
                # a line cannot contain the delimiter, nor end with bytes that
                # complete one early together with the delimiter that follows
                if (m + delim).find(delim) != len(m):
                    m = m.replace(delim[:1], b"z")
                sender.sendLine(m)
            else:
                m = payload(sim, n, b"xy,:0\x00")
                sender.sendString(m)
            msgs.append(m)
            sim.event("send", m)
            if interleave:
                net_steps(sim.draw_int(0, 6, "netsteps"))
        net_steps(100000)
    wire = bytes(link.a.written)
    got = [e[1] for e in hs.log if e[0] in ("line", "string")]
    other = [e for e in hs.log if e[0] not in ("line", "string")]
    if any(e[0] == "exceeded" for e in other):
        # every message sent is within the receiver's limit
        sim.fail("within-limit-rejected", classify_rejection(kind, hs, delim, maxlen),
                 "link delivery: sent %r received %r then %r, wire %r (MAX_LENGTH=%d delimiter=%r)" % (
                     msgs, got, other, wire, maxlen, delim))
    sim.check("sent-equals-received", got == msgs and not other, kind,
              lambda: "sent %r received %r other events %r wire %r (MAX_LENGTH=%d delimiter=%r)" % (
                  msgs, got, other, wire, maxlen, delim))
    sim.check("sender-quiet", not hsend.log, kind, lambda: "sender saw %r" % (hsend.log,))
    # the wire bytes, parsed by the reference, are exactly the messages
    exp, tail = reference(kind, wire, maxlen, delim, {})
    sim.check("wire-matches-reference", [e[1] for e in exp if e[0] in ("line", "string")] == msgs and tail == "none", kind,
              lambda: "wire %r frames to %r, sent %r" % (wire, exp, msgs))
    if hs.pauses:
        sim.probe("paused")
    sim.probe("send_mode")
    sim.state((kind, "send", min(len(msgs), 6)))
    sim.nontrivial = sim.faults.get("segmentation", 0) > 0 and len(got) > 0


# Sensitivity (tools/mutate.py C16 --sub src/twisted/protocols/basic.py OLD NEW; the known
# LineOnlyReceiver finding suppressed while testing).  All caught (exit 1) unless noted.
MUTANTS = [
    "LineReceiver: 'len(self._buffer) >= (self.MAX_LENGTH + len(self.delimiter))' -> 'len(self._buffer) > self.MAX_LENGTH' : caught (within-limit-rejected:LineReceiver:partial-delimiter)",
    "LineReceiver: same threshold '- 1' (off by one) : caught (within-limit-rejected:LineReceiver:partial-delimiter)",
    "LineReceiver: 'if lineLength > self.MAX_LENGTH' -> '>=' : caught (within-limit-rejected:LineReceiver:other)",
    "LineOnlyReceiver: 'if len(line) > self.MAX_LENGTH' -> '>=' : caught (within-limit-rejected:LineOnlyReceiver:other)",
    "IntNStringReceiver: 'if length > self.MAX_LENGTH' -> '>=' : caught (within-limit-rejected:Int8/16/32StringReceiver:other)",
    "NetstringReceiver._extractLength: 'if length > self.MAX_LENGTH' -> '>=' : caught (within-limit-rejected:NetstringReceiver:close, sent-equals-received)",
    "LineReceiver.setLineMode: 'return self.dataReceived(extra)' -> 'return None' (data after a mode switch dropped) : caught (reference-mismatch:LineReceiver:*)",
    "IntNStringReceiver.dataReceived: drop 'and not self.paused' from the loop condition : caught (delivered-while-paused:Int*StringReceiver)",
    "_PauseableMixin.resumeProducing: drop 'self.dataReceived(b\"\")' : caught (reference-mismatch:Int*:obs=nothing,...)",
    "IntNStringReceiver: 'self._unprocessed = alldata[currentOffset:]' -> keep consumed bytes when paused (prefix re-read after a pause) : caught (reference-mismatch)",
    "NetstringReceiver: _LENGTH_PREFIX '(0|[1-9]\\d*)$' -> '(0|[1-9]\\d?)$' (3-digit length split across deliveries rejected) : first SURVIVED (MAX_LENGTH <= 64 only), caught after adding MAX_LENGTH 100/120/1000 (within-limit-rejected:NetstringReceiver:close)",
    "IntNStringReceiver.sendString: prefix 'len(string) or 1' : caught (within-limit-rejected / sent-equals-received)",
    "candidate FIX LineOnlyReceiver: 'if len(self._buffer) > self.MAX_LENGTH' -> '>= self.MAX_LENGTH + len(self.delimiter)' : check passes (exit 0), 48000 runs",
]
