"""C08 — reactor timed calls run once, on time, in time order.

Engine E2 (clock): a minimal real ReactorBase subclass whose seconds() reads a
simulated time variable owned by the scenario (installWaker / doIteration are
no-ops; the reactor is never started).  The scenario plays the main loop
itself: handler-phase operations, move the clock, runUntilCurrent(), timeout().
The tape chooses callLater / cancel / reset / delay (also from inside running
calls, also on calls that already ran or were cancelled), how far the clock
moves before each iteration (0, a few eighths, exactly timeout(), a far jump),
and whether timeout() is consulted between iterations (which decides whether a
new call is still staged or already in the heap when it is next touched).  A
swarm knob performs a burst of >50 cancellations of heap-resident calls to
reach the heap compaction branch.  A second swarm knob makes timed calls FAIL:
with a per-run probability a call ends by raising (after its in-call
operations).  The reactor has to log that (twisted.logger, silenced by the
harness) and carry on: a failing call counts as run, nothing may escape from
runUntilCurrent(), and every clause below holds unchanged for the other calls
that are due in that iteration.  A third swarm knob (family "fine", either
configuration) puts the run on a finer time grid: every delay and clock step is
a multiple of 1/8 s or, by tape, of the run's fine unit (2^-4 .. 2^-13 s), so
the time remaining until the earliest call is a fraction of a millisecond off
every whole-millisecond value (and, for the smaller units, below 1 ms) while all
arithmetic stays exact; the sleep-timeout clause is then compared exactly at
sub-millisecond resolution.

Oracle: models.timers.TimerModel (mode "reactor"), consulted on every call the
reactor runs, at the end of every iteration, and after every operation
(getDelayedCalls, getTime, timeout bound).
"""
from twisted.internet.base import ReactorBase

from props._timers import TimerScenario, EIGHTH, freeze_heap
from detsim import kernel as K, reactors as R

ID = "C08"
ENGINE = "clock"
LEVEL = "exploration"
TECHNIQUE = "deterministic simulation: seeded timer operations and clock advances on a real ReactorBase vs reference timer model"
QUICK_RUNS = 28000
USES_DEPTH = True   # thorough tier: history length bound scales with sim.depth (1..3) beyond the quick tier\'s run indices
BATCH = 100
RUN_WALL_LIMIT_S = 60   # a run takes milliseconds; the margin is for descheduling on a loaded host
COMPONENTS = {"real": ["twisted.internet.base.ReactorBase.callLater/_insertNewDelayedCalls/_moveCallLaterSooner/timeout/runUntilCurrent/getDelayedCalls",
                       "twisted.internet.base.DelayedCall.cancel/reset/delay/getTime/active"],
              "stub": ["reactor clock: seconds() reads a simulated time variable; it moves only between iterations",
                       "main loop: the scenario calls runUntilCurrent()/timeout() itself; installWaker/doIteration are no-ops (no I/O, no threads, reactor never started)"]}
RULE = ("run = up to 120 tape-chosen operations over up to 60 calls (callLater with dyadic delay >= 0 / cancel / reset / delay(+-) on pending or dead calls, "
        "from the top level or from inside a running call / timeout() / iteration after moving the clock by 0, k/8, exactly timeout() or a far jump), "
        "in 30% of runs plus one burst of 60-72 callLater followed by cancellation of ~90% of them (heap compaction), "
        "in 2/3 of runs each timed call ends by raising with probability 0.1 or 0.3 (application failure inside an iteration in which other calls may be due), "
        "in 2/7 of runs (family 'fine', base or real-main-loop configuration) a fine time grid: each delay / clock step is by tape a multiple of 1/8 s or of the run's "
        "unit 2^-4, 2^-6, 2^-10 or 2^-13 s (remaining times that are not whole milliseconds, also < 1 ms; real-loop runs also let 1-4 units pass between passes "
        "without a sleep, and a whole-ms poller's truncated sleep ends at the last grid point before it), then a drain; "
        "non-trivial = at least 3 calls ran AND at least one pending call was cancelled AND one was rescheduled")
ASSUMPTIONS = ["the clock does not move while an iteration is in progress",
               "delays passed to callLater and reset are >= 0; all times are multiples of 1/8 s, in fine-grid runs of 2^-13 s at the finest, and stay below 2^15 s "
               "(exact in binary floating point, so 'never exceeds the time until the earliest pending call' is compared without tolerance on ReactorBase.timeout() "
               "and with 1 us tolerance on the value handed to a real poller)",
               "a poller may return before its timeout has elapsed (used to keep the simulated clock on the grid when a whole-millisecond poller is handed a truncated timeout)",
               "calls rescheduled (reset/delay) or created during an iteration may run in that iteration or the next one (weaker reading of 'first iteration')",
               "a timed call that raises has run (exactly once); its failure is the reactor's to log and excuses no other call from running in that iteration"]


class SimTimeReactor(ReactorBase):
    """ReactorBase with the clock replaced; nothing below it exists."""

    def __init__(self, timevar):
        self._timevar = timevar
        ReactorBase.__init__(self)

    def seconds(self):
        return self._timevar[0]

    def installWaker(self):
        pass

    def doIteration(self, delay):
        pass


class Scenario(TimerScenario):
    mode = "reactor"

    def __init__(self, sim, fine_unit=None):
        TimerScenario.__init__(self, sim)
        self.fine_unit = fine_unit
        self.timevar = [0.0]
        self.r = SimTimeReactor(self.timevar)
        self.burst_done = True

    def impl_call_later(self, delay, fn, cid):
        return self.r.callLater(delay, fn, cid)

    def impl_delayed_calls(self):
        return self.r.getDelayedCalls()

    def impl_seconds(self):
        return self.r.seconds()

    def check_timeout(self, where):
        sim, m = self.sim, self.m
        with sim.guard("op-raised", "timeout"):
            to = self.r.timeout()
        bound = m.sleep_bound()
        sim.event("timeout", to, "bound=%r" % (bound,))
        if self.fine_unit is not None and bound and bound * 1000 != int(bound * 1000):
            sim.probe("sleep_bound_not_whole_ms")     # evidence only: the time to the earliest call is a fraction of a millisecond off
        if bound is not None:
            sim.check("timeout-bound", to is not None and 0 <= to <= bound, where,
                      lambda: "timeout()=%r but earliest pending call is due in %r (now=%r)" % (to, bound, m.now))
        else:
            sim.check("timeout-bound", to is None or to >= 0, where, lambda: "timeout()=%r" % (to,))
        return to

    def op_iterate(self):
        sim, m, r = self.sim, self.m, self.r
        kind = sim.draw_weighted([("small", 5), ("zero", 2), ("to-timeout", 3), ("jump", 1)], "advance-kind")
        if kind == "small":
            dt = sim.draw_int(1, 16, "dt") * self.draw_unit()
        elif kind == "zero":
            dt = 0.0
        elif kind == "to-timeout":
            dt = self.check_timeout("before-sleep") or 0.0
            sim.probe("slept_exactly_timeout")
        else:
            dt = 16.0
            sim.fault("clock_jump")
        self.iterate(dt)
        if sim.draw_bool(0.7, "timeout-after"):
            self.check_timeout("after-iteration")

    def iterate(self, dt):
        sim, m, r = self.sim, self.m, self.r
        self.timevar[0] += dt
        m.move_clock(dt)
        sim.sim_time += dt
        m.begin_pass()
        sim.event("iterate", "now=%r" % m.now)
        c0 = r._cancellations          # evidence probe only, never part of the oracle
        ran0 = self.counts["ran"]
        with sim.guard("iteration-raised"):
            r.runUntilCurrent()
        self.reraise()
        self.chk(m.end_pass(), "iteration")
        if c0 > 50 and r._cancellations == 0:
            sim.probe("compaction_ran")
        if self.counts["ran"] > ran0:
            self.counts["passes_with_runs"] += 1

    def op_burst(self):
        """>50 cancellations of calls that are already in the heap."""
        sim = self.sim
        self.burst_done = True
        n = sim.draw_int(60, 72, "burst-n")
        self.max_calls += n
        sim.event("burst", n)
        made = [self.op_call_later("burst") for _ in range(n)]
        if not sim.draw_bool(0.15, "burst-staged"):
            self.check_timeout("burst")          # moves the staged calls into the heap
        k = 0
        for cid in made:
            if not sim.draw_bool(0.1, "burst-keep"):
                self.op_cancel("burst", cid)
                k += 1
        if k > 50:
            sim.probe("burst_cancelled_over_50")

    def main(self):
        sim = self.sim
        nops = sim.draw_int(4, 120 * sim.depth, "nops")
        self.inner_p = sim.draw_choice([0.0, 0.3, 0.5], "inner-ops")
        burst = sim.draw_bool(0.3, "burst")
        self.burst_done = not burst
        self.max_calls = sim.draw_choice([60, 12, 30], "max-calls")
        sim.config = {"nops": nops, "inner_p": self.inner_p, "burst": burst, "max_calls": self.max_calls, "fine_unit": self.fine_unit}
        for _ in range(nops):
            room = len(self.order) < self.max_calls
            wc, wr = self.touch_weights()
            op = sim.draw_weighted([("callLater", 6 if room else 0), ("iterate", 6), ("cancel", wc),
                                    ("reset", wr), ("delay", wr), ("timeout", 1),
                                    ("burst", 0 if self.burst_done else 1)], "op")
            if op == "iterate":
                sim.step(self.STEP_CAP * sim.depth)
                self.op_iterate()
            elif op == "timeout":
                self.check_timeout("top")
            elif op == "burst":
                self.op_burst()
            else:
                self.do_op(op, "top")
            self.reraise()
            self.check_views("top")
            sim.state((min(len(self.m.pending_ids()), 6), min(len(self.r._newTimedCalls), 3), min(self.r._cancellations, 3)))
        # drain: far beyond every scheduled time; calls no longer issue operations
        self.draining = True
        for _ in range(2):
            e = self.m.earliest()
            far = max(0.0, (max(self.m.time_of(c) for c in self.m.pending_ids()) - self.m.now)) + 1.0 if e is not None else 1.0
            self.iterate(far)
            self.check_views("drain")
        self.final_accounting()
        c = self.counts
        sim.nontrivial = c["ran"] >= 3 and c["cancel"] >= 1 and c["resched"] >= 1


class RealLoopScenario(Scenario):
    """Second configuration: the REAL select / poll / epoll / asyncio reactor (timed-call code of ReactorBase plus, for
    asyncio, AsyncioSelectorReactor.callLater/_reschedule/_onTimer/_moveCallLaterSooner and asyncio's own timer heap)
    over the fake kernel's pollers.  One "iteration" is one real pass of the main loop; the simulated sleep is exactly
    what the reactor asked its poller for (or, by tape, an early wake-up or an oversleep), so `timeout-bound` is checked
    on the value that really reaches select/poll/epoll/selector."""

    def __init__(self, sim, kind, fine_unit=None):
        TimerScenario.__init__(self, sim)
        self.fine_unit = fine_unit
        self.kind = kind
        self.timevar = [0.0]
        self.burst_done = True
        self.kern = K.Kernel(sim)
        self.kern.permute_ready = False
        self.kern.idle = self._poller_would_block
        self.r = R.make_reactor(kind, self.kern, lambda: self.timevar[0])
        self.sleep_plan = None
        self.slept = 0
        real_ruc = self.r.runUntilCurrent

        def run_until_current():
            # every real runUntilCurrent() is one "iteration" of the timer model
            m = self.m
            m.begin_pass()
            sim.event("pass", "now=%r" % m.now)
            ran0 = self.counts["ran"]
            with sim.guard("iteration-raised", kind):
                real_ruc()
            self.reraise()
            self.chk(m.end_pass(), "iteration")
            if self.counts["ran"] > ran0:
                self.counts["passes_with_runs"] += 1

        self.r.runUntilCurrent = run_until_current
        # The asyncio reactor's callLater() calls self.timeout(), which moves staged calls into the heap even while
        # runUntilCurrent() is executing; with a clock that does not move during an iteration a callLater(0) issued from
        # inside a running call then runs in the SAME iteration (known finding, not repaired, listed in known_findings.json:
        # C08:not-in-birth-iteration:in-call@asyncio).
        # In most asyncio runs calls made from inside a running call get a delay > 0 so the other clauses run full length.
        self.avoid_inner_zero = kind == "asyncio" and sim.draw_bool(0.7, "avoid_inner_zero_delay")

    def chk(self, problems, where):
        TimerScenario.chk(self, problems, "%s@%s" % (where, self.kind))

    def op_call_later(self, where, delay=None):
        if delay is None and where == "in-call" and self.avoid_inner_zero:
            delay = self.draw_delay("delay") or EIGHTH
        return TimerScenario.op_call_later(self, where, delay)

    def close(self):
        R.teardown(self.r)

    def _poller_would_block(self, timeout, scan):
        """The reactor's poller found nothing ready and wants to sleep `timeout` seconds."""
        sim, m = self.sim, self.m
        bound = m.sleep_bound()
        sim.event("sleep-request", timeout, "bound=%r" % (bound,))
        sim.probe("real_poller_sleep")
        if bound is not None:
            # asyncio computes when - time() on floats that are exact here; allow its 1 ns clock resolution
            sim.check("timeout-bound", timeout is not None and -1e-6 <= timeout <= bound + 1e-6, "real-sleep:" + self.kind,
                      lambda: "poller asked to sleep %r s but the earliest pending call is due in %r s (now=%r)" % (timeout, bound, m.now))
        plan = self.sleep_plan
        self.sleep_plan = None
        if timeout is None:
            dt = 0.0 if plan is None else plan[1]
        elif plan is None or plan[0] == "exact":
            dt = timeout
            sim.probe("slept_exactly_timeout")
        elif plan[0] == "early":
            dt = min(timeout, plan[1])
            sim.fault("early_wakeup") if dt < timeout else None
        else:
            dt = timeout + plan[1]
            sim.fault("oversleep")
        # float timeouts are differences of multiples of 1/8, hence exact; pollreactor rounds to whole ms, also exact here.
        # On the fine grid a poller that takes whole milliseconds is handed a truncated value, which is not on the grid:
        # the simulated sleep then ends at the last grid point before it (a poller may always return early).
        u = self.fine_unit
        if u is not None and dt / u != int(dt / u):
            dt = int(dt / u) * u
            sim.probe("whole_ms_sleep_cut_to_grid")
        self.timevar[0] += dt
        m.move_clock(dt)
        sim.sim_time += dt
        self.slept += 1

    def _one_pass(self):
        r = self.r
        if self.kind == "asyncio":
            with self.sim.guard("iteration-raised", self.kind):
                r._verif_loop._run_once()
        else:
            r.runUntilCurrent()
            t2 = r.timeout()
            with self.sim.guard("iteration-raised", self.kind):
                r.doIteration(t2)

    def op_iterate(self):
        sim = self.sim
        kind = sim.draw_weighted([("exact", 5), ("early", 3), ("oversleep", 1), ("far", 1)], "sleep-kind")
        if self.fine_unit is not None and sim.draw_bool(0.3, "busy-before-pass"):
            # time passes outside the poller too (handlers): with less than a millisecond to go a whole-ms poller is asked
            # for a zero timeout and never blocks, so only this moves the clock then
            dt = sim.draw_int(1, 4, "busy") * self.fine_unit
            self.timevar[0] += dt
            self.m.move_clock(dt)
            sim.sim_time += dt
            sim.probe("clock_moved_between_passes_without_sleep")
        if kind == "early":
            self.sleep_plan = ("early", sim.draw_int(0, 16, "dt") * self.draw_unit())
        elif kind == "oversleep":
            self.sleep_plan = ("over", sim.draw_int(1, 8, "dt") * self.draw_unit())
        elif kind == "far":
            self.sleep_plan = ("over", 16.0)
            sim.fault("clock_jump")
        else:
            self.sleep_plan = ("exact", 0.0)
        self._one_pass()
        self.reraise()
        if sim.draw_bool(0.5, "timeout-after"):
            self.check_timeout("after-iteration")

    def iterate(self, dt):
        # used by the drain: move the clock, then run main-loop passes until nothing is due
        self.timevar[0] += dt
        self.m.move_clock(dt)
        self.sim.sim_time += dt
        for _ in range(6):
            self.sleep_plan = ("early", 0.0)
            self._one_pass()
            self.reraise()


FINE_UNITS = (2.0 ** -4, 2.0 ** -6, 2.0 ** -10, 2.0 ** -13)   # 62.5 ms, 15.625 ms, ~0.98 ms, ~0.12 ms: none a whole number of ms


def run(sim):
    # third family (index 2, so tapes of the first two keep their meaning): either of the two configurations on a finer time grid
    family = sim.draw_weighted([("base", 6), ("real", 4), ("fine", 4)], "family")
    fine_unit = None
    if family == "fine":
        fine_unit = sim.draw_choice(FINE_UNITS, "fine-unit")
        family = sim.draw_weighted([("base", 6), ("real", 4)], "fine-family")
    if family == "base":
        Scenario(sim, fine_unit).main()
        return
    kind = sim.draw_choice(list(R.KINDS), "reactor")
    sc = RealLoopScenario(sim, kind, fine_unit)
    try:
        sc.main()
        sim.config["family"] = "real-main-loop:" + kind
    finally:
        sc.close()



MUTANTS = [
    "base.py runUntilCurrent: compaction without heapify  -- caught (needs the burst knob): earliest-first / timeout-bound",
    "base.py _moveCallLaterSooner: 'while pos != 0' -> 'while pos > 1' (stops one level early)  -- caught: timeout-bound / runs-in-first-iteration / earliest-first",
    "base.py timeout: _pendingTimedCalls[0] -> [-1]  -- caught: timeout-bound",
    "base.py getDelayedCalls: staged calls left out  -- caught: getDelayedCalls-exact",
    "base.py runUntilCurrent: time <= now -> time < now  -- caught: runs-in-first-iteration",
    "base.py DelayedCall.reset: earlier time without resetter()  -- caught: timeout-bound / runs-in-first-iteration / earliest-first",
    "base.py runUntilCurrent: 'if call.delayed_time > 0.0' -> 'if False' (delay ignored)  -- caught: not-before-time / earliest-first",
    "base.py callLater: push straight into the heap instead of staging  -- caught: not-in-birth-iteration",
    "base.py runUntilCurrent: compaction drops one live call ([...][1:])  -- caught: getDelayedCalls-exact / timeout-bound",
    "base.py DelayedCall.delay: negative delay without resetter()  -- caught: earliest-first / timeout-bound",
    "base.py DelayedCall.reset: later time applied in place (time = newTime) without re-heapifying  -- caught: earliest-first / runs-in-first-iteration / timeout-bound",
    "base.py runUntilCurrent: failure handler entered once around the whole due-call loop instead of once per call (a failing call ends the batch)  -- caught (needs failing calls): runs-in-first-iteration",
    "base.py runUntilCurrent: 'with logHandler:' -> 'if True:' (a failing call's exception leaves runUntilCurrent)  -- caught (needs failing calls): iteration-raised",
    "base.py timeout: result rounded up to whole milliseconds (ceil(delay * 1000) / 1000)  -- caught (needs the fine time grid): timeout-bound (after-iteration / real-sleep:*)",
    "base.py timeout: result rounded to 3 decimals (round(..., 3))  -- caught (needs the fine time grid): timeout-bound",
    "pollreactor.py doPoll: milliseconds rounded up instead of truncated (int(timeout * 1000) + 1 when inexact)  -- caught (needs the fine time grid, poll kind): timeout-bound real-sleep:poll",
    "base.py _insertNewDelayedCalls: cancelled staged calls pushed into the heap anyway  -- NOT caught: behaviourally equivalent (popped cancelled calls are skipped)",
    "base.py _insertNewDelayedCalls: _cancellations not decremented for cancelled staged calls  -- NOT caught: behaviourally equivalent (only makes compaction run more often)",
]


freeze_heap()
