"""C14 — transport write buffering delivers bytes exactly once and honours producers.

Engine E3-style scripted descriptor: a real abstract.FileDescriptor subclass whose
writeSomeData *is* the simulator (tape-chosen partial acceptance including zero,
or a connection-lost error), registered with a tiny fake IReactorFDSet that
records startWriting/stopWriting.  The scheduler calls doWrite only while the
descriptor is registered for writing and applies the reactor's real
_disconnectSelectable to a truthy return value.

Oracle (independent reference model, checked at every OS write / producer call /
after every operation): a running-counter byte pattern makes every written byte
unique, so "exactly the bytes written while connected, in order, each once" is a
positional comparison; close only after the flush and never under a pull
producer; streaming producer paused when the true backlog exceeds bufferSize,
resumed when (and only when) it drained; a pull producer asked when (and only
when) nothing is buffered.  Refused calls (a second registerProducer while a
producer is registered) are part of the histories: they must leave the
registered producer's service untouched.  So do write calls that fail part-way (a non-bytes
element after good ones, an iterable whose source raises): whether the good chunks before
the failure count as written is left open until the OS is offered the next bytes, but either
way the descriptor must be consistent with it.
"""
from twisted.internet import abstract, error, main
from twisted.internet.posixbase import _DisconnectSelectableMixin

ID = "C14"
ENGINE = "net"
LEVEL = "exploration"
TECHNIQUE = ("deterministic simulation: seeded operation histories against a real FileDescriptor whose OS write "
             "accepts a tape-chosen number of bytes (incl. zero / connection lost); reference model of the byte stream and producer protocol")
QUICK_RUNS = 46000
TWIN_P = 0.08   # this share of the runs drives two independent instances of the scenario one after the other (detsim.runner._run_scenario)
USES_DEPTH = True   # thorough tier: history length bound scales with sim.depth (1..3) beyond the quick tier\'s run indices
BATCH = 250
COMPONENTS = {
    "real": ["twisted.internet.abstract.FileDescriptor.write/writeSequence/doWrite/loseConnection/loseWriteConnection",
             "twisted.internet.abstract._ConsumerMixin.registerProducer/unregisterProducer",
             "twisted.internet.abstract.FileDescriptor._maybePauseProducer/_isSendBufferFull/connectionLost",
             "twisted.internet.posixbase._DisconnectSelectableMixin._disconnectSelectable"],
    "stub": ["writeSomeData (the OS: tape-chosen accepted count or ConnectionLost)",
             "IReactorFDSet (records add/removeWriter; scheduler calls doWrite only while registered)",
             "scripted push and pull producers (and second producers whose registration is refused)",
             "the application's chunk sources (sequences with a non-bytes element, generators that raise after some chunks)",
             "the application's list objects (kept, edited, passed again, passed to both descriptors)"],
}
RULE = ("run = 5..60 tape-chosen operations (write 0 B..1 MiB, writeSequence of list/tuple/one-shot iterator, doWrite, register/unregister "
        "streaming or pull producer, producer-driven writes, loseConnection, loseWriteConnection; in 1 of 2 descriptors also registerProducer "
        "of a second producer - of the same or of the other kind - while one is still registered, which is refused and after which the "
        "application carries on with the producer that is registered; in 1 of 2 descriptors also write calls that are refused part-way - "
        "writeSequence of a list/tuple/iterator with a non-bytes element after 0..3 good chunks, writeSequence of a generator whose source raises "
        "after 0..3 chunks, write of a non-bytes object - after which the application carries on) with per-descriptor bufferSize / SEND_LIMIT / "
        "acceptance policy / error rate, then a drain; in 3 of 4 runs the application treats the lists it passed to writeSequence as its own "
        "(edits them right after the call, keeps one and passes it again as is / refilled / extended); in 1 of 5 runs the operations are spread "
        "over two live descriptors which are also handed the same list objects (broadcast right after the first call, or later); "
        "non-trivial = at least one short (partial or zero) OS write happened AND "
        "(a producer was paused/resumed, or a close/half-close completed, or a write error fired) on one descriptor")
ASSUMPTIONS = [
    "writes issued between loseWriteConnection() and the completed half-close get no verdict (may or may not be sent, but never out of order)",
    "pause is checked at write time (the first write that leaves the true backlog > bufferSize), not at producer registration",
    "the close-under-pull-producer clause gives no verdict once the write side has been shut down",
    "SEND_LIMIT >= 1",
    "what writeSequence(list) writes is what the application put into that list before the call (the model keeps its own record of the "
    "content of the application's lists; nothing but the application is supposed to change them), whatever happens to the list afterwards",
    "the two live descriptors of a run are independent connections: bytes written to one never count as written to the other",
    "registerProducer() while another producer is registered raises RuntimeError (IConsumer.registerProducer) and registers nothing: "
    "the model keeps serving the producer that was registered, with its own kind (streaming or not); calls made to the refused producer get no verdict",
    "a write call that raises part-way (TypeError for a non-bytes element, or the exception of the iterable's own source) has written "
    "either nothing or exactly the good chunks that preceded the failure (writeSequence is documented as 'roughly equivalent to "
    "for chunk in iovec: write(chunk)'); never the chunks after the failing point.  Which of the two is decided by what the OS is offered "
    "next.  If the chunks were accepted they are written bytes like any others: from the moment the call returned the descriptor had to be "
    "registered for writing until they were handed over, and a streaming producer had to be paused if they made the backlog exceed bufferSize.  "
    "While that is undecided and nothing observed contradicts the 'accepted' reading, the clauses with the premise 'nothing is buffered' "
    "(resume-when-drained, pull-asked-when-drained) give no verdict; refused calls are not issued between loseWriteConnection() and the half-close",
    "'resumed once the buffer drains' holds for every doWrite that empties the buffer, also after loseConnection(): the connection is not "
    "closed over the head of a paused streaming producer (loseConnection: 'the connection won't be closed until the producer is finished')",
    "honouring a non-streaming producer includes asking it (IPullProducer.resumeProducing: 'produce data for the consumer a single time'; "
    "IConsumer.registerProducer: 'resumeProducing will be called each time data is required'): at registration and whenever doWrite "
    "leaves nothing buffered; our pull producer writes at least one byte per call or unregisters, so a connected descriptor with a pull "
    "producer, nothing buffered and not registered for writing can never make progress (no verdict once loseWriteConnection was called)",
]
LEVEL_NOTE = ("second configuration of the design (same generator against tcp.Connection on a kernel model) is not part of this module; "
              "the descriptor here is the abstract base class every stream transport inherits its buffering from")

# One-shot iterators as writeSequence arguments (ITransport.writeSequence takes an Iterable[bytes]); False takes them out
# of the generator (the genuine defect they exposed - data of a generator silently dropped - is REPAIRED in /repo 87f6a99; False is
# only for dev-time comparison).
ITERATOR_IOVEC = True
# share of the descriptors on which the application also makes calls that are REFUSED part-way: writeSequence() of a
# sequence holding a non-bytes element after good ones (TypeError), writeSequence() of an iterable whose source raises
# after some chunks, write() of a non-bytes object; the application catches the exception and carries on
REFUSED_WRITES_P = 0.5
# share of the runs with a second live descriptor (own knobs / OS / model) whose operations interleave with the first one's
TWO_DESCRIPTORS_P = 0.2

_ROT = bytes(range(256)) * 2
# 1.6 MiB; byte k = (k + 37*(k>>8) + 91*(k>>16)) mod 256: neighbouring bytes always differ and a
# stream with any span dropped, duplicated or moved differs from the original within 256 bytes
PATTERN = b"".join(_ROT[(37 * B + 91 * (B >> 8)) & 255:][:256] for B in range(6400))


class FakeFDSet(_DisconnectSelectableMixin):
    """IReactorFDSet stand-in for one descriptor."""

    def __init__(self):
        self.writing = False
        self.reading = False
        self.log = []

    def addWriter(self, w):
        if not self.writing:
            self.log.append("startWriting")
        self.writing = True

    def removeWriter(self, w):
        if self.writing:
            self.log.append("stopWriting")
        self.writing = False

    def addReader(self, r):
        self.reading = True

    def removeReader(self, r):
        self.reading = False

    def getWriters(self):
        return []

    def getReaders(self):
        return []


class SimFD(abstract.FileDescriptor):
    def __init__(self, reactor, h):
        abstract.FileDescriptor.__init__(self, reactor)
        self.h = h
        self.connected = 1

    def fileno(self):
        return 7

    def writeSomeData(self, data):
        return self.h.os_write(data)

    def _closeWriteConnection(self):
        self.h.on_half_closed()

    def connectionLost(self, reason):
        abstract.FileDescriptor.connectionLost(self, reason)
        self.h.on_lost(reason)


class Producer:
    def __init__(self, h, streaming, pid):
        self.h, self.streaming, self.pid = h, streaming, pid
        self.paused = False     # last call from the consumer was pauseProducing
        self.stops = 0
        self.pauses = 0
        self.resumes = 0
        self.current = True     # registered with the descriptor (model's view)

    def resumeProducing(self):
        self.h.on_resume(self)

    def pauseProducing(self):
        self.h.on_pause(self)

    def stopProducing(self):
        self.stops += 1
        self.h.ev("producer", self.pid, "stop")


class SourceFailed(Exception):
    """raised by the application's own chunk source while writeSequence() is traversing it"""


class Harness:
    """Scenario driver + reference model."""

    def __init__(self, sim, app, tag="", g0=0):
        self.sim = sim
        self.app = app                   # the application's state shared by all descriptors of the run (its kept lists)
        self.tag = tag                   # "" = the first descriptor, "peer" = the second live descriptor of the run
        self.peer = None                 # the other live descriptor's harness, if the run has two
        self.g = g0                      # next unused PATTERN position
        self.issued = 0                  # bytes passed to write()/writeSequence() on this descriptor so far, whatever became of them
        # ---- reference model
        self.connected = True
        self.lose_called = False
        self.lw_called = False           # loseWriteConnection requested
        self.halfclosed = False
        self.expected = bytearray()      # bytes that MUST reach the OS, in order
        self.optional = bytearray()      # written in the no-verdict window; may follow, in order
        self.iter_spans = []             # (start, end) spans of `expected` that came from a one-shot iterator
        self.maybes = []                 # good data that preceded the failure of a refused call, fate still open (see do_write_refused)
        self.acc = 0                     # bytes accepted by the OS so far
        self.lose_mark = None            # len(expected) when loseConnection was called
        self.producer = None
        # ---- bookkeeping
        self.in_register = False
        self.in_dowrite = False
        self.error_fired = False
        self.draining = False
        self.flush = False
        self.short_writes = 0
        self.special = 0
        self.npid = 0
        self.lost_reasons = []
        self.after_lost = 0

    def ev(self, *fields):
        if self.tag:
            self.sim.event(self.tag, *fields)
        else:
            self.sim.event(*fields)

    # ------------------------------------------------------------ data
    def take(self, n):
        n = max(0, min(n, len(PATTERN) - self.g))
        d = PATTERN[self.g:self.g + n]
        self.g += n
        return d

    def size(self):
        sim = self.sim
        cls = sim.draw_weighted([("tiny", 8), ("zero", 1), ("small", 5), ("medium", 2), ("big", 1 if self.big_ok else 0),
                                 ("huge", 1 if self.huge_ok else 0)], "sizeclass")
        if cls == "zero":
            return 0
        if cls == "tiny":
            return sim.draw_int(1, 8, "n")
        if cls == "small":
            return sim.draw_int(1, 64, "n")
        if cls == "medium":
            return sim.draw_int(65, 2048, "n")
        if cls == "big":
            return sim.draw_int(2049, 70000, "n")
        self.huge_ok = False
        return sim.draw_choice([1 << 20, (1 << 20) - 1, 300000], "n")

    @property
    def backlog(self):
        return len(self.expected) - min(self.acc, len(self.expected))

    # ------------------------------------------------------------ model: a write was issued
    def note_write(self, parts, lost_if_iter=False):
        data = b"".join(parts)
        if not data:
            return
        self.issued += len(data)
        if not self.connected or self.halfclosed:
            self.sim.probe("write_dropped_not_connected")
            return
        if self.lw_called:
            if lost_if_iter:   # `expected` is frozen from here on, so combined-stream coordinates are stable
                a = len(self.expected) + len(self.optional)
                self.iter_spans.append((a, a + len(data)))
            self.optional += data
            self.sim.probe("write_in_halfclose_window")
            return
        if lost_if_iter:
            self.iter_spans.append((len(self.expected), len(self.expected) + len(data)))
        self.expected += data

    def after_write(self, who, nbytes):
        """pause clause, evaluated right after a non-empty write/writeSequence call returned."""
        p = self.producer
        if (nbytes and p is not None and p.streaming and self.connected and not self.lw_called
                and self.backlog > self.fd.bufferSize):
            bs = self.fd.bufferSize
            self.backlog_clause("pause-when-full", lambda bl: p.paused or bl <= bs, who,
                                "backlog %d > bufferSize %d after a write but the streaming producer is not paused (pauses=%d resumes=%d)"
                                % (self.backlog, bs, p.pauses, p.resumes))

    def do_write(self, who):
        sim = self.sim
        n = self.size()
        if sim.draw_bool(0.25, "seq"):
            k = sim.draw_int(1, 4, "nparts")
            cuts = sorted(sim.draw_int(0, n, "cut") for _ in range(k - 1))
            g0 = self.g
            data = self.take(n)
            parts = [data[a:b] for a, b in zip([0] + cuts, cuts + [len(data)])]
            kinds = ["list", "tuple"] + (["iter"] if (ITERATOR_IOVEC and self.iter_ok) else [])
            kind = sim.draw_choice(kinds, "iovec")
            if kind == "list" and self.app.lists_ok:
                self.g = g0
                return self.do_write_list(who, n, cuts)
            self.ev(who, "writeSequence", kind, *[len(p) for p in parts])
            self.note_write(parts, lost_if_iter=(kind == "iter"))
            if kind == "iter":
                sim.probe("writeSequence_iterator")
            arg = parts if kind == "list" else tuple(parts) if kind == "tuple" else (p for p in parts)
            with sim.guard("write-raised", "writeSequence"):
                self.fd.writeSequence(arg)
        else:
            data = self.take(n)
            self.ev(who, "write", len(data))
            self.note_write([data])
            with sim.guard("write-raised", "write"):
                self.fd.write(data)
        self.after_write(who, len(data))

    # ------------------------------------------------------------ calls that are refused part-way
    # write(<not bytes>) / writeSequence(<sequence with a non-bytes element>) raise TypeError; writeSequence(<iterable whose
    # source raises>) raises what the source raised.  The application catches it and carries on.  The statement does not
    # say what became of the good chunks that PRECEDED the failure: nothing of the call was written (all-or-nothing), or
    # those chunks were (the documented `for chunk in iovec: write(chunk)` reading).  The model leaves that open until the
    # OS is offered the next bytes; the chunks after the failing point are never written under either reading.  If the
    # chunks turn out to have been accepted they are written bytes like any others: the descriptor had to be registered
    # for writing when the call returned, and a streaming producer had to be paused if they filled the buffer.
    def do_write_refused(self, who):
        sim = self.sim
        it = 1 if (ITERATOR_IOVEC and self.iter_ok) else 0
        kind = sim.draw_weighted([("list", 3), ("tuple", 2), ("source_raises", 3 * it), ("iter", it), ("write", 1)], "refused_kind")
        good, after = [], []
        if kind != "write":
            k = sim.draw_int(0, 3, "good_before")
            if k:
                n = self.size()
                cuts = sorted(sim.draw_int(0, n, "cut") for _ in range(k - 1))
                data = self.take(n)
                good = [data[a:b] for a, b in zip([0] + cuts, cuts + [len(data)])]
            after = [self.take(sim.draw_int(0, 8, "n")) for _ in range(sim.draw_int(0, 2, "good_after"))]
        bad = sim.draw_choice(["text", 7, None], "bad_element")
        prefix = b"".join(good)
        self.ev(who, "refused", kind, len(good), len(prefix), len(after))
        sim.fault("write_refused")
        if kind == "source_raises":
            sim.probe("refused_source_raised_midway")

            def source():
                yield from good
                raise SourceFailed()
            arg = source()
        elif kind == "write":
            arg = bad
        else:
            seq = good + [bad] + after
            arg = seq if kind == "list" else tuple(seq) if kind == "tuple" else (c for c in seq)
        if prefix:
            sim.probe("refused_after_good_chunks")
            if not self.reactor.writing and self.connected and not self.halfclosed:
                sim.probe("refused_after_good_chunks_on_idle_descriptor")
        with sim.guard("write-raised", "refused-call"):
            try:
                if kind == "write":
                    self.fd.write(arg)
                else:
                    self.fd.writeSequence(arg)
            except (TypeError, SourceFailed):
                pass
        if prefix and self.connected and not self.halfclosed:
            p = self.producer
            self.maybes.append({
                "pos": len(self.expected), "data": prefix, "who": who, "before_lose": not self.lose_called,
                "idle": not self.reactor.writing,
                "pause_missing": (p is not None and p.streaming and not p.paused
                                  and self.backlog + len(prefix) > self.fd.bufferSize),
                "backlog": self.backlog, "bufferSize": self.fd.bufferSize})

    @property
    def undecided(self):
        """some refused call's good chunks may be sitting in the buffer without the model counting them, and nothing
        observed so far is wrong under that reading: clauses whose premise is "nothing is buffered" give no verdict"""
        return any(not (mb["idle"] or mb["pause_missing"]) for mb in self.maybes)

    def resolve_maybes(self, data, want):
        """the OS is offered `data` where the model (refused calls wrote nothing) predicts `want`: try the other reading
        for the still open refused calls, earliest first; returns the prediction that explains the most"""
        def first_diff(d, w):
            m = min(len(d), len(w))
            i = 0
            while i < m and d[i] == w[i]:
                i += 1
            return None if (i == len(d) and len(d) <= len(w)) else i
        i = first_diff(data, want)
        progress = True
        while i is not None and progress:
            progress = False
            for idx, mb in enumerate(self.maybes):
                if not (self.acc <= mb["pos"] <= self.acc + i):
                    continue
                pos, chunk = mb["pos"], mb["data"]
                trial = self.expected[:pos] + chunk + self.expected[pos:] + self.optional
                w2 = bytes(trial[self.acc:self.acc + len(data)])
                j = first_diff(data, w2)
                if j is None or j > i:
                    self.commit_maybe(idx)
                    want, i, progress = w2, j, True
                    break
        return want

    def commit_maybe(self, idx):
        """the good chunks of a refused call are being handed to the OS: the call had accepted them"""
        mb = self.maybes.pop(idx)
        pos, chunk = mb["pos"], mb["data"]
        self.expected[pos:pos] = chunk
        for later in self.maybes[idx:]:
            later["pos"] += len(chunk)
        self.iter_spans = [(a + len(chunk), b + len(chunk)) if a >= pos else (a, b) for a, b in self.iter_spans]
        if mb["before_lose"] and self.lose_mark is not None:
            self.lose_mark += len(chunk)
        self.ev("model", "refused-call-had-accepted", len(chunk))
        if mb["idle"]:
            self.sim.fail("registered-while-pending", "accepted-by-refused-call",
                          "%d bytes that preceded the failure of a refused write call were accepted (they are being handed to the OS "
                          "now) but in between the descriptor was connected and not registered for writing" % len(chunk))
        if mb["pause_missing"]:
            self.sim.fail("pause-when-full", "accepted-by-refused-call",
                          "%d bytes that preceded the failure of a refused write call were accepted on top of a backlog of %d "
                          "(bufferSize %d) but the streaming producer was not paused" % (len(chunk), mb["backlog"], mb["bufferSize"]))

    # ------------------------------------------------------------ writeSequence(list): the list stays the caller's
    # The application owns the list object it passes: it may keep it, edit it, refill it and pass it again, to this
    # descriptor or to another one.  What a writeSequence() call writes is what the list held when the call was made;
    # the reference model keeps its own record (`content`) of what the application put into each of its lists.
    def fresh_parts(self, n, cuts):
        data = self.take(n)
        cuts = [min(c, len(data)) for c in cuts]
        return [data[a:b] for a, b in zip([0] + cuts, cuts + [len(data)])]

    def write_list(self, who, kept):
        """one writeSequence(<the application's list>) call on this descriptor + its model"""
        lst, content = kept
        nbytes = sum(len(c) for c in content)
        self.ev(who, "writeSequence", "list", *[len(c) for c in content])
        self.note_write(list(content))
        with self.sim.guard("write-raised", "writeSequence"):
            self.fd.writeSequence(lst)
        self.after_write(who, nbytes)

    def edit_list(self, who, kept, how):
        """the application edits its own list (after some writeSequence(list) call returned)"""
        lst, content = kept
        self.ev(who, "list", how)
        if how == "clear":
            lst.clear()
            content.clear()
        elif how == "del":
            del lst[:]
            del content[:]
        elif how == "append":
            extra = self.take(self.sim.draw_int(1, 8, "extra"))
            lst.append(extra)
            content.append(extra)
        elif how == "insert":
            extra = self.take(self.sim.draw_int(1, 8, "extra"))
            lst.insert(0, extra)
            content.insert(0, extra)
        elif how == "replace":
            if lst:
                extra = self.take(self.sim.draw_int(1, 8, "extra"))
                lst[-1] = extra
                content[-1] = extra
        elif how == "pop":
            if lst:
                lst.pop()
                content.pop()
        elif how == "reverse":
            lst.reverse()
            content.reverse()

    def do_write_list(self, who, n, cuts):
        sim = self.sim
        app = self.app
        kept = app.kept
        source = sim.draw_weighted([("fresh", 6), ("refill", 2 if kept else 0), ("same", 2 if kept else 0),
                                    ("extend", 1 if kept else 0)], "list_source")
        if source == "fresh":
            parts = self.fresh_parts(n, cuts)
            kept = (list(parts), list(parts))
        else:
            # a list object that was already passed to writeSequence() earlier in the run (here or on the other descriptor)
            sim.probe("list_object_written_again")
            if kept[2] is not self:
                sim.probe("list_object_written_to_both_descriptors")
            lst, content = kept[0], kept[1]
            if source == "refill":
                parts = self.fresh_parts(n, cuts)
                how = sim.draw_choice(["slice", "clear_extend", "del_iadd"], "refill_how")
                if how == "slice":
                    lst[:] = parts
                elif how == "clear_extend":
                    lst.clear()
                    lst.extend(parts)
                else:
                    del lst[:]
                    lst += parts
                content[:] = parts
            elif source == "extend":
                parts = self.fresh_parts(n, cuts)
                lst.extend(parts)
                content.extend(parts)
            kept = (lst, content)
        self.write_list(who, kept)
        # afterwards: hand the very same list to the other live descriptor too (`for t in transports: t.writeSequence(chunks)`),
        # and/or edit it; all of it before any doWrite
        for _ in range(3):
            then = sim.draw_weighted([("nothing", 6), ("peer", 4 if self.peer is not None else 0), ("clear", 2), ("append", 2), ("del", 1),
                                      ("insert", 1), ("replace", 1), ("pop", 1), ("reverse", 1)], "list_then")
            if then == "nothing":
                break
            if then == "peer":
                sim.probe("list_object_written_to_both_descriptors")
                self.peer.write_list(who, kept)
            else:
                sim.probe("list_edited_after_writeSequence")
                self.edit_list(who, kept, then)
        if sim.draw_bool(0.5, "keep_list"):
            app.kept = (kept[0], kept[1], self)
        elif app.kept is not None and app.kept[0] is kept[0]:
            app.kept = None

    # ------------------------------------------------------------ the OS
    def os_write(self, data):
        sim = self.sim
        data = bytes(data)
        n = len(data)
        total_len = len(self.expected) + len(self.optional)
        # what must come next
        if self.acc + n <= len(self.expected):
            want = bytes(self.expected[self.acc:self.acc + n])
        else:
            want = bytes((self.expected + self.optional)[self.acc:self.acc + n])
        if data != want and self.maybes:
            want = self.resolve_maybes(data, want)
            total_len = len(self.expected) + len(self.optional)
        if data != want:
            self.classify_mismatch(data, want, total_len)
        if self.maybes:
            # the offer shows what sits in the buffer: where it runs past the place of a refused call's good chunks and
            # they are not there, that call had written nothing
            keep = []
            for mb in self.maybes:
                off = mb["pos"] - self.acc
                if 0 <= off < n:
                    alt = (mb["data"] + bytes(self.expected[mb["pos"]:mb["pos"] + n - off]))[:n - off]
                    if data[off:] != alt:
                        continue
                keep.append(mb)
            self.maybes = keep
        # an iterator span whose first byte was just offered correctly is confirmed
        self.iter_spans = [(a, b) for (a, b) in self.iter_spans if not (a < self.acc + n)]
        if not n:
            self.ev("os", "offer0")
            sim.probe("empty_os_write")
        if self.flush:
            k = n
        else:
            kind = sim.draw_weighted(self.accept_weights, "accept")
            if kind == "err":
                self.error_fired = True
                sim.fault("write_error")
                self.ev("os", "offer", n, "ERROR")
                return main.CONNECTION_LOST
            if kind == "all" or n == 0:
                k = n
            elif kind == "zero":
                k = 0
            elif kind == "one":
                k = 1 if n <= 4096 else sim.draw_int(n // 8, n, "k")
            elif kind == "limit":
                k = min(n, self.os_limit)
                if n > 64 * self.os_limit:
                    k = sim.draw_int(n // 8, n, "k")
            else:
                k = sim.draw_int(0, n, "k") if n <= 4096 else sim.draw_int(n // 16, n, "k")
        if k < n:
            self.short_writes += 1
            sim.fault("short_write")
            if k == 0:
                sim.fault("zero_write")
        self.ev("os", "offer", n, "accept", k)
        self.acc += k
        if self.maybes:
            # bytes past the point where a refused call's chunks would sit were handed over: that call had written nothing
            self.maybes = [mb for mb in self.maybes if mb["pos"] >= self.acc]
        return k

    def classify_mismatch(self, data, want, total_len):
        sim = self.sim
        # first differing position in stream coordinates
        i = 0
        m = min(len(data), len(want))
        while i < m and data[i] == want[i]:
            i += 1
        pos = self.acc + i
        for a, b in self.iter_spans:
            if a <= pos:
                sim.fail("writeSequence-iterator-dropped", "one-shot-iterable",
                         "bytes passed to writeSequence() as a one-shot iterator never reach the OS: stream diverges at position %d, "
                         "unconfirmed iterator span %d..%d" % (pos, a, b))
        if len(data) > len(want):
            sim.fail("offered-in-order", "more-than-written",
                     "OS offered %d bytes at stream position %d but only %d were written and not yet handed over" % (len(data), self.acc, total_len - self.acc))
        region = "before-loseWriteConnection" if pos < len(self.expected) else "halfclose-window"
        sim.fail("offered-in-order", region,
                 "OS offered wrong bytes at stream position %d (offer of %d at %d): got %r.. expected %r.."
                 % (pos, len(data), self.acc, data[i:i + 8], want[i:i + 8]))

    @property
    def iter_pending(self):
        """bytes of unconfirmed one-shot-iterator spans not yet handed over"""
        return sum(b - max(a, self.acc) for a, b in self.iter_spans if b > self.acc)

    def backlog_clause(self, clause, pred, witness, detail):
        """pred(backlog) must hold.  If it only holds on the hypothesis that the pending
        one-shot-iterator bytes were dropped, the failure is attributed to that defect."""
        if pred(self.backlog):
            return
        ip = self.iter_pending
        if ip and pred(self.backlog - ip):
            self.sim.fail("writeSequence-iterator-dropped", "one-shot-iterable",
                          "bytes passed to writeSequence() as a one-shot iterator never reach the OS (%s only explained by %d dropped bytes)" % (clause, ip))
        self.sim.fail(clause, witness, detail() if callable(detail) else detail)

    def missing(self, clause, cond, witness, detail):
        """A clause about bytes that should have been handed over by now; if the first
        missing byte came from a one-shot iterator the failure gets its own signature."""
        if cond:
            return
        for a, b in self.iter_spans:
            if a <= self.acc < b:
                self.sim.fail("writeSequence-iterator-dropped", "one-shot-iterable",
                              "bytes passed to writeSequence() as a one-shot iterator never reach the OS (stream span %d..%d; %s)" % (a, b, clause))
        self.sim.fail(clause, witness, detail)

    # ------------------------------------------------------------ callbacks from the descriptor
    def on_half_closed(self):
        sim = self.sim
        self.ev("fd", "half-closed")
        sim.probe("half_close_completed")
        self.special += 1
        self.missing("half-close-after-flush", self.acc >= len(self.expected), "halfclose",
                  "write side shut down with %d of %d bytes written before loseWriteConnection not handed over" % (len(self.expected) - self.acc, len(self.expected)))
        sim.check("half-close-requested", self.lw_called, "halfclose", "write side shut down without loseWriteConnection")
        self.halfclosed = True

    def on_lost(self, reason):
        sim = self.sim
        self.lost_reasons.append(reason)
        clean = reason.check(error.ConnectionDone) is not None and not self.error_fired
        self.ev("fd", "connectionLost", reason.type.__name__)
        sim.check("lost-once", len(self.lost_reasons) == 1, "connectionLost", "connectionLost delivered %d times" % len(self.lost_reasons))
        p = self.producer
        if clean:
            self.special += 1
            sim.probe("clean_close")
            sim.check("close-requested", self.lose_called, "close", "clean close without loseConnection")
            mark = self.lose_mark if self.lose_mark is not None else 0
            self.missing("close-after-flush", self.acc >= mark, "written-before-loseConnection",
                      "closed with %d bytes written before loseConnection not handed over" % (mark - self.acc))
            self.missing("close-after-flush", self.acc >= len(self.expected), "written-after-loseConnection-while-connected",
                      "closed with %d bytes (written after loseConnection, while still connected) not handed over" % (len(self.expected) - self.acc))
            if p is not None and not p.streaming and not self.halfclosed:
                sim.fail("closed-under-pull-producer", "close", "connection closed while a non-streaming producer was registered")
            if p is not None and p.streaming and p.paused and not self.lw_called and self.backlog == 0:
                sim.fail("resume-when-drained", "streaming-closing",
                         "buffer fully drained after loseConnection but the paused streaming producer was not resumed: "
                         "the connection was closed (and the producer stopped) instead (pauses=%d resumes=%d)" % (p.pauses, p.resumes))
        else:
            sim.probe("error_close")
        if p is not None:
            sim.check("stop-once-on-loss", p.stops == 1, "connectionLost", "stopProducing called %d times on the registered producer" % p.stops)
            p.current = False
            self.producer = None
        self.connected = False
        sim.check("unregistered-on-loss", not self.reactor.writing, "connectionLost", "descriptor still registered for writing after connectionLost")

    def on_resume(self, p):
        sim = self.sim
        p.resumes += 1
        self.ev("producer", p.pid, "resume", "streaming" if p.streaming else "pull")
        if not p.current:
            sim.probe("call_on_former_producer")
            return
        if p.streaming:
            if not self.lw_called:
                bs = self.fd.bufferSize
                self.backlog_clause("no-resume-while-full", lambda bl: bl <= bs, "streaming",
                                    "resumeProducing with backlog %d > bufferSize %d" % (self.backlog, bs))
            if p.paused:
                sim.probe("streaming_resumed_after_pause")
                self.special += 1
            p.paused = False
            if self.push_writes_on_resume and not self.draining and self.sim.draw_bool(0.5, "write_on_resume"):
                self.do_write("push%d" % p.pid)
                if self.producer is p and self.sim.draw_bool(0.15, "push_finish_in_resume"):
                    # ... and finishes: unregisters (and perhaps closes) inside that same resumeProducing() call
                    self.sim.probe("push_final_chunk_and_unregister_in_one_call")
                    self.do_unregister()
                    if self.sim.draw_bool(0.5, "lose_after_finish"):
                        self.do_lose()
        else:
            if not self.in_register:
                sim.probe("pull_resumed_from_doWrite")
                if not self.lw_called:
                    self.backlog_clause("pull-resume-when-empty", lambda bl: bl == 0, "pull",
                                        "pull producer asked for data with %d bytes still buffered" % self.backlog)
            # a pull producer produces once per resume, or finishes
            if self.draining or sim.draw_bool(self.pull_finish_p, "pull_finish"):
                if not self.draining and sim.draw_bool(0.4, "final_chunk"):
                    # the producer writes its last chunk and unregisters within the same resumeProducing() call
                    sim.probe("pull_final_chunk_and_unregister_in_one_call")
                    self.do_write("pull%d" % p.pid)
                self.ev("producer", p.pid, "finish")
                p.current = False
                self.producer = None
                self.fd.unregisterProducer()
                if sim.draw_bool(0.5, "lose_after_finish"):
                    self.do_lose()
            else:
                n0 = self.issued
                self.do_write("pull%d" % p.pid)
                if self.issued == n0 and self.producer is p:
                    # produced nothing: a pull producer that writes nothing would never be asked again
                    data = self.take(1)
                    self.note_write([data])
                    self.fd.write(data)

    def on_pause(self, p):
        p.pauses += 1
        self.ev("producer", p.pid, "pause")
        if p.current:
            if not p.paused:
                self.sim.probe("streaming_paused")
            p.paused = True

    # ------------------------------------------------------------ operations
    def do_lose(self):
        self.ev("app", "loseConnection")
        if self.connected and not self.lose_called:
            self.lose_called = True
            self.lose_mark = len(self.expected)
        with self.sim.guard("loseConnection-raised"):
            self.fd.loseConnection()

    def do_lose_write(self):
        self.ev("app", "loseWriteConnection")
        self.lw_called = True
        with self.sim.guard("loseWriteConnection-raised"):
            self.fd.loseWriteConnection()

    def do_register(self):
        sim = self.sim
        streaming = sim.draw_bool(0.5, "streaming")
        self.npid += 1
        p = Producer(self, streaming, self.npid)
        self.ev("app", "registerProducer", p.pid, "streaming" if streaming else "pull")
        sim.probe("register_streaming" if streaming else "register_pull")
        if self.connected:
            self.producer = p
        else:
            p.current = False
        self.in_register = True
        try:
            with sim.guard("registerProducer-raised"):
                self.fd.registerProducer(p, streaming)
        finally:
            self.in_register = False

    def do_register_refused(self):
        """the application registers a producer although one is still registered: IConsumer.registerProducer refuses
        (RuntimeError); the application shrugs and carries on - the producer that IS registered must be served as before"""
        sim = self.sim
        p = self.producer
        streaming = sim.draw_bool(0.5, "streaming")
        self.npid += 1
        q = Producer(self, streaming, self.npid)
        q.current = False           # never registered as far as the model is concerned
        self.ev("app", "registerProducer", q.pid, "streaming" if streaming else "pull", "while-registered", p.pid)
        sim.fault("register_refused")
        sim.probe("register_refused_same_kind" if streaming == p.streaming else "register_refused_other_kind")
        refused = False
        with sim.guard("registerProducer-raised", "second-producer"):
            try:
                self.fd.registerProducer(q, streaming)
            except RuntimeError:
                refused = True
        sim.check("second-producer-refused", refused, "producer-registered",
                  "registerProducer() with another producer still registered did not raise RuntimeError (IConsumer.registerProducer)")

    def do_unregister(self):
        p = self.producer
        self.ev("app", "unregisterProducer", p.pid)
        p.current = False
        self.producer = None
        with self.sim.guard("unregisterProducer-raised"):
            self.fd.unregisterProducer()

    def do_dowrite(self):
        sim = self.sim
        self.ev("reactor", "doWrite")
        p0 = self.producer
        resumes0 = p0.resumes if p0 is not None else 0
        self.in_dowrite = True
        try:
            with sim.guard("doWrite-raised"):
                why = self.fd.doWrite()
        finally:
            self.in_dowrite = False
        if why:
            self.reactor._disconnectSelectable(self.fd, why, False)
        elif self.connected:
            p = self.producer
            if self.undecided:
                sim.probe("drained_clauses_suspended_refused_call_undecided")
            elif p is not None and p.streaming and p.paused and not self.lw_called and self.backlog == 0:
                sim.fail("resume-when-drained", "streaming", "buffer fully drained by doWrite but the paused streaming producer was not resumed")
            if (p is not None and p is p0 and not p.streaming and not self.lw_called and self.backlog == 0
                    and p.resumes == resumes0 and not self.undecided):
                sim.fail("pull-asked-when-drained", "pull", "buffer fully drained by doWrite but the registered non-streaming producer was not asked for more data")

    def invariants(self):
        sim = self.sim
        if not self.connected:
            self.maybes = []
        elif not self.reactor.writing:
            # idle: had a refused call accepted its good chunks (not handed over yet) this would be wrong - whichever way it
            # turns out for those calls, the clauses below may rely on "refused calls wrote nothing"
            for mb in self.maybes:
                mb["idle"] = True
        if self.connected and self.acc < len(self.expected):
            self.missing("registered-while-pending", self.reactor.writing, "idle-with-backlog",
                      "%d bytes written while connected are not handed over and the descriptor is not registered for writing" % (len(self.expected) - self.acc))
        if self.connected and self.lose_called and not self.reactor.writing and self.producer is None:
            sim.fail("close-pending-but-idle", "loseConnection", "loseConnection was called, nothing buffered, no pull producer, yet the descriptor is idle and open")
        p = self.producer
        if (self.connected and p is not None and not p.streaming and not self.lw_called and not self.reactor.writing
                and self.backlog == 0 and self.g < len(PATTERN)):
            sim.fail("pull-producer-starved", "idle", "a non-streaming producer is registered, nothing is buffered and the descriptor is idle: "
                     "nobody will ever ask the producer for its data (resumes=%d)" % p.resumes)
        sim.state((self.connected, self.lose_called, self.lw_called, self.halfclosed,
                   None if self.producer is None else (self.producer.streaming, self.producer.paused),
                   min(self.backlog, 3), self.reactor.writing))


class App:
    """what the application keeps across operations, whichever descriptor it is talking to"""

    def __init__(self, lists_ok):
        self.lists_ok = lists_ok
        self.kept = None     # (list object passed to writeSequence earlier, the model's record of its content, harness it was last written to)


def configure(sim, h, primary):
    """per-descriptor knobs (the second descriptor of a run draws its own)"""
    buffer_size = sim.draw_choice([16, 0, 1, 5, 64, 1024, 65536], "bufferSize")
    send_limit = sim.draw_choice([128 * 1024, 1, 2, 7, 32, 128], "SEND_LIMIT")
    accept_mode = sim.draw_choice(["all", "generous", "stingy", "limit"], "accept_mode")
    err_w = sim.draw_choice([0, 0, 0, 1, 4], "err_weight")
    h.os_limit = sim.draw_choice([1, 3, 16, 512], "os_limit")
    h.big_ok = sim.draw_bool(0.3 if primary else 0.1, "big_ok")
    h.huge_ok = sim.draw_bool(0.04, "huge_ok") if primary else False
    h.iter_ok = sim.draw_bool(0.3, "iter_ok")
    h.pull_finish_p = sim.draw_choice([0.2, 0.05, 0.5], "pull_finish_p")
    h.push_writes_on_resume = sim.draw_bool(0.5, "push_writes_on_resume")
    h.lw_ok = sim.draw_bool(0.35, "lw_ok")
    h.dup_register_ok = sim.draw_bool(0.5, "dup_register_ok")
    h.refused_ok = sim.draw_bool(REFUSED_WRITES_P, "refused_writes_ok")
    h.accept_weights = {
        "all": [("all", 1), ("err", 0)],
        "generous": [("all", 8), ("some", 3), ("zero", 1), ("one", 1), ("limit", 1), ("err", err_w)],
        "stingy": [("all", 1), ("some", 5), ("zero", 4), ("one", 5), ("limit", 2), ("err", err_w)],
        "limit": [("limit", 12), ("zero", 2), ("some", 1), ("err", err_w)],
    }[accept_mode]
    h.reactor = FakeFDSet()
    h.fd = fd = SimFD(h.reactor, h)
    fd.bufferSize = buffer_size
    fd.SEND_LIMIT = send_limit
    return {"bufferSize": buffer_size, "SEND_LIMIT": send_limit, "accept": accept_mode, "err_weight": err_w,
            "os_limit": h.os_limit, "iter_ok": h.iter_ok, "lw_ok": h.lw_ok, "dup_register_ok": h.dup_register_ok, "refused_writes_ok": h.refused_ok}


def one_op(sim, h):
    p = h.producer
    ops = [
        ("write", 6),
        ("doWrite", 9 if h.reactor.writing else 0),
        ("register", 2 if (p is None) else 0),
        ("unregister", 1 if (p is not None) else 0),
        ("registerRefused", 1 if (p is not None and h.connected and h.dup_register_ok) else 0),
        ("produce", 5 if (p is not None and p.streaming and not p.paused and h.connected) else 0),
        ("lose", 1 if not h.lose_called else 0),
        ("loseWrite", 1 if (h.lw_ok and not h.lw_called and h.connected) else 0),
        # refused write calls (no verdict window of a pending half-close left out)
        ("writeRefused", 1 if (h.refused_ok and not (h.lw_called and not h.halfclosed)) else 0),
    ]
    op = sim.draw_weighted(ops, "op")
    if op == "write":
        h.do_write("app")
    elif op == "doWrite":
        h.do_dowrite()
    elif op == "register":
        h.do_register()
    elif op == "unregister":
        h.do_unregister()
    elif op == "registerRefused":
        h.do_register_refused()
    elif op == "produce":
        h.do_write("push%d" % p.pid)
    elif op == "lose":
        h.do_lose()
    elif op == "loseWrite":
        h.do_lose_write()
    elif op == "writeRefused":
        h.do_write_refused("push%d" % p.pid if (p is not None and p.streaming and not p.paused and h.connected
                                                 and sim.draw_bool(0.5, "by_producer")) else "app")
    h.invariants()
    if not h.connected:
        h.after_lost += 1


def drain(sim, h):
    """the scheduler keeps serving write-readiness; pull producers finish at their next turn"""
    n = 0
    for rnd in (0, 1):
        if h.producer is not None and (h.producer.streaming or rnd == 1):
            h.do_unregister()          # the application's producer is finished
            h.invariants()
        while h.reactor.writing and h.connected:
            sim.step(8000 * sim.depth)
            n += 1
            if n > 40:
                h.flush = True     # from here on the OS accepts everything it is offered
            if n > 80:
                sim.fail("stuck-writing", "os-accepts-everything",
                         "descriptor still registered for writing after 40 doWrite calls in which the OS accepted everything offered "
                         "(%d of %d bytes handed over)" % (h.acc, len(h.expected)))
            h.do_dowrite()
            h.invariants()
    if h.connected:
        h.missing("all-bytes-handed-over", h.acc >= len(h.expected), "quiescent",
                  "descriptor idle and connected with %d bytes never handed to the OS" % (len(h.expected) - h.acc))
        if h.lose_called:
            sim.fail("never-closed", "quiescent", "loseConnection called, everything flushed, no producer, but the connection never closed")


def run(sim):
    nops = sim.draw_int(5, 60 * sim.depth, "nops")
    lists_ok = not sim.draw_bool(0.25, "lists_never_touched_again")
    two = sim.draw_bool(TWO_DESCRIPTORS_P, "two_descriptors")
    app = App(lists_ok)
    h = Harness(sim, app)
    sim.config = configure(sim, h, True)
    sim.config.update({"nops": nops, "lists_ok": lists_ok, "two_descriptors": two})
    hs = [h]
    if two:
        # a second live descriptor with its own knobs, OS and reference model, driven in between the first one's operations
        sim.probe("two_live_descriptors")
        peer = Harness(sim, app, "peer", 700001)
        sim.config["peer"] = configure(sim, peer, False)
        h.peer, peer.peer = peer, h
        hs.append(peer)

    for _ in range(nops):
        sim.step(2000 * sim.depth)
        live = [x for x in hs if x.after_lost <= 3]
        if not live:
            break
        x = live[0]
        if len(live) == 2 and sim.draw_weighted([(0, 3), (1, 2)], "which"):
            x = live[1]
        one_op(sim, x)

    for x in hs:
        x.draining = True
    for x in hs:
        drain(sim, x)
    sim.nontrivial = any(x.short_writes and x.special for x in hs)


# Sensitivity (tools/mutate.py C14 --sub src/twisted/internet/abstract.py ...):
MUTANTS = [
    "doWrite: drop `self.offset = 0` after _concatenate -> CAUGHT (offered-in-order / stuck-writing)",
    "doWrite: drop `self._tempDataLen = 0` after _concatenate -> CAUGHT (resume-when-drained / stuck-writing)",
    "doWrite: `(not streamingProducer) or producerPaused` -> `streamingProducer and producerPaused` (close taken under a pull producer) -> CAUGHT (closed-under-pull-producer)",
    "_isSendBufferFull: ignore _tempDataLen -> CAUGHT (pause-when-full)",
    "doWrite: 'nothing left' test without `and not self._tempDataLen` -> CAUGHT (registered-while-pending / close-after-flush / pull-resume-when-empty)",
    "doWrite: writeSomeData(self.dataBuffer) instead of the lazy slice from offset (resend) -> CAUGHT (offered-in-order)",
    "unregisterProducer: no startWriting when disconnecting -> CAUGHT (close-pending-but-idle)",
    "connectionLost: producer forgotten without stopProducing -> CAUGHT (stop-once-on-loss)",
    "loseConnection: no startWriting -> CAUGHT (close-pending-but-idle)",
    "write: accept data when not connected -> CAUGHT (offered-in-order:more-than-written / lost-once)",
    "writeSequence: _tempDataLen not increased -> CAUGHT (close-after-flush / pause-when-full)",
    "writeSequence: pending buffer bound to the caller's list object when empty (no copy) -> CAUGHT (offered-in-order:more-than-written / "
    "registered-while-pending; by the list-edit family alone and by the two-descriptor family alone)",
    "writeSequence: a list argument is queued as one element (no copy) and flattened only by doWrite's merge -> CAUGHT "
    "(offered-in-order / registered-while-pending)",
    "doWrite: `(not streamingProducer) or producerPaused` -> `streamingProducer and producerPaused` without loseConnection in the history -> CAUGHT "
    "(pull-asked-when-drained)",
    "registerProducer: `self.producer = producer` before the RuntimeError of a refused second registration (half-done refusal) -> CAUGHT "
    "(pause-when-full / pull-asked-when-drained / stop-once-on-loss; needs the refused-registration family)",
    "registerProducer: streaming flag assigned before the refusal check (refused call of the other kind flips the registered producer's kind) -> CAUGHT "
    "(pause-when-full / closed-under-pull-producer / pull-asked-when-drained; needs the refused-registration family)",
    "registerProducer: no resumeProducing() for a non-streaming producer at registration -> CAUGHT (pull-producer-starved)",
    "registerProducer: second registration not refused (`if self.producer is not None` -> `if 0`) -> CAUGHT (second-producer-refused)",
    "doWrite: a paused streaming producer is resumed only `and not self.disconnecting` (drained buffer on a closing connection: closed and "
    "stopped instead of resumed) -> CAUGHT (resume-when-drained:streaming-closing; needs the clause evaluated on the doWrite that closes)",
    "writeSequence: one pass that validates and queues chunk by chunk, startWriting/_maybePauseProducer only when the pass completes (a call "
    "refused part-way leaves its first chunks queued on an idle descriptor) -> CAUGHT (registered-while-pending:accepted-by-refused-call / "
    "pause-when-full:accepted-by-refused-call; needs the refused-write family)",
    "writeSequence: `for chunk in iovec: self.write(chunk)` (the documented equivalent; a refused call has written its first chunks) -> survives "
    "(within the statement: the model accepts either reading)",
    "doWrite: `elif self.disconnecting and not self._tempDataLen` -> survives (equivalent: _tempDataLen is 0 in that branch)",
]
